/-
  Model/Env.lean — the runtime environment of flame.go: `Env()`, `SetEnv`, and the package `init` that reads the
  process variable `FLAMEGO_ENV`.  Recovery (C15) and the renderer (C17) branch on `Env() == EnvTypeDev`.

      var env = atomic.Value holding EnvTypeDev
      func SetEnv(e EnvType) { if e == EnvTypeDev || e == EnvTypeProd || e == EnvTypeTest { env.Store(e) } }
      func init() { SetEnv(EnvType(os.Getenv("FLAMEGO_ENV"))) }

  The environment is a byte string; the three valid ones are spelled out (the documented constants).
-/
import Flamego.Base.Bytes
namespace Flamego.Env

def dev : Bytes := [100, 101, 118, 101, 108, 111, 112, 109, 101, 110, 116]   -- "development"
def prod : Bytes := [112, 114, 111, 100, 117, 99, 116, 105, 111, 110]   -- "production"
def test : Bytes := [116, 101, 115, 116]   -- "test"

def valid (e : Bytes) : Bool := e == dev || e == prod || e == test

/-- `SetEnv`: a valid value is stored, anything else ignored -/
def setEnv (cur e : Bytes) : Bytes := if valid e then e else cur

/-- the environment when the package has been initialised in a process whose `FLAMEGO_ENV` is `var`
    (an unset variable reads as the empty string) -/
def initEnv (var : Bytes) : Bytes := setEnv dev var

/-- a process started with `FLAMEGO_ENV = var` that then calls `SetEnv` with each of `calls` -/
def run (var : Bytes) (calls : List Bytes) : Bytes := calls.foldl setEnv (initEnv var)

/-- what Recovery and the renderer ask -/
def isDev (e : Bytes) : Bool := e == dev

end Flamego.Env
