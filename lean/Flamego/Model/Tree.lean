/-
  Model/Tree.lean — the priority-ordered route tree of internal/route/tree.go.

  Go                                        | here
  ------------------------------------------+--------------------------------------------
  Tree (baseTree + style-specific fields)   | `Node.mk key pat subs leaves`
  Leaf (baseLeaf + style-specific fields)   | `Leaf` (`hid` identifies the registration,
                                            |   i.e. the handler and the header matcher)
  segment.String() comparisons              | `key` = `Segment.render`
  addNextSegment / addSubtree / addLeaf     | `addNext` / `addLeafTo` / `insertByRank`
  matchNextSegment / matchSubtree /         | `matchNext` / `matchSubs` / `matchAllLoop`
    matchAllTree.matchAll / matchLeaf       |   / `matchLeaves`
  Params (a map written during the search)  | `Params` (association list, last write wins)

  The matcher is the *segment-level* reading of the Go code: `path` is `TrimLeft(path, "/")`
  split at every '/'.  (`Model/TreeIdx` is the same algorithm over Go's string indexes.)
  A failed registration leaves the tree unchanged (the code removes a subtree it created for a
  route that is not added).
-/
import Flamego.Model.Classify
import Flamego.Base.Codec
namespace Flamego

abbrev Seg := Bytes
abbrev Params := List (Bytes × Bytes)

def Params.set (ps : Params) (k v : Bytes) : Params :=
  match ps with
  | [] => [(k, v)]
  | (k', v') :: rest => if k' = k then (k, v) :: rest else (k', v') :: Params.set rest k v

def Params.get? (ps : Params) (k : Bytes) : Option Bytes :=
  (ps.find? (·.1 = k)).map (·.2)

/-- what `addLeaf` compares to find an already registered leaf:
    `strings.TrimLeft(segment.String(), "/?")` — the segment text without the slash and without
    the optional mark ("/a/?b" also serves "/a/b", so the mark does not make a different route) -/
def Segment.leafKey (s : Segment) : Bytes := s.elems.flatMap Elem.render

structure Leaf where
  key   : Bytes            -- `Segment.leafKey` of the segment it derives from
  pat   : Pat
  hid   : Nat              -- which registration (handler / header matcher / Route handle)
  route : Route            -- the route this leaf belongs to
  long  : Bool             -- false for the leaf that serves the route without its optional segment
  allStatic : Bool         -- `Static()`: static leaf under static ancestors only
  deriving Repr, Inhabited, DecidableEq

inductive Node
  | mk (key : Bytes) (pat : Pat) (subs : List Node) (leaves : List Leaf)
  deriving Repr, Inhabited

def Node.key : Node → Bytes | .mk k _ _ _ => k
def Node.pat : Node → Pat | .mk _ p _ _ => p
def Node.subs : Node → List Node | .mk _ _ s _ => s
def Node.leaves : Node → List Leaf | .mk _ _ _ l => l

/-- `NewTree()`: the root has no segment and style none -/
def Node.root : Node := .mk [] (.static []) [] []

/-! ### registration -/

/-- tree.go:149-162 / 187-201: insert before the first element of strictly greater rank -/
def insertByRank {α} (rank : α → Nat) (x : α) : List α → List α
  | [] => [x]
  | y :: ys => if rank x < rank y then x :: y :: ys else y :: insertByRank rank x ys

/-- `hasMatchAllLeaf` / `hasMatchAllSubtree`: the last element is a match-all -/
def lastIsAll {α} (pat : α → Pat) (l : List α) : Bool :=
  match l.getLast? with
  | some x => (pat x).isAll
  | none => false

/-- `addLeaf` without the optional-segment part: duplicate check, style, bind reuse against the
    ancestors, at most one match-all leaf, rank insertion -/
def addLeafTo (E : Engine) (leaves : List Leaf) (ancBinds : List Bytes) (ancStatic : Bool)
    (r : Route) (s : Segment) (hid : Nat) (long : Bool) : Except RegErr (List Leaf) :=
  if leaves.any (·.key = s.leafKey) then .error .dupRoute
  else match classifyLeaf E s with
    | .error e => .error e
    | .ok pat =>
      if pat.binds.any (ancBinds.contains ·) then .error .dupBind
      else if pat.isAll && lastIsAll Leaf.pat leaves then .error .dupMatchAllSibling
      else
        let st := match pat with | .static _ => ancStatic | _ => false
        .ok (insertByRank (fun l => l.pat.rank) ⟨s.leafKey, pat, hid, r, long, st⟩ leaves)

def replaceNode (subs : List Node) (key : Bytes) (n : Node) : List Node :=
  subs.map fun m => if m.key = key then n else m

/-- `addNextSegment` at node `(key, pat, subs, leaves)` for the remaining segments `segs`.
    `ancBinds`: binds of this node and its ancestors; `ancAll`: some ancestor-or-self is a
    match-all; `ancStatic`: this node and all ancestors are static (or the root);
    `isRoot`: this node is the root (its own segment does not exist).
    `self`: the segment this node derives from (for the short form of an optional route).
    Returns the new `(subs, leaves)` of this node and, if the last segment is optional and this
    node is *not* the one holding the short form, the request to add the short form one level up. -/
def addNext (E : Engine) (r : Route) (hid : Nat) :
    (segs : List Segment) → (subs : List Node) → (leaves : List Leaf) →
    (ancBinds : List Bytes) → (ancAll ancStatic : Bool) →
    Except RegErr (List Node × List Leaf × Bool)
  | [], _, _, _, _, _ => .error .emptyRoute
  | [s], subs, leaves, ancBinds, _, ancStatic => do
    -- last segment: a leaf of this node; the caller adds the short form if `s.optional`
    let leaves' ← addLeafTo E leaves ancBinds ancStatic r s hid true
    pure (subs, leaves', s.optional)
  | s :: s2 :: rest, subs, leaves, ancBinds, ancAll, ancStatic =>
    if s.optional then .error .innerOptional
    else
      match subs.find? (·.key = s.render) with
      | some (.mk ckey cpat csubs cleaves) => do
        let (csubs', cleaves', short) ← addNext E r hid (s2 :: rest) csubs cleaves
            (cpat.binds ++ ancBinds) (ancAll || cpat.isAll)
            (ancStatic && (match cpat with | .static _ => true | _ => false))
        -- the child's last segment was optional: this node holds the short form, a leaf for `s`
        let leaves' ← if short then addLeafTo E leaves ancBinds ancStatic r s hid false else pure leaves
        pure (replaceNode subs ckey (.mk ckey cpat csubs' cleaves'), leaves', false)
      | none =>
        match classifyTree E s with
        | .error e => .error e
        | .ok cpat =>
          if cpat.binds.any (ancBinds.contains ·) then .error .dupBind
          else if cpat.isAll && ancAll then .error .dupMatchAllStyle
          else if cpat.isAll && lastIsAll Node.pat subs then .error .dupMatchAllSibling
          else do
            let (csubs', cleaves', short) ← addNext E r hid (s2 :: rest) [] []
                (cpat.binds ++ ancBinds) (ancAll || cpat.isAll)
                (ancStatic && (match cpat with | .static _ => true | _ => false))
            let leaves' ← if short then addLeafTo E leaves ancBinds ancStatic r s hid false else pure leaves
            pure (insertByRank (fun n => n.pat.rank) (.mk s.render cpat csubs' cleaves') subs, leaves', false)

/-- `AddRoute(t, r, h)` on the root; a route whose only segment is optional puts its short form,
    the empty static leaf, on the root itself (before the long leaf) — unless the optional segment
    has no element ("/?"): then both forms are the root path and there is only the long leaf -/
def addRoute (E : Engine) (t : Node) (r : Route) (hid : Nat) : Except RegErr Node :=
  match t with
  | .mk k p subs leaves =>
    match r.segs with
    | [s] =>
      if s.optional && !s.elems.isEmpty then do
        -- order of tree.go: duplicate/style checks of the long leaf, then the short leaf, then insert
        let _ ← addLeafTo E leaves [] true r s hid true
        let l1 ← addLeafTo E leaves [] true r ⟨false, []⟩ hid false
        let l2 ← addLeafTo E l1 [] true r s hid true
        pure (.mk k p subs l2)
      else do
        let l ← addLeafTo E leaves [] true r s hid true
        pure (.mk k p subs l)
    | segs => do
      let (subs', leaves', _) ← addNext E r hid segs subs leaves [] false true
      pure (.mk k p subs' leaves')

/-! ### matching -/

/-- a tree node's own `match(segment, params)` (never called for match-all nodes) -/
def treeMatch (E : Engine) (pat : Pat) (s : Seg) (ps : Params) : Option Params :=
  match pat with
  | .static lit => if lit = s then some ps else none
  | .hole b => some (ps.set b s)
  | .regex pattern binds =>
    match E.find pattern s with
    | none => none
    | some subm =>
      if subm.length ≠ binds.length + 1 then none
      else some (writeBinds binds (subm.drop 1) ps)
  | .all _ _ => none
where
  writeBinds : List Bytes → List Bytes → Params → Params
    | b :: bs, v :: vs, ps => writeBinds bs vs (if b = [] then ps else ps.set b v)
    | _, _, ps => ps

/-- a leaf's `match(segment, params, header)` for one (the last) segment -/
def leafMatch (E : Engine) (hok : Nat → Bool) (l : Leaf) (s : Seg) (ps : Params) : Option Params :=
  match l.pat with
  | .static lit => if lit = s && hok l.hid then some ps else none
  | .hole b => if hok l.hid then some (ps.set b s) else none
  | .all b _ => if hok l.hid then some (ps.set b s) else none
  | .regex pattern binds =>
    match E.find pattern s with
    | none => none
    | some subm =>
      if subm.length < binds.length + 1 then none
      else if !hok l.hid then none
      else some (treeMatch.writeBinds binds (subm.drop 1) ps)

/-- `matchLeaf`: the first leaf, in list order, that matches -/
def matchLeaves (E : Engine) (hok : Nat → Bool) : List Leaf → Seg → Params → Option Leaf × Params
  | [], _, ps => (none, ps)
  | l :: ls, s, ps =>
    match leafMatch E hok l s ps with
    | some ps' => (some l, ps')
    | none => matchLeaves E hok ls s ps

/-- the fall-back of `matchSubtree`: the match-all leaf of this node takes everything that is
    left, `s :: rest` (at least two segments), if its capture limit allows -/
def matchAllLeaf (hok : Nat → Bool) (leaves : List Leaf) (s : Seg) (rest : List Seg) (ps : Params) :
    Option Leaf × Params :=
  match leaves.getLast? with
  | none => (none, ps)
  | some l =>
    match l.pat with
    | .all b cap =>
      if cap > 0 && cap < (rest.length + 1 : Int) then (none, ps)
      else if !hok l.hid then (none, ps)
      else (some l, ps.set b (joinSlash (s :: rest)))
    | _ => (none, ps)

mutual
/-- `matchNextSegment`: `s` is the current segment, `rest` what follows it -/
def matchNext (E : Engine) (hok : Nat → Bool) (subs : List Node) (leaves : List Leaf)
    (s : Seg) (rest : List Seg) (ps : Params) : Option Leaf × Params :=
  match rest with
  | [] => matchLeaves E hok leaves s ps
  | s' :: rest' => matchSubs E hok subs leaves s s' rest' ps
termination_by (rest.length, subs.length, 1)

/-- `matchSubtree`: the loop over the subtrees (remaining ones: `subs`), then the fall-back -/
def matchSubs (E : Engine) (hok : Nat → Bool) (subs : List Node) (leaves : List Leaf)
    (s s' : Seg) (rest' : List Seg) (ps : Params) : Option Leaf × Params :=
  match subs with
  | [] => matchAllLeaf hok leaves s (s' :: rest') ps
  | .mk _ cpat csubs cleaves :: more =>
    match cpat with
    | .all b cap =>
      match matchAllLoop E hok csubs cleaves b cap 1 s s' rest' ps with
      | (some l, ps') => (some l, ps')
      | (none, ps') => matchAllLeaf hok leaves s (s' :: rest') ps'      -- `break`
    | _ =>
      match treeMatch E cpat s ps with
      | none => matchSubs E hok more leaves s s' rest' ps
      | some ps1 =>
        match matchNext E hok csubs cleaves s' rest' ps1 with
        | (some l, ps2) => (some l, ps2)
        | (none, ps2) => matchSubs E hok more leaves s s' rest' ps2
termination_by (rest'.length + 1, subs.length, 0)

/-- `matchAllTree.matchAll`: try the children on what follows; on a miss swallow one more segment -/
def matchAllLoop (E : Engine) (hok : Nat → Bool) (csubs : List Node) (cleaves : List Leaf)
    (b : Bytes) (cap : Int) (captured : Nat) (acc : Seg) (s' : Seg) (rest' : List Seg) (ps : Params) :
    Option Leaf × Params :=
  if cap ≤ 0 || cap ≥ (captured : Int) then
    match matchNext E hok csubs cleaves s' rest' ps with
    | (some l, ps') => (some l, ps'.set b acc)
    | (none, ps') =>
      match rest' with
      | [] => (none, ps')
      | s'' :: rest'' => matchAllLoop E hok csubs cleaves b cap (captured + 1) (acc ++ slash :: s') s'' rest'' ps'
  else (none, ps)
termination_by (rest'.length + 1, 0, 0)
end

/-- `Tree.Match(path, header)`: trim leading slashes, split, search, unescape every value -/
def Node.match (E : Engine) (hok : Nat → Bool) (t : Node) (path : Bytes) : Option (Leaf × Params) :=
  match splitSlash (trimLeftSlash path) with
  | [] => none                                   -- unreachable: split never returns []
  | s :: rest =>
    match matchNext E hok t.subs t.leaves s rest [] with
    | (some l, ps) => some (l, ps.map fun (k, v) => (k, pathUnescapeOrRaw v))
    | (none, _) => none

end Flamego
