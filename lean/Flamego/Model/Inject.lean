/-
  Model/Inject.lean — inject/inject.go (the injector), handler.go (fast-invoker wrappers and
  the automatic wrapping) and the request/application scope chain of context.go / flame.go.

  Go                                            | here
  ----------------------------------------------+---------------------------------------------
  reflect.Type (a finite universe of them)      | `Ty`  (an index into the universe)
  a registered reflect.Value                    | `Val` (an identity; the harness gives every
                                                |        registered value its own id)
  t.Kind() == reflect.Interface                 | `U.isInterface t`
  k.Implements(t)                               | `U.implements k t`
  injector.values (map[reflect.Type]Value)      | `Scope` — the registrations in the order they
                                                |   were made; the map's content for a key is the
                                                |   LAST registration for it (`lookup`)
  Map / MapTo / Set                             | `register s t v`  (all three are `values[t] = v`)
  injector.parent (followed recursively)        | the tail of the chain `List Scope`, nearest first
  Value(t)                                      | `valueSet U chain t` (every admissible answer) and
                                                |   `value U chain t c` (the answer for iteration choice `c`)
  fastInvoke / callInvoke / Invoke              | `fastInvoke` / `callInvoke` / `invoke`
  validateAndWrapHandler                        | `validateAndWrap`
  Apply                                         | `apply`
  newContext + createContext (SetParent(f))     | `World.newRequest`, `World.chain`

  `Value` looks for an implementor with `for k, v := range inj.values`, and Go's map iteration
  order is unspecified: with several implementors registered in one scope any of them can be
  returned, and two lookups need not agree.  The model therefore has the *set* of admissible
  answers (`valueSet`), and the functions that need one answer take the iteration's choice as an
  explicit input (`c : Nat`, one per lookup); theorems quantify over all choices.

  Guard: registered values are valid `reflect.Value`s (nobody maps an untyped nil, and `Set` is
  not given a zero `reflect.Value`) and the parent links are acyclic; with a cyclic parent chain
  the Go code does not terminate and is outside the model.
-/
namespace Flamego.Inject

abbrev Ty := Nat
abbrev Val := Nat

/-- what `reflect` says about the universe of types -/
structure Universe where
  isInterface : Ty → Bool
  implements  : Ty → Ty → Bool      -- `implements k t` = `k.Implements(t)`

/-- one injector's registrations, oldest first -/
abbrev Scope := List (Ty × Val)

/-- `inj.values[t] = v` (Map, MapTo and Set) -/
def register (s : Scope) (t : Ty) (v : Val) : Scope := s ++ [(t, v)]

/-- `inj.values[t]`: the last registration for `t` -/
def lookup : Scope → Ty → Option Val
  | [], _ => none
  | (k, v) :: rest, t =>
    match lookup rest t with
    | some w => some w
    | none => if k = t then some v else none

/-- the values `for k, v := range inj.values { if k.Implements(t) … }` can stop at:
    every current map entry whose key implements `t` -/
def implementors (U : Universe) (s : Scope) (t : Ty) : List Val :=
  (s.filter (fun e => U.implements e.1 t && lookup s e.1 == some e.2)).map (·.2)

/-- `Value(t)` as the list of admissible answers (`[]` = the zero `reflect.Value`):
    exact registration; else, for an interface, the implementors in this scope; else the parent. -/
def valueSet (U : Universe) : List Scope → Ty → List Val
  | [], _ => []
  | s :: parents, t =>
    match lookup s t with
    | some v => [v]
    | none =>
      let impl := if U.isInterface t then implementors U s t else []
      if impl.isEmpty then valueSet U parents t else impl

/-- one answer out of a set, for the map-iteration choice `c` -/
def pick (l : List Val) (c : Nat) : Option Val := l[c % l.length]?

/-- the iteration choice of the next lookup (0 when the list has run out) -/
def nextChoice : List Nat → Nat
  | [] => 0
  | c :: _ => c

/-- `Value(t)` for iteration choice `c`; `none` = `!val.IsValid()` -/
def value (U : Universe) (chain : List Scope) (t : Ty) (c : Nat) : Option Val :=
  pick (valueSet U chain t) c

/-! ### Invoke -/

/-- returned values, or "value not found for type `t`" -/
inductive Res
  | error (t : Ty)
  | ok (vals : List Val)
  deriving DecidableEq, Repr

/-- what an invocation did: the argument lists the function body was entered with (in order),
    and what came back -/
structure Outcome where
  calls  : List (List Val)
  result : Res
  deriving DecidableEq, Repr

/-- a function body: results from arguments -/
abbrev Body := List Val → List Val
/-- a `FastInvoker`'s `Invoke([]interface{})` -/
abbrev FastBody := List Val → Outcome

/-- the loop of both `fastInvoke` and `callInvoke`: `for i := 0; i < numIn; i++ { val =
    inj.Value(t.In(i)); if !val.IsValid() { return nil, error }; in[i] = val }` — parameters left
    to right, one iteration choice per lookup, stop at the first that is not found -/
def resolveArgs (U : Universe) (chain : List Scope) : List Ty → List Nat → Except Ty (List Val)
  | [], _ => .ok []
  | t :: ts, cs =>
    match value U chain t (nextChoice cs) with
    | none => .error t
    | some v =>
      match resolveArgs U chain ts cs.tail with
      | .error e => .error e
      | .ok vs => .ok (v :: vs)

/-- `fastInvoke`: box the arguments, then `return f.Invoke(in)` -/
def fastInvoke (U : Universe) (chain : List Scope) (sig : List Ty) (cs : List Nat) (f : FastBody) : Outcome :=
  match resolveArgs U chain sig cs with
  | .error t => { calls := [], result := .error t }
  | .ok args => f args

/-- `callInvoke`: `return reflect.ValueOf(f).Call(in), nil` -/
def callInvoke (U : Universe) (chain : List Scope) (sig : List Ty) (cs : List Nat) (body : Body) : Outcome :=
  match resolveArgs U chain sig cs with
  | .error t => { calls := [], result := .error t }
  | .ok args => { calls := [args], result := .ok (body args) }

/-- a handler: a plain function, or a value whose type has an `Invoke([]interface{})` method
    (`sig` = `reflect.TypeOf(f).In(0..NumIn)` in both cases) -/
inductive Handler
  | plain (sig : List Ty) (body : Body)
  | fast (sig : List Ty) (f : FastBody)

/-- `reflect.TypeOf(f).In(i)`, `i < NumIn()` -/
def Handler.sig : Handler → List Ty
  | .plain sig _ => sig
  | .fast sig _ => sig

/-- `Invoke`: `switch v := f.(type) { case FastInvoker: fastInvoke … default: callInvoke … }` -/
def invoke (U : Universe) (chain : List Scope) (cs : List Nat) : Handler → Outcome
  | .fast sig f => fastInvoke U chain sig cs f
  | .plain sig body => callInvoke U chain sig cs body

/-- The wrappers of handler.go and logger.go (`ContextInvoker`, `httpHandlerFuncInvoker`,
    `teapotInvoker`, `LoggerInvoker`) and the harness's hand-written ones: type-assert
    `args[0] … args[n-1]`, call the function once with them, hand its results back. -/
def wrap (n : Nat) (body : Body) : FastBody :=
  fun args => { calls := [args.take n], result := .ok (body (args.take n)) }

/-- `validateAndWrapHandler` (the non-panicking part): a FastInvoker is kept; a function whose
    type is one of the built-in shapes is converted to its wrapper; anything else is kept
    (or given to the caller's wrapper, which flamego itself never sets). -/
def validateAndWrap (builtinShape : List Ty → Bool) : Handler → Handler
  | .fast sig f => .fast sig f
  | .plain sig body => if builtinShape sig then .fast sig (wrap sig.length body) else .plain sig body

/-! ### Apply -/

structure Field where
  ty       : Ty
  tagged   : Bool     -- `structField.Tag.Lookup("inject")` succeeds
  settable : Bool     -- `f.CanSet()`: exported field of an addressable struct
  val      : Val      -- the field's content
  deriving DecidableEq, Repr

/-- the fields `Apply` touches: `f.CanSet() && ok` -/
def Field.injectable (f : Field) : Bool := f.settable && f.tagged

/-- `Apply`: fields in order; a tagged settable field is looked up and set; the first one not
    found ends the call with the error (earlier fields stay set, later ones are untouched). -/
def apply (U : Universe) (chain : List Scope) : List Field → List Nat → List Field × Option Ty
  | [], _ => ([], none)
  | f :: fs, cs =>
    if f.injectable then
      match value U chain f.ty (nextChoice cs) with
      | none => (f :: fs, some f.ty)
      | some v =>
        let r := apply U chain fs cs.tail
        ({ f with val := v } :: r.1, r.2)
    else
      let r := apply U chain fs cs
      (f :: r.1, r.2)

/-! ### Set-valued forms (what the driver prints; tied to the above in Proofs/Inject) -/

/-- per parameter the admissible arguments, or the first parameter type with none -/
def argSets (U : Universe) (chain : List Scope) : List Ty → Except Ty (List (List Val))
  | [] => .ok []
  | t :: ts =>
    if valueSet U chain t = [] then .error t
    else match argSets U chain ts with
      | .error e => .error e
      | .ok ss => .ok (valueSet U chain t :: ss)

/-- per field the admissible contents after `Apply`, and the error -/
def applySets (U : Universe) (chain : List Scope) : List Field → List (List Val) × Option Ty
  | [] => ([], none)
  | f :: fs =>
    if f.injectable then
      if valueSet U chain f.ty = [] then ((f :: fs).map (fun g => [g.val]), some f.ty)
      else
        let r := applySets U chain fs
        (valueSet U chain f.ty :: r.1, r.2)
    else
      let r := applySets U chain fs
      ([f.val] :: r.1, r.2)

/-! ### Application scope and request scopes -/

/-- A Flame and the requests it has served or is serving: `app` is the Flame's injector followed
    by its ancestors (nearest first); every request has its own injector (`newContext`), whose
    parent is the Flame (`c.SetParent(f)`). -/
structure World where
  app  : List Scope
  reqs : List Scope := []
  deriving Repr

/-- `createContext`: a new injector holding the request's services (Context, ResponseWriter,
    *http.Request), parent = the Flame -/
def World.newRequest (w : World) (services : Scope) : World :=
  { w with reqs := w.reqs ++ [services] }

def modifyAt (f : Scope → Scope) : List Scope → Nat → List Scope
  | [], _ => []
  | s :: rest, 0 => f s :: rest
  | s :: rest, i + 1 => s :: modifyAt f rest i

/-- `c.Map(v)` / `c.MapTo` / `c.Set` by a handler of request `i` -/
def World.mapReq (w : World) (i : Nat) (t : Ty) (v : Val) : World :=
  { w with reqs := modifyAt (register · t v) w.reqs i }

/-- `f.Map(v)` on the Flame -/
def World.mapApp (w : World) (t : Ty) (v : Val) : World :=
  match w.app with
  | [] => w
  | s :: rest => { w with app := register s t v :: rest }

/-- the scope chain a handler of request `i` is invoked with -/
def World.chain (w : World) (i : Nat) : List Scope := (w.reqs[i]?.getD []) :: w.app

end Flamego.Inject
