/-
  Model/Writer.lean — response_writer.go as a state machine.

  Go                                      | here
  ----------------------------------------+-------------------------------------------
  responseWriter.status (atomic int32)    | `status`   (0 = nothing sent)
  responseWriter.size                     | `size`
  responseWriter.beforeFuncs              | `hooks`    (registration order, ids)
  responseWriter.writeHeaderOnce          | `onceDone`
  responseWriter.method == "HEAD"         | `head`
  the wrapped http.ResponseWriter         | `under`    (events it received, oldest first;
                                          |             a hook running is also an event)

  Hooks are observers (they may set headers); a hook that calls back into the
  writer would deadlock on the `sync.Once` in Go and is outside the model.  A hook
  that panics is finding F15 (see DESIGN.md) and is modelled in Model/Chain.
  `write len fwd`: the underlying writer accepted `fwd` of the `len` bytes
  (`fwd` is chosen by the environment; the real spy writer is told the same number).

  The literals come from the source (Gen/ConstFacts, regenerated on every run): the implicit
  status of `Write` (`Flush` has its own literal, tied to the same value in
  Props/ConstFacts/C13) and the status value that means "nothing sent".
-/
import Flamego.Gen.ConstFacts
namespace Flamego.Writer

-- `simp` sees through the generated constants (a proof that needs the documented value then
-- breaks, by name, when the source literal changes)
attribute [simp] Gen.writerWriteImplicitStatus Gen.writerUnwrittenStatus

inductive UEv
  | hdr (c : Nat) | body (n : Nat) | flush | hook (h : Nat)
  deriving DecidableEq, Repr

inductive Op
  | writeHeader (c : Nat)
  | write (len fwd : Nat)
  | flush
  | before (h : Nat)
  | status | size | written        -- pure observers
  deriving DecidableEq, Repr

structure W where
  head     : Bool
  status   : Nat := 0
  size     : Nat := 0
  hooks    : List Nat := []
  onceDone : Bool := false
  under    : List UEv := []
  deriving Repr

def init (head : Bool) : W := { head := head }

/-- `Written()` -/
def W.written (w : W) : Bool := w.status != Gen.writerUnwrittenStatus

/-- `WriteHeader(c)`: `sync.Once`; inside: return if written, hooks LIFO, forward, store. -/
def W.writeHeader (w : W) (c : Nat) : W :=
  if w.onceDone then w
  else if w.written then { w with onceDone := true }
  else { w with onceDone := true,
                under := w.under ++ (w.hooks.reverse.map UEv.hook) ++ [UEv.hdr c],
                status := c }

/-- `if !w.Written() { w.WriteHeader(200) }` -/
def W.ensure (w : W) : W := if w.written then w else w.writeHeader Gen.writerWriteImplicitStatus

def step (w : W) : Op → W
  | .writeHeader c => w.writeHeader c
  | .write _ fwd =>
    let w := w.ensure
    if w.head then w else { w with under := w.under ++ [UEv.body fwd], size := w.size + fwd }
  | .flush =>
    let w := w.ensure
    { w with under := w.under ++ [UEv.flush] }
  | .before h => { w with hooks := w.hooks ++ [h] }
  | .status | .size | .written => w

/-- what the caller observes from one operation (after it) -/
def observe (w : W) : Op → Nat
  | .status => w.status
  | .size => w.size
  | .written => if w.written then 1 else 0
  | .write _ fwd => if w.head then 0 else fwd     -- `Write`'s own return value
  | _ => 0

def run (head : Bool) (ops : List Op) : W := ops.foldl step (init head)

end Flamego.Writer
