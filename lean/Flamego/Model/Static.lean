/-
  Model/Static.lean — the decision logic of static.go (`flamego.Static`) and a lexical
  model of the two standard-library pieces containment is delegated to:
  `path.Clean` / `path.Join` (GOROOT/src/path/path.go) and the name mapping of
  `http.Dir.Open` (GOROOT/src/net/http/fs.go, go1.23).

  Go                                                   | here
  -----------------------------------------------------+----------------------------------------
  path.Clean(p)                                        | `pathClean p`  (segment stack over `splitSlash`)
  path.Clean("/" + name)                               | `cleanRooted name`
  path.Join(a, b)                                      | `pathJoin a b`
  http.Dir(root).Open(name): the OS name it opens      | `dirOpenPath root name : Option Bytes`
      path.Clean("/"+name)[1:]  ("" -> ".")            |     `relOf name`
      filepath.Localize: fs.ValidPath + no NUL (unix)  |     `localizable`  (`none` = http.Dir refuses the name)
      filepath.Join(root, rel)                         |     `root` / `root ++ "/" ++ rel`   (root assumed clean, not "/")
  os.Open + Stat + IsDir                               | parameter `fs : Bytes → FsResult` keyed by the OS name
  parseStaticOptions (once, at construction)           | `normPrefix`, `normIndex`
  the handler closure                                  | `staticDecide`
  http.Redirect / WriteHeader(304) / http.ServeContent | the `Outcome` constructors (their effect is net/http's)

  What is NOT modelled (parameters / stated limits): what `os.Open` resolves an OS name to
  (symbolic links, mount points, case folding), `f.Stat()` failing after a successful open,
  `http.ServeContent`'s own conditional/range handling, `http.Redirect`'s rendering of the
  Location it is given, Windows separators.
-/
import Flamego.Base.Bytes
import Flamego.Gen.ConstFacts
namespace Flamego.Static

-- the literals of static.go, read from the source on every run (Gen/ConstFacts); `simp` sees
-- through them, so a proof that needs a documented value breaks by name when the literal changes
attribute [simp] Gen.staticDefaultIndex Gen.staticMethods Gen.staticRedirectStatus Gen.staticNotModifiedStatus

/-- ASCII literal as bytes (reduces by `decide`, unlike `String.toUTF8`). -/
def asc (s : String) : Bytes := s.toList.map (fun c => UInt8.ofNat c.toNat)

def dot : UInt8 := 46
def nul : UInt8 := 0

/-! ### `strings` helpers -/

/-- `strings.TrimRight(s, "/")` -/
def trimRightSlash : Bytes → Bytes
  | [] => []
  | c :: cs =>
    let r := trimRightSlash cs
    if c = slash ∧ r = [] then [] else c :: r

/-- `strings.Trim(s, "/")` -/
def trimSlashes (b : Bytes) : Bytes := trimRightSlash (trimLeftSlash b)

/-- `strings.HasSuffix(s, "/")` -/
def endsSlash (b : Bytes) : Bool := b.getLast? == some slash

/-! ### `path.Clean`, `path.Join` -/

/-- One path element processed by `path.Clean`'s loop. The stack holds the elements written
    so far, most recent first.  `""` and `"."` are dropped; `".."` removes the previous real
    element, is dropped at the root of a rooted path, and is kept (and then never removed)
    in front of an unrooted one; anything else is pushed.
    (Go tracks this with the `dotdot` index: `out.w > dotdot` = "the top is a real element".
    In a rooted path `..` is never pushed, so the `top = ".."` branch is dead there —
    `foldl_cleanStep_true_normal` proves it.) -/
def cleanStep (rooted : Bool) (stk : List Bytes) (seg : Bytes) : List Bytes :=
  if seg = [] ∨ seg = [dot] then stk
  else if seg = [dot, dot] then
    match stk with
    | [] => if rooted then [] else [seg]
    | top :: rest => if top = [dot, dot] then seg :: stk else rest
  else seg :: stk

/-- `path.Clean(p)` -/
def pathClean (p : Bytes) : Bytes :=
  match p with
  | [] => [dot]
  | c :: _ =>
    let rooted : Bool := c = slash
    let stk := (splitSlash p).foldl (cleanStep rooted) []
    if rooted then slash :: joinSlash stk.reverse
    else if stk.isEmpty then [dot] else joinSlash stk.reverse

/-- `path.Clean("/" + name)` -/
def cleanRooted (name : Bytes) : Bytes :=
  slash :: joinSlash ((splitSlash name).foldl (cleanStep true) []).reverse

/-- `path.Join(a, b)` -/
def pathJoin (a b : Bytes) : Bytes :=
  if a = [] ∧ b = [] then []
  else if a = [] then pathClean b
  else if b = [] then pathClean a
  else pathClean (a ++ slash :: b)

/-! ### `utf8.ValidString` (first half of `fs.ValidPath`) -/

/-- `pending` continuation bytes are still owed; the next one must lie in `lo..hi`. -/
def utf8Go : Nat → UInt8 → UInt8 → Bytes → Bool
  | 0, _, _, [] => true
  | _ + 1, _, _, [] => false
  | 0, _, _, c :: r =>
    if c < 0x80 then utf8Go 0 0 0 r
    else if 0xC2 ≤ c ∧ c ≤ 0xDF then utf8Go 1 0x80 0xBF r
    else if c = 0xE0 then utf8Go 2 0xA0 0xBF r
    else if c = 0xED then utf8Go 2 0x80 0x9F r
    else if 0xE1 ≤ c ∧ c ≤ 0xEF then utf8Go 2 0x80 0xBF r
    else if c = 0xF0 then utf8Go 3 0x90 0xBF r
    else if 0xF1 ≤ c ∧ c ≤ 0xF3 then utf8Go 3 0x80 0xBF r
    else if c = 0xF4 then utf8Go 3 0x80 0x8F r
    else false
  | n + 1, lo, hi, c :: r => if lo ≤ c ∧ c ≤ hi then utf8Go n 0x80 0xBF r else false

def validUtf8 (b : Bytes) : Bool := utf8Go 0 0 0 b

/-! ### `http.Dir.Open` -/

/-- `path.Clean("/"+name)[1:]`; the empty result stands for `"."` (the root itself). -/
def relOf (name : Bytes) : Bytes := (cleanRooted name).drop 1

/-- `filepath.Localize` on unix: `fs.ValidPath` (valid UTF-8; its element test can never fail
    on a cleaned path — theorem `clean_no_dotdot`) and no NUL byte. -/
def localizable (rel : Bytes) : Bool := validUtf8 rel && !rel.contains nul

/-- The operating-system name `http.Dir(root).Open(name)` hands to `os.Open`, or `none` when it
    refuses the name. Assumes `root` is itself clean and not `"/"` (then `filepath.Join` is
    plain concatenation). -/
def dirOpenPath (root name : Bytes) : Option Bytes :=
  let rel := relOf name
  if !localizable rel then none
  else if rel = [] then some root
  else some (root ++ slash :: rel)

inductive FsResult
  | missing            -- open error of any kind
  | file (id : Nat)    -- a regular file; `id` names its content
  | dir
  deriving DecidableEq, Repr

/-- `opt.FileSystem.Open(name)` followed by `Stat().IsDir()`, for `FileSystem = http.Dir(root)`. -/
def dirOpen (root : Bytes) (fs : Bytes → FsResult) (name : Bytes) : FsResult :=
  match dirOpenPath root name with
  | none => .missing
  | some p => fs p

/-! ### static.go -/

structure Opts where
  root    : Bytes           -- StaticOptions.Directory
  pfx     : Bytes           -- StaticOptions.Prefix, as given
  index   : Bytes           -- StaticOptions.Index, as given
  setETag : Bool
  deriving Repr

/-- `if opts.Prefix != "" { opts.Prefix = "/" + strings.Trim(opts.Prefix, "/") }` -/
def normPrefix (p : Bytes) : Bytes := if p = [] then [] else slash :: trimSlashes p

/-- `if opts.Index == "" { opts.Index = "index.html" }` -/
def normIndex (i : Bytes) : Bytes := if i = [] then Gen.staticDefaultIndex else i

inductive Outcome
  | silent                              -- plain `return`: nothing written, the chain goes on
  | redirect (loc : Bytes)              -- http.Redirect(w, r, loc, 302)
  | notModified (name : Bytes) (id : Nat) -- ETag matched If-None-Match: WriteHeader(304)
  | serve (name : Bytes) (id : Nat)     -- http.ServeContent(w, r, name, modtime, <the opened file id>)
  deriving DecidableEq, Repr

/-- What the handler wrote to the response, abstractly (the concrete bytes are net/http's). -/
inductive Wr
  | header (name : Bytes) | status (code : Nat) | content (id : Nat)
  deriving DecidableEq, Repr

def Outcome.writes : Outcome → List Wr
  | .silent => []
  | .redirect _ => [.header (asc "Location"), .status Gen.staticRedirectStatus]
  | .notModified _ _ => [.header Gen.staticETagHeader, .status Gen.staticNotModifiedStatus]
  | .serve _ id => [.status 200, .content id]

structure Result where
  out   : Outcome
  opens : List Bytes      -- the names passed to `opt.FileSystem.Open`, in order
  deriving DecidableEq, Repr

/-- `Method != GET && Method != HEAD → return`: the method is one of the constants the test names
    (`Gen.staticMethods`, documented: GET and HEAD) -/
def isGetHead (m : Bytes) : Bool := Gen.staticMethods.contains m

/-- The prefix filter (already normalised prefix): `none` = `return`.
    ```
    if opt.Prefix != "" {
        if !strings.HasPrefix(file, opt.Prefix) { return }
        file = file[len(opt.Prefix):]
        if file != "" && file[0] != '/' { return }
    }
    ``` -/
def stripPrefix (pfx urlPath : Bytes) : Option Bytes :=
  if pfx = [] then some urlPath
  else if pfx.isPrefixOf urlPath then
    match urlPath.drop pfx.length with
    | [] => some []
    | c :: rest => if c = slash then some (c :: rest) else none
  else none

/-- `if file == "/" { file = "." } else { file = strings.TrimRight(file, "/") }` -/
def openName (file : Bytes) : Bytes := if file = [slash] then [dot] else trimRightSlash file

/-- the tail shared by the plain-file and the index-file case: headers, ETag test, ServeContent -/
def finish (o : Opts) (etag : Nat → Bytes) (inm : Bytes) (name : Bytes) (id : Nat) : Outcome :=
  if o.setETag ∧ inm = etag id then .notModified name id else .serve name id

/-- `redirPath` of static.go: `path.Clean(URL.Path)`, with the trailing slash put back. -/
def redirPath (urlPath : Bytes) : Bytes :=
  let r := pathClean urlPath
  if endsSlash urlPath ∧ !endsSlash r then r ++ [slash] else r

/-- The handler. `etag id` is `generateETag` of the opened file; `inm` is the request's
    `If-None-Match` header (empty = absent). -/
def staticDecide (o : Opts) (etag : Nat → Bytes) (method urlPath inm : Bytes)
    (fs : Bytes → FsResult) : Result :=
  if !isGetHead method then ⟨.silent, []⟩ else
  match stripPrefix (normPrefix o.pfx) urlPath with
  | none => ⟨.silent, []⟩
  | some file0 =>
    let file := openName file0
    match dirOpen o.root fs file with
    | .missing => ⟨.silent, [file]⟩
    | .file id => ⟨finish o etag inm file id, [file]⟩
    | .dir =>
      let rp := redirPath urlPath
      if !endsSlash rp then ⟨.redirect (rp ++ [slash]), [file]⟩ else
      let ifile := pathJoin file (normIndex o.index)
      match dirOpen o.root fs ifile with
      | .file id => ⟨finish o etag inm ifile id, [file, ifile]⟩
      | _ => ⟨.silent, [file, ifile]⟩

/-- the (at most two) names the handler can ever pass to `FileSystem.Open` for a request -/
def candidates (o : Opts) (urlPath : Bytes) : List Bytes :=
  match stripPrefix (normPrefix o.pfx) urlPath with
  | none => []
  | some file0 => [openName file0, pathJoin (openName file0) (normIndex o.index)]

end Flamego.Static
