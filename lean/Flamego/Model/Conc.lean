/-
  Model/Conc.lean — the access-discipline model behind property C05.

  Part A (race freedom as a discipline).  An execution is a finite sequence of events in the
  order in which they take effect.  Every event belongs to a goroutine and is a plain or
  sync/atomic access to a location, or one of the two visible points of `sync.Once`:
  `onceDone o` — the function passed to the first `o.Do` has returned, `onceReturn o` — a call
  `o.Do(..)` returns to its caller.  Happens-before is the least transitive relation containing
  program order, the edge  onceDone o → every later onceReturn o  (Go memory model: "the completion
  of a single call of f() from once.Do(f) is synchronized before the return of any call of
  once.Do(f)") and the edge  atomic write of l → every later atomic access of l.

  Part B (isolation).  A small-step interleaving semantics of any number of requests over an
  immutable `Config`: one step of request i reads `Config`, asks a once-guarded cache for one
  rendered route string (filling it if empty) and rewrites request i's own record only.

  What is NOT modelled: the Go memory model itself (that a data-race-free program behaves
  sequentially consistently is its DRF-SC guarantee), the scheduler, and `serve` (abstract).
-/
namespace Flamego.Conc

abbrev Gid := Nat      -- goroutine = request id
abbrev Loc := Nat
abbrev OnceId := Nat

/-- how a location of framework state may be used once set-up has finished -/
inductive LocClass where
  | immutableAfterSetup            -- routes, trees, leaves, the app injector, middleware lists …
  | onceGuarded (o : OnceId)       -- `Segment.str` / `Route.str` under `strOnce`
  | atomic                         -- only touched through sync/atomic
  | requestLocal (r : Gid)         -- context, responseWriter, Params, request-scope injector of request r
  deriving DecidableEq, Repr

inductive Op where
  | read (l : Loc)
  | write (l : Loc)
  | aread (l : Loc)                -- sync/atomic load
  | awrite (l : Loc)               -- sync/atomic store / add / swap / cas
  | onceDone (o : OnceId)          -- the function passed to o.Do has completed (in the goroutine that ran it)
  | onceReturn (o : OnceId)        -- a call o.Do(..) returns to its caller
  deriving DecidableEq, Repr

structure Event where
  g : Gid
  op : Op
  inOnce : Option OnceId := none   -- the event happens inside the function passed to `o.Do`
  deriving DecidableEq, Repr

abbrev Exec := List Event

def Op.loc? : Op → Option Loc
  | .read l | .write l | .aread l | .awrite l => some l
  | _ => none

def Op.isWrite : Op → Bool
  | .write _ | .awrite _ => true
  | _ => false

def Op.isAtomic : Op → Bool
  | .aread _ | .awrite _ => true
  | _ => false

/-- two accesses conflict: same location, at least one writes, not both sync/atomic -/
def Conflict (a b : Op) : Prop :=
  ∃ l, a.loc? = some l ∧ b.loc? = some l ∧ (a.isWrite = true ∨ b.isWrite = true) ∧
       ¬ (a.isAtomic = true ∧ b.isAtomic = true)

/-- happens-before over event indices of one execution -/
inductive HB (ex : Exec) : Nat → Nat → Prop where
  | po {i j : Nat} {a b : Event} : i < j → ex[i]? = some a → ex[j]? = some b → a.g = b.g → HB ex i j
  | once {i j : Nat} {a b : Event} {o : OnceId} : i < j → ex[i]? = some a → ex[j]? = some b →
      a.op = .onceDone o → b.op = .onceReturn o → HB ex i j
  | atomic {i j : Nat} {a b : Event} {l : Loc} : i < j → ex[i]? = some a → ex[j]? = some b →
      a.op = .awrite l → (b.op = .aread l ∨ b.op = .awrite l) → HB ex i j
  | trans {i k j : Nat} : HB ex i k → HB ex k j → HB ex i j

/-- What `sync.Once` itself guarantees (runtime semantics, not a program obligation): the function runs
    in one goroutine, `onceDone` comes after everything inside it, and no `Do` returns before it. -/
structure OnceSemantics (ex : Exec) : Prop where
  oneRunner : ∀ (i j : Nat) (a b : Event) (o : OnceId), ex[i]? = some a → ex[j]? = some b → a.inOnce = some o → b.inOnce = some o → a.g = b.g
  doneAfterBody : ∀ (i d : Nat) (a e : Event) (o : OnceId), ex[i]? = some a → ex[d]? = some e → a.inOnce = some o → e.op = .onceDone o →
      i < d ∧ a.g = e.g
  returnAfterDone : ∀ (k : Nat) (b : Event) (o : OnceId), ex[k]? = some b → b.op = .onceReturn o → ∃ (d : Nat) (e : Event), d < k ∧ ex[d]? = some e ∧ e.op = .onceDone o

/-- The access discipline the framework code has to respect while serving. -/
structure Disciplined (cls : Loc → LocClass) (ex : Exec) : Prop where
  /-- immutable-after-setup locations are never written -/
  immutable : ∀ (i : Nat) (e : Event) (l : Loc), ex[i]? = some e → e.op.loc? = some l → cls l = .immutableAfterSetup → e.op.isWrite = false
  /-- once-guarded locations are written only inside the function passed to that Once's `Do` … -/
  onceWrite : ∀ (i : Nat) (e : Event) (l : Loc) (o : OnceId), ex[i]? = some e → e.op.loc? = some l → cls l = .onceGuarded o → e.op.isWrite = true →
      e.inOnce = some o
  /-- … and read only inside it or after a `Do` on that Once returned in the reading goroutine -/
  onceRead : ∀ (i : Nat) (e : Event) (l : Loc) (o : OnceId), ex[i]? = some e → e.op.loc? = some l → cls l = .onceGuarded o → e.op.isWrite = false →
      e.inOnce = some o ∨ ∃ (k : Nat) (b : Event), k < i ∧ ex[k]? = some b ∧ b.g = e.g ∧ b.op = .onceReturn o
  /-- request-local locations of request r are touched only by goroutine r -/
  local_ : ∀ (i : Nat) (e : Event) (l : Loc) (r : Gid), ex[i]? = some e → e.op.loc? = some l → cls l = .requestLocal r → e.g = r
  /-- atomics only through sync/atomic -/
  atomicOnly : ∀ (i : Nat) (e : Event) (l : Loc), ex[i]? = some e → e.op.loc? = some l → cls l = .atomic → e.op.isAtomic = true

/-- Every pair of conflicting accesses by different goroutines is ordered by happens-before. -/
def RaceFree (ex : Exec) : Prop :=
  ∀ (i j : Nat) (a b : Event), i < j → ex[i]? = some a → ex[j]? = some b → a.g ≠ b.g → Conflict a.op b.op → HB ex i j

/-! ## Part B — interleavings of requests over an immutable configuration -/

/-- The framework as seen by one request: `serve` is abstract. One step of a request looks at the
    configuration and its own record, asks for one cached route string, and produces its next record. -/
structure Machine (Config Req St : Type) where
  init : Req → St
  segOf : Config → Req → St → Nat            -- which `Segment`/`Route` string the step asks for
  render : Config → Nat → String             -- what the function under `strOnce.Do` computes
  step : Config → Req → St → String → St     -- the request's next record, given the string it obtained

/-- shared mutable state while serving: one record per request + the once-guarded string caches -/
structure World (St : Type) where
  locals : Nat → St
  cache : Nat → Option String

variable {Config Req St : Type}

/-- `s.strOnce.Do(func(){ s.str = render }) ; return s.str` -/
def onceGet (m : Machine Config Req St) (cfg : Config) (cache : Nat → Option String) (k : Nat) :
    String × (Nat → Option String) :=
  match cache k with
  | some s => (s, cache)
  | none => (m.render cfg k, fun k' => if k' = k then some (m.render cfg k) else cache k')

/-- request `i` takes one step -/
def stepW (m : Machine Config Req St) (cfg : Config) (reqs : Nat → Req) (i : Nat) (w : World St) : World St :=
  let st := w.locals i
  let r := onceGet m cfg w.cache (m.segOf cfg (reqs i) st)
  { locals := fun j => if j = i then m.step cfg (reqs i) st r.1 else w.locals j, cache := r.2 }

/-- an interleaving is any finite schedule of request ids -/
def run (m : Machine Config Req St) (cfg : Config) (reqs : Nat → Req) : List Nat → World St → World St
  | [], w => w
  | i :: sched, w => run m cfg reqs sched (stepW m cfg reqs i w)

def World.start (m : Machine Config Req St) (reqs : Nat → Req) : World St :=
  { locals := fun i => m.init (reqs i), cache := fun _ => none }

/-- the same request served alone: `n` of its steps, every string freshly rendered -/
def solo (m : Machine Config Req St) (cfg : Config) (req : Req) : Nat → St
  | 0 => m.init req
  | n + 1 => let st := solo m cfg req n; m.step cfg req st (m.render cfg (m.segOf cfg req st))

/-- number of steps request `i` has taken in a schedule -/
def stepsOf (i : Nat) (sched : List Nat) : Nat := sched.count i

def CacheInv (m : Machine Config Req St) (cfg : Config) (w : World St) : Prop :=
  ∀ k, w.cache k = none ∨ w.cache k = some (m.render cfg k)

end Flamego.Conc
