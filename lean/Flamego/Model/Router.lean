/-
  Model/Router.lean — router.go: per-method trees, the static shortcut table, header
  constraints, named routes, URL building and `ServeHTTP` dispatch.

  Go                                   | here
  -------------------------------------+---------------------------------------------
  router.routeTrees[m]                 | `trees` (one per method of `Gen.httpMethods`)
  router.staticRoutes[m][text]         | `statics` (association list, later insert wins)
  router.namedRoutes[name]             | `named` (the leaf's route AST is all URLPath needs)
  *Route{leaves} returned by Route()   | `handles` : hid ↦ leaves per method
  leaf.headerMatcher (mutable)         | `hdrs` : hid ↦ constraint list (a leaf looks its own up)
-/
import Flamego.Model.Tree
namespace Flamego

/-- one header constraint as given to `Headers`: raw name, canonical name (net/http's
    canonicalisation is a parameter supplied by the environment), expression -/
structure HdrPair where
  raw : Bytes
  canon : Bytes
  expr : Bytes
  deriving Repr, DecidableEq

structure Request where
  method : String
  path : Bytes
  /-- canonical header name ↦ first value, as `Header.Get` sees it -/
  hdrs : List (Bytes × Bytes)
  deriving Repr

structure Router where
  trees   : List (String × Node)
  statics : List ((String × Bytes) × Leaf) := []
  named   : List (Bytes × Route) := []
  hdrs    : List (Nat × List HdrPair) := []
  handles : List (Nat × List (String × Leaf)) := []
  deriving Repr

def Router.new : Router := { trees := Gen.httpMethods.map fun m => (m, Node.root) }

def assocSet {α β} [BEq α] (l : List (α × β)) (k : α) (v : β) : List (α × β) :=
  match l with
  | [] => [(k, v)]
  | (k', v') :: rest => if k' == k then (k, v) :: rest else (k', v') :: assocSet rest k v

def assocGet {α β} [BEq α] (l : List (α × β)) (k : α) : Option β :=
  (l.find? (·.1 == k)).map (·.2)

def assocDel {α β} [BEq α] (l : List (α × β)) (k : α) : List (α × β) :=
  l.filter (fun p => !(p.1 == k))

/-- `HeaderMatcher.Match`: every constrained header carries a non-empty value the expression finds -/
def hdrPairsOK (E : Engine) (pairs : List HdrPair) (req : List (Bytes × Bytes)) : Bool :=
  pairs.all fun p =>
    match assocGet req p.canon with
    | none => false
    | some v => v ≠ [] && E.search p.expr v

/-- `matchHeader` of the leaf registered as `hid` -/
def Router.hok (E : Engine) (R : Router) (req : List (Bytes × Bytes)) (hid : Nat) : Bool :=
  match assocGet R.hdrs hid with
  | none => true
  | some pairs => hdrPairsOK E pairs req

/-- the leaf a successful `addRoute` returns: the long-form leaf of this registration -/
def findLongLeaf (hid : Nat) : Node → Option Leaf
  | .mk _ _ subs leaves =>
    match leaves.find? (fun l => l.hid == hid && l.long) with
    | some l => some l
    | none => go subs
where
  go : List Node → Option Leaf
    | [] => none
    | n :: ns => match findLongLeaf hid n with
      | some l => some l
      | none => go ns

def lastOptional (r : Route) : Bool :=
  match r.segs.getLast? with
  | some s => s.optional
  | none => false

/-- `router.addRoute` for the method list `methods` (already expanded: `*` = all nine).
    Stops at the first method whose tree rejects the route; earlier methods stay registered
    (Go panics there; a caller that recovers sees exactly this state). -/
def Router.addMethods (E : Engine) (R : Router) (hid : Nat) (r : Route) :
    List String → List (String × Leaf) → Router × Bool
  | [], acc => ({ R with handles := assocSet R.handles hid acc.reverse }, true)
  | m :: ms, acc =>
    match assocGet R.trees m with
    | none => (R, false)
    | some t =>
      match addRoute E t r hid with
      | .error _ => (R, false)
      | .ok t' =>
        match findLongLeaf hid t' with
        | none => (R, false)        -- unreachable: a successful add creates the long leaf
        | some leaf =>
          let R1 := { R with trees := assocSet R.trees m t' }
          -- fast path table: fully static routes without an optional segment
          let R2 := if leaf.allStatic && !lastOptional r
                    then { R1 with statics := assocSet R1.statics (m, r.render) leaf } else R1
          Router.addMethods E R2 hid r ms ((m, leaf) :: acc)

/-- `Route.Headers(pairs…)`: replaces the constraint set of every leaf of the handle (both forms,
    every method) and evicts fully static ones from the fast-path table -/
def Router.setHeaders (R : Router) (hid : Nat) (pairs : List HdrPair) : Router :=
  match assocGet R.handles hid with
  | none => R
  | some leaves =>
    let statics := leaves.foldl (fun st (m, leaf) =>
      if leaf.allStatic then assocDel st (m, leaf.route.render) else st) R.statics
    { R with hdrs := assocSet R.hdrs hid pairs, statics := statics }

/-- `Route.Name(name)` -/
def Router.setName (R : Router) (hid : Nat) (name : Bytes) : Option Router :=
  if name = [] then none
  else if (assocGet R.named name).isSome then none
  else match assocGet R.handles hid with
    | some ((_, leaf) :: _) => some { R with named := R.named ++ [(name, leaf.route)] }
    | _ => none

inductive Outcome
  | handler (leaf : Leaf) (params : Params)
  | notFound
  deriving Repr

/-- full tree matching only (no fast path) -/
def Router.serveTreeOnly (E : Engine) (R : Router) (req : Request) : Outcome :=
  match assocGet R.trees req.method with
  | none => .notFound
  | some t =>
    match t.match E (R.hok E req.hdrs) req.path with
    | none => .notFound
    | some (l, ps) => .handler l (ps.set (B "route") l.route.render)

/-- `router.ServeHTTP` -/
def Router.serve (E : Engine) (R : Router) (req : Request) : Outcome :=
  match assocGet R.statics (req.method, req.path) with
  | some leaf => .handler leaf [(B "route", leaf.route.render)]
  | none => R.serveTreeOnly E req

/-! ### URL building (leaf.go `URLPath`) -/

/-- the text `URLPath` builds before substitution: every bind shown as `{name}` -/
def elemSkeleton : Elem → Bytes
  | .ident s => s
  | .bind n => B "{" ++ n ++ B "}"
  | .params [] => B "???"
  | .params (p :: ps) =>
    -- every bind parameter of the list: a regex list binds each regex-valued parameter; a list
    -- whose first value is a literal (a match-all `{p: **, capture: 2}`) binds only the first
    B "{" ++ p.ident ++ B "}" ++
      (match p.val with
       | .lit _ => []
       | .re _ => ps.flatMap fun q => match q.val with
          | .re _ => B "{" ++ q.ident ++ B "}"
          | .lit _ => [])

/-- the text before substitution; a route whose only segment is optional is "/" without it -/
def skeleton (r : Route) (withOptional : Bool) : Bytes :=
  match skeleton.go withOptional r.segs with
  | [] => B "/"
  | t => t
where
  go (withOptional : Bool) : List Segment → Bytes
    | [] => []
    | s :: rest =>
      if s.optional && !withOptional then []
      else B "/" ++ s.elems.flatMap elemSkeleton ++ go withOptional rest

def isPrefixOf' : Bytes → Bytes → Bool
  | [], _ => true
  | _ :: _, [] => false
  | a :: as, b :: bs => a = b && isPrefixOf' as bs

/-- `strings.NewReplacer(pairs…).Replace(s)` for non-empty keys: at each position the first
    listed key that is a prefix there is replaced (its value is not re-scanned) -/
def replaceAll (pairs : List (Bytes × Bytes)) (s : Bytes) : Bytes :=
  go s.length s
where
  go : Nat → Bytes → Bytes
    | 0, s => s
    | _, [] => []
    | fuel + 1, c :: cs =>
      match pairs.find? (fun p => p.1 ≠ [] && isPrefixOf' p.1 (c :: cs)) with
      | some (k, v) => v ++ go fuel ((c :: cs).drop k.length)
      | none => c :: go fuel cs

/-- `Leaf.URLPath(vals, withOptional)` with `vals` as a list of distinct names -/
def urlPath (r : Route) (vals : List (Bytes × Bytes)) (withOptional : Bool) : Bytes :=
  replaceAll (vals.map fun (k, v) => (B "{" ++ k ++ B "}", v)) (skeleton r withOptional)

/-- `router.URLPath(name, pairs…)`: later duplicates win, a trailing odd element is ignored,
    `withOptional=true` is consumed -/
def Router.urlPath (R : Router) (name : Bytes) (pairs : List Bytes) : Option Bytes :=
  match assocGet R.named name with
  | none => none
  | some r =>
    let vals := mk pairs []
    let wo := assocGet vals (B "withOptional") == some (B "true")
    let vals := if wo then assocDel vals (B "withOptional") else vals
    some (Flamego.urlPath r vals wo)
where
  mk : List Bytes → List (Bytes × Bytes) → List (Bytes × Bytes)
    | k :: v :: rest, acc => mk rest (assocSet acc k v)
    | _, acc => acc

end Flamego
