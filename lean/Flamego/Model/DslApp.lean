/-
  Model/DslApp.lean — the registration DSL (Model/Dsl) composed with the route parser
  (Model/Parser), the router (Model/Router, histories of Proofs/Shortcut) and the application
  (Model/App): what a program of `Group`/`Combo`/`Routes`/`Any`/`AutoHead`/verb calls SERVES.

  Go (router.go)                                        | here
  ------------------------------------------------------+------------------------------------------
  `ast, err := r.parser.Parse(routePath)`               | `parse r.path`            (Model/Parser)
  `route.AddRoute(r.routeTrees[m], ast, handler)` and   | `Router.addMethods E hid ast [m] []` on the
     the fast-path table update, for ONE method `m`     |   router built from the earlier registrations
  `strings.ToUpper`, `"*"` = all of `httpMethods`,      | done by `Dsl.addRoute` / `Dsl.methodsOf`: the
     unknown method ⇒ panic                             |   DSL model hands over single, upper-cased,
                                                        |   known methods one at a time (`Dsl.addEach`)
  `r.routeTrees[m]` (a Go map keyed by the method text) | `methodKey m` — the key of `Router.trees`
  the closure `func(w, req, params){ … handlers … }`    | the index of the registration in the list of
     a registration installs in its leaf                |   accepted single-method registrations (`hid`),
                                                        |   `handlersOf hid` = its handler ids read
                                                        |   through an environment `Nat → App.Handler`

  Layering: `Dsl.addEach` asks `acc regs ⟨m, path, hs⟩` once per method, in the order of the loop
  `for _, m := range methods`, with `regs` the registrations accepted so far; `accReal` answers by
  parsing the text and adding the AST to the tree of `m` of the router built from `regs`.  Go
  parses once per `addRoute` call and the model once per method; `Parse` is a function of the text.
  Each single-method registration gets its own handle; the handles `Route.Headers` / `Route.Name`
  operate on are not part of the DSL model.
-/
import Flamego.Model.App
import Flamego.Model.Dsl
import Flamego.Model.Parser
namespace Flamego.DslApp
open Flamego.Dsl (Reg Acc Prog Stmt)

/-- `r.routeTrees[m]`: the tree key of a method text (one of `httpMethods`, else none) -/
def methodKey (m : Bytes) : Option String := Gen.httpMethods.find? (fun s => Dsl.B s == m)

/-- the router operation the `hid`-th accepted registration stands for -/
def opOf (hid : Nat) (r : Reg) : Option RouterOp :=
  match parse r.path, methodKey r.method with
  | some ast, some m => some (.add hid ast [m])
  | _, _ => none

/-- the registrations numbered from `i` on, as router operations -/
def opsFrom (i : Nat) : List Reg → List RouterOp
  | [] => []
  | r :: rs => (opOf i r).toList ++ opsFrom (i + 1) rs

/-- the registration history of a list of single-method registrations: registration number
    `k` (from 0) is `add k (parse path) [method]` -/
def opsOfRegs (regs : List Reg) : List RouterOp := opsFrom 0 regs

/-- the router after the registrations `regs`, from `newRouter()` -/
def routerOfRegs (E : Engine) (regs : List Reg) : Router := Router.run E (opsOfRegs regs)

/-- the REAL answer of the route-tree layer: `(method, path, handlers)` is accepted after the
    accepted registrations `regs` iff the path text parses and `route.AddRoute` succeeds on the tree
    of the method in the router built from `regs` (an unknown method text has no tree) -/
def accReal (E : Engine) : Acc := fun regs r =>
  match parse r.path, methodKey r.method with
  | some ast, some m => ((routerOfRegs E regs).addMethods E regs.length ast [m] []).2
  | _, _ => false

/-- the handler ids of registration number `hid` -/
def handlerIds (regs : List Reg) (hid : Nat) : List Nat :=
  match regs[hid]? with
  | some r => r.handlers
  | none => []

/-- the application that serves the registrations `regs`: everything but the router history and
    the handler lists (Before hooks, `Use` middleware, action, not-found chain, environment) is
    taken from `base`; handler id `k` is the handler `env k` -/
def appOfRegs (env : Nat → App.Handler) (base : App.App) (regs : List Reg) : App.App :=
  { base with ops := opsOfRegs regs, handlersOf := fun hid => (handlerIds regs hid).map env }

/-- the application a registration program declares (what it registered before a panic that
    nobody recovered included: the router keeps it) -/
def appOfProg (E : Engine) (env : Nat → App.Handler) (base : App.App) (p : Prog) : App.App :=
  appOfRegs env base (Dsl.interp (accReal E) p).regs

/-- a list of single-method registrations written as a program of `Route` calls -/
def routeProg (regs : List Reg) : Prog := regs.map fun r => Stmt.route r.method r.path r.handlers

/-- the flat program of `p`: its flat expansion, registered one by one with `Route` -/
def flatProg (E : Engine) (p : Prog) : Prog := routeProg (Dsl.flat (accReal E) p).regs

/-! ### what the driver prints for one request (Driver/Dsl) -/

/-- the handler ids the chain machine entered, in order: slot `i` of the started chain is the
    `(i - #middleware)`-th handler of the chosen registration -/
def enteredIds (nmw : Nat) (ids : List Nat) (trace : List Chain.Ev) : List Nat :=
  trace.filterMap fun e => match e with
    | .enter i => if nmw ≤ i then ids[i - nmw]? else none
    | _ => none

/-- (registration number, ids of the handlers that ran, `route` parameter) when the request
    started a registered route's chain -/
def observe (regs : List Reg) (resp : App.Response) (nmw : Nat) : Option (Nat × List Nat × Bytes) :=
  match resp.runs with
  | [run] =>
    match run.which with
    | .route hid =>
      some (hid, enteredIds nmw (handlerIds regs hid) run.st.trace,
            (run.params.get? (B "route")).getD [])
    | .notFound => none
  | _ => none

end Flamego.DslApp
