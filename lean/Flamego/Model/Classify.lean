/-
  Model/Classify.lean — which match style a segment gets and what it captures.
  Mirrors leaf.go: isMatchStyleStatic, checkMatchStylePlaceholder, checkMatchStyleAll,
  constructMatchStyleRegex, and the decision order of newLeaf / newTree.

  The rank of a style is read from the regenerated `Gen.RouteFacts.styleRank`
  (the iota block of leaf.go), so reordering the constants changes `Pat.rank`.
-/
import Flamego.Base.Engine
import Flamego.Model.Syntax
import Flamego.Gen.RouteFacts
import Flamego.Gen.ConstFacts
namespace Flamego

/-- what a segment matches -/
inductive Pat
  | static (lit : Bytes)
  /-- assembled pattern `^…$`; one entry of `binds` per capture group, `[]`-named (empty) for a
      group that belongs to the user's own expression -/
  | regex (pattern : Bytes) (binds : List Bytes)
  | hole (bind : Bytes)
  | all (bind : Bytes) (cap : Int)
  deriving DecidableEq, Repr, Inhabited

def lookupRank (name : String) : Nat :=
  match Gen.styleRank.find? (·.1 == name) with
  | some (_, n) => n
  | none => 0

/-- `getMatchStyle()` as a number, from the generated iota table -/
def Pat.rank : Pat → Nat
  | .static _ => lookupRank "matchStyleStatic"
  | .regex _ _ => lookupRank "matchStyleRegex"
  | .hole _ => lookupRank "matchStylePlaceholder"
  | .all _ _ => lookupRank "matchStyleAll"

def Pat.isAll : Pat → Bool
  | .all _ _ => true
  | _ => false

/-- `getBinds()` of a tree node: names a node binds (the placeholders of user groups excluded) -/
def Pat.binds : Pat → List Bytes
  | .static _ => []
  | .regex _ bs => bs.filter (· ≠ [])
  | .hole b => [b]
  | .all b _ => [b]

/-- `strconv.Atoi` as used for `capture:` — sign, decimal digits only, range errors clamp
    (the error is ignored by the caller, the clamped value is kept), anything else is 0 -/
def atoiGo (s : Bytes) : Int :=
  let (neg, ds) := match s with
    | 43 :: t => (false, t)     -- '+'
    | 45 :: t => (true, t)      -- '-'
    | t => (false, t)
  if ds.isEmpty || !(ds.all fun c => 48 ≤ c && c ≤ 57) then 0
  else
    let n : Nat := ds.foldl (fun acc c => acc * 10 + (c.toNat - 48)) 0
    if neg then (if n > 9223372036854775808 then -9223372036854775808 else - (n : Int))
    else (if n > 9223372036854775807 then 9223372036854775807 else (n : Int))

/-- "**": the value that makes `{name: **}` a match-all (`Gen.leafAllLiteral`, read from
    checkMatchStyleAll on every run).  leaf.go spells the keyword at three more sites (the bind
    excluded from placeholders, the bare `{**}` and the name it binds); Props/ConstFacts/C08
    ties each of them to this one. -/
def starStar : Bytes := Gen.leafAllLiteral

/-- "capture": the name of a match-all's second parameter (`Gen.leafCaptureKeyword`) -/
def captureKeyword : Bytes := Gen.leafCaptureKeyword

attribute [simp] Gen.leafAllLiteral Gen.leafCaptureKeyword

/-- `isMatchStyleStatic` -/
def staticLit : Segment → Option Bytes
  | ⟨_, [.ident s]⟩ => some s
  | _ => none

/-- `checkMatchStylePlaceholder` -/
def holeBind : Segment → Option Bytes
  | ⟨_, [.bind b]⟩ => if b ≠ starStar then some b else none
  | _ => none

/-- `checkMatchStyleAll` (a match-all must be alone in its segment) -/
def allBind : Segment → Option (Bytes × Int)
  | ⟨_, [.bind b]⟩ => if b = starStar then some (starStar, 0) else none
  | ⟨_, [.params (p :: ps)]⟩ =>
    if p.val = .lit starStar then
      match ps with
      | q :: _ =>
        (match q.val with
         | .lit v => if q.ident = captureKeyword then some (p.ident, atoiGo v) else some (p.ident, 0)
         | .re _ => some (p.ident, 0))
      | [] => some (p.ident, 0)
    else none
  | _ => none

/-- `regexp.QuoteMeta` -/
def quoteMeta (s : Bytes) : Bytes :=
  s.flatMap fun c =>
    if (B "\\.+*?()|[]{}^$").contains c then [92, c] else [c]

inductive RegErr
  | emptySegment | nonRegexLiteral | badSubexpr | dupBindInSegment | badPattern
  | dupBind | dupMatchAllStyle | dupMatchAllSibling | dupRoute | innerOptional | emptyRoute
  deriving Repr, DecidableEq

/-- `constructMatchStyleRegex`: the assembled pattern and the bind list aligned with its groups -/
def regexOfElems (E : Engine) : List Elem → Except RegErr (Bytes × List Bytes)
  | [] => .ok ([], [])
  | .ident s :: rest => do
    let (p, bs) ← regexOfElems E rest
    pure (quoteMeta s ++ p, bs)
  | .bind b :: rest => do
    let (p, bs) ← regexOfElems E rest
    pure (B "(.+)" ++ p, b :: bs)
  | .params [] :: _ => .error .emptySegment
  | .params ps :: rest => do
    let (p1, bs1) ← paramsRegex ps
    let (p, bs) ← regexOfElems E rest
    pure (p1 ++ p, bs1 ++ bs)
where
  paramsRegex : List BindParam → Except RegErr (Bytes × List Bytes)
    | [] => .ok ([], [])
    | q :: qs =>
      match q.val with
      | .lit _ => .error .nonRegexLiteral
      | .re e =>
        match E.compile e with
        | none => .error .badSubexpr
        | some n => do
          let (p, bs) ← paramsRegex qs
          pure (B "(" ++ e ++ B ")" ++ p, q.ident :: (List.replicate n []) ++ bs)

def hasDup : List Bytes → Bool
  | [] => false
  | b :: bs => bs.contains b || hasDup bs

def classifyRegex (E : Engine) (s : Segment) : Except RegErr Pat := do
  let (p, bs) ← regexOfElems E s.elems
  let pattern := B "^" ++ p ++ B "$"
  if hasDup (bs.filter (· ≠ [])) then .error .dupBindInSegment
  else match E.compile pattern with
    | none => .error .badPattern
    | some _ => pure (.regex pattern bs)

/-- the style decision shared by `newLeaf` and `newTree` for a segment with at least one element
    that is not static: placeholder, then match-all, then regex -/
def classifyDynamic (E : Engine) (s : Segment) : Except RegErr Pat :=
  match holeBind s with
  | some b => .ok (.hole b)
  | none =>
    match allBind s with
    | some (b, c) => .ok (.all b c)
    | none => classifyRegex E s

/-- `newLeaf`'s style decision: no elements (only the route "/" or a trailing slash) is the
    static leaf with the empty literal -/
def classifyLeaf (E : Engine) (s : Segment) : Except RegErr Pat :=
  if s.elems.isEmpty then .ok (.static [])
  else match staticLit s with
    | some l => .ok (.static l)
    | none => classifyDynamic E s

/-- `newTree`'s style decision: an inner segment must not be empty -/
def classifyTree (E : Engine) (s : Segment) : Except RegErr Pat :=
  if s.elems.isEmpty then .error .emptySegment
  else match staticLit s with
    | some l => .ok (.static l)
    | none => classifyDynamic E s

end Flamego
