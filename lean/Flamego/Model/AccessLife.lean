/-
  Model/AccessLife.lean — request data and cookies over the LIFE of one request / one response (C18).

  Model/Access says what one accessor call returns for given request data.  Here the same functions are placed in
  time:

  A. `SetCookie` at any moment of the response's life.  context.go `SetCookie` is
     `c.ResponseWriter().Header().Add("Set-Cookie", cookie.String())` — it changes the header MAP.  What the client
     receives is the map as it stands when the status line reaches the underlying writer (net/http copies the header
     block then; `httptest.ResponseRecorder` snapshots it the same way), or as it stands at the end of the request
     when the handler never wrote (the server's implicit 200).  The moments are those of Model/Writer: a function
     registered with `ResponseWriter.Before` runs inside the commit, before the status line (C13
     `hooks_once_lifo_before_status`), so a cookie it writes IS on the response; a cookie written after the commit
     is not.

  B. The request's data is read WHEN the accessor is called.  `Cookie(name)` is `c.Request().Cookie(name)` over the
     `Cookie` header lines the request carries at that moment, `Query(name)` parses `URL.RawQuery` as it is at that
     moment: a middleware that adds a cookie (`Request.AddCookie`), rewrites or deletes the header, or rewrites the
     query between two reads is seen by the second read.
-/
import Flamego.Model.Access
import Flamego.Model.Writer
namespace Flamego.AccessLife
open Flamego Flamego.Access

/-! ## A. cookies written before, during and after the commit of the response -/

inductive LOp
  | setCookie (name v : Bytes)    -- the handler calls `c.SetCookie` now
  | beforeSet (name v : Bytes)    -- `c.ResponseWriter().Before(func(ResponseWriter) { c.SetCookie(name, v) })`
  | writer (op : Writer.Op)       -- `WriteHeader(code)` / `Write` / `Flush` on `c.ResponseWriter()`

structure LState where
  w       : Writer.W
  /-- the cookie the hook with id `i` writes (ids are positions in this list) -/
  hookCk  : List (Bytes × Bytes) := []
  /-- the `Set-Cookie` lines of the header map at the moment the header block left (so far, while unwritten) -/
  sent    : List Bytes := []

/-- the `Set-Cookie` lines added by the hooks among `evs` (events of the underlying writer, in order) -/
def hookLines (hookCk : List (Bytes × Bytes)) (evs : List Writer.UEv) : List Bytes :=
  evs.filterMap fun e => match e with
    | .hook h => (hookCk[h]?).map fun c => setCookieHeader c.1 c.2
    | _ => none

def lstep (s : LState) : LOp → LState
  | .setCookie n v =>
    -- after the commit the map still changes, the response does not
    if s.w.written then s else { s with sent := s.sent ++ [setCookieHeader n v] }
  | .beforeSet n v =>
    { s with w := Writer.step s.w (.before s.hookCk.length), hookCk := s.hookCk ++ [(n, v)] }
  | .writer op =>
    let w' := Writer.step s.w op
    -- hooks run inside the commit while `Written()` is still false, before the status line goes out
    { s with w := w', sent := s.sent ++ hookLines s.hookCk (w'.under.drop s.w.under.length) }

/-- the `Set-Cookie` lines the client receives for a handler performing `ops` (method GET) -/
def responseCookies (ops : List LOp) : List Bytes :=
  (ops.foldl lstep { w := Writer.init false }).sent

/-- every cookie the handler wrote or scheduled, in order of the operations -/
def written : List LOp → List (Bytes × Bytes)
  | [] => []
  | .setCookie n v :: r => (n, v) :: written r
  | .beforeSet n v :: r => (n, v) :: written r
  | _ :: r => written r

/-- what `Cookie(name)` reads on the NEXT request, for every cookie of `written ops`, the client having stored the
    response's `Set-Cookie` lines (Model/Access `clientCookieHeader`) -/
def readBack (ops : List LOp) : List Bytes :=
  let hdr := clientCookieHeader (responseCookies ops)
  (written ops).map fun c => cookie [hdr] c.1

/-! ## B. reads interleaved with changes of the request -/

/-- net/http `sanitizeCookieName`: CR and LF become `-` -/
def sanitizeCookieName (n : Bytes) : Bytes := n.map fun b => if b == 10 || b == 13 then 45 else b

inductive KOp
  | read (name : Bytes)            -- `c.Cookie(name)`
  | addCookie (name v : Bytes)     -- `c.Request().AddCookie(&http.Cookie{Name: name, Value: url.QueryEscape(v)})`
  | setLine (line : Bytes)         -- `c.Request().Header.Set("Cookie", line)`
  | addLine (line : Bytes)         -- `c.Request().Header.Add("Cookie", line)`
  | del                            -- `c.Request().Header.Del("Cookie")`

/-- net/http `(*Request).AddCookie`: `name=value` appended with `"; "` to the FIRST `Cookie` line (`Header.Get`) when
    that is not empty, and the result `Header.Set` — which leaves exactly one line -/
def addCookie (lines : List Bytes) (name v : Bytes) : List Bytes :=
  let piece := sanitizeCookieName name ++ eqSign :: sanitizeCookieValue (queryEscape v) false
  match lines.head? with
  | some c => if c.isEmpty then [piece] else [c ++ semicolon :: space :: piece]
  | none => [piece]

/-- the header lines after the operation, and what a read returned -/
def kstep (lines : List Bytes) : KOp → List Bytes × Option Bytes
  | .read n => (lines, some (cookie lines n))
  | .addCookie n v => (addCookie lines n v, none)
  | .setLine l => ([l], none)
  | .addLine l => (lines ++ [l], none)
  | .del => ([], none)

def kreads : List Bytes → List KOp → List Bytes
  | _, [] => []
  | lines, op :: rest =>
    let r := kstep lines op
    match r.2 with
    | some v => v :: kreads r.1 rest
    | none => kreads r.1 rest

inductive QOp
  | read (name : Bytes)            -- `c.Query(name)`
  | setRaw (raw : Bytes)           -- `c.Request().URL.RawQuery = raw`

def qreads : Bytes → List QOp → List Bytes
  | _, [] => []
  | raw, .read n :: rest => query (parseQuery raw) n none :: qreads raw rest
  | _, .setRaw r :: rest => qreads r rest

end Flamego.AccessLife
