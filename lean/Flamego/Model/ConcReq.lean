/-
  Model/ConcReq.lean — a small-step machine for ONE request over the concrete models of the
  request-scoped state that property C05 names, and its instantiation of `Conc.Machine`, so that
  `Conc.run` interleaves the micro-operations of any number of requests arbitrarily.

  Go (while a request is served)                            | here
  ----------------------------------------------------------+------------------------------------------------
  the Flame after set-up: its injector (and ancestors),     | `Config` : `U`, `app`, `router`, `routes`
     the router with its named routes, the route ASTs       |    — read-only, shared by every request
  `newContext`: a fresh injector holding Context,           | `Req.services`  (request scope at creation),
     ResponseWriter, *http.Request; parent = the Flame      |    chain = `st.scope :: cfg.app`  (`chainOf`)
  `NewResponseWriter(r.Method, w)`                          | `Writer.init req.head`
  the `route.Params` map the router built for the request   | `Req.params`  (the record's `params` afterwards)
  handlers of the chain, in order, calling into c           | `Req.prog` : the micro-operations they perform
  c.Map(v) / c.MapTo / c.Set  (request scope)               | `MicroOp.map t v`      → `Inject.register`
  c.Value(t)  (request scope, then the Flame)               | `MicroOp.lookup t c`   → `Inject.value U chain t c`
  c.ResponseWriter().WriteHeader/Write/Flush/Before/Status… | `MicroOp.w op`         → `Writer.step` / `observe`
  c.Param(name)                                             | `MicroOp.param name`   → `Params.get?` ("" if absent)
  c.Params()[k] = v  (a handler storing into its own map)   | `MicroOp.setParam k v` → `Params.set`
  leaf.Route() = route.String() under `strOnce`             | `MicroOp.routeString k`→ the string `Conc.onceGet` hands over
  c.URLPath(name, pairs…)                                   | `MicroOp.urlPath name pairs` → `Router.urlPath`

  The record of a request (`St`) holds its request scope, its writer, its params, a program
  counter and the list of observations made so far (what every lookup / param / urlPath /
  routeString / writer call returned).  `stepReq` takes the shared `Config` and returns a `St`
  only: there is no way for a step to hand back a changed `Config`.

  Cache slots: `Conc.stepW` asks the once-guarded cache for exactly one string per step.  Slot 0 is
  a dummy (rendering "") asked for by every step that is not a `routeString`; `routeString k`
  asks for slot `k + 1`, which renders `cfg.routes[k]`.

  `lookup t c`: `c` is the choice Go's map iteration makes when an interface has several
  implementors in one scope (Model/Inject); it travels with the operation, theorems quantify over it.
-/
import Flamego.Model.Conc
import Flamego.Model.Inject
import Flamego.Model.Writer
import Flamego.Model.Router

namespace Flamego.ConcReq
open Flamego.Inject (Ty Val Scope Universe)

/-- one thing a handler does to / asks of its context -/
inductive MicroOp
  | map (t : Ty) (v : Val)
  | lookup (t : Ty) (c : Nat)
  | w (op : Writer.Op)
  | param (name : Bytes)
  | setParam (name val : Bytes)
  | routeString (k : Nat)
  | urlPath (name : Bytes) (pairs : List Bytes)
  deriving DecidableEq, Repr

/-- what the handler got back -/
inductive Obs
  | mapped                           -- c.Map returns nothing of interest
  | value (v : Option Val)           -- `none` = the zero reflect.Value
  | wobs (n : Nat)                   -- `Writer.observe` after the operation
  | param (v : Bytes)
  | stored
  | str (s : String)
  | url (u : Option Bytes)           -- `none` = URLPath panicked (no such name)
  deriving DecidableEq, Repr

/-- everything set-up leaves behind; immutable while serving -/
structure Config where
  U : Universe
  /-- the Flame's injector followed by its ancestors -/
  app : List Scope
  /-- the router; `Router.urlPath` reads its `named` table -/
  router : Router
  /-- the route ASTs whose `String()` is once-guarded -/
  routes : List Route

/-- one request: how its context is created and what its handlers do, in order -/
structure Req where
  head : Bool := false
  services : Scope := []
  params : Params := []
  prog : List MicroOp := []

/-- the per-request record -/
structure St where
  scope : Scope
  writer : Writer.W
  params : Params
  pc : Nat
  obs : List Obs

def initReq (r : Req) : St :=
  { scope := r.services, writer := Writer.init r.head, params := r.params, pc := 0, obs := [] }

/-- the scope chain a handler of this request is invoked with: its own scope, then the Flame -/
def chainOf (cfg : Config) (st : St) : List Scope := st.scope :: cfg.app

/-- what the function under `strOnce.Do` computes for cache slot `k` (text as hex, lossless) -/
def renderSlot (cfg : Config) : Nat → String
  | 0 => ""
  | k + 1 => match cfg.routes[k]? with
    | some r => r.render.toHex
    | none => ""

/-- the cache slot a micro-operation asks for -/
def slotOf : MicroOp → Nat
  | .routeString k => k + 1
  | _ => 0

/-- one micro-operation against the request's own record; `s` is the string the once-guarded
    cache handed over for `slotOf op` -/
def execOp (cfg : Config) (st : St) (op : MicroOp) (s : String) : St :=
  match op with
  | .map t v => { st with scope := Inject.register st.scope t v, pc := st.pc + 1, obs := st.obs ++ [.mapped] }
  | .lookup t c => { st with pc := st.pc + 1, obs := st.obs ++ [.value (Inject.value cfg.U (chainOf cfg st) t c)] }
  | .w op =>
    let w' := Writer.step st.writer op
    { st with writer := w', pc := st.pc + 1, obs := st.obs ++ [.wobs (Writer.observe w' op)] }
  | .param name => { st with pc := st.pc + 1, obs := st.obs ++ [.param ((st.params.get? name).getD [])] }
  | .setParam k v => { st with params := st.params.set k v, pc := st.pc + 1, obs := st.obs ++ [.stored] }
  | .routeString _ => { st with pc := st.pc + 1, obs := st.obs ++ [.str s] }
  | .urlPath name pairs => { st with pc := st.pc + 1, obs := st.obs ++ [.url (cfg.router.urlPath name pairs)] }

/-- the micro-operation the request performs next (`none`: its handlers have returned) -/
def nextOp (req : Req) (st : St) : Option MicroOp := req.prog[st.pc]?

def segOfReq (_cfg : Config) (req : Req) (st : St) : Nat :=
  match nextOp req st with
  | some op => slotOf op
  | none => 0

/-- one step of a request: reads `Config`, produces the request's next record — and nothing else -/
def stepReq (cfg : Config) (req : Req) (st : St) (s : String) : St :=
  match nextOp req st with
  | some op => execOp cfg st op s
  | none => st

/-- the interleaving machine of Model/Conc over the concrete request record -/
def reqMachine : Conc.Machine Config Req St where
  init := initReq
  segOf := segOfReq
  render := renderSlot
  step := stepReq

/-- a request served alone, as a plain left fold over its program: every string freshly rendered -/
def runSeq (cfg : Config) (st : St) (ops : List MicroOp) : St :=
  ops.foldl (fun st op => execOp cfg st op (renderSlot cfg (slotOf op))) st

/-- the writer operations among a list of micro-operations, in order -/
def writerOps : List MicroOp → List Writer.Op
  | [] => []
  | .w op :: rest => op :: writerOps rest
  | _ :: rest => writerOps rest

/-- the request scopes of requests `0 … n-1` together with the application scope, as the world of
    Model/Inject (the vocabulary of Props/C04) -/
def injectView (cfg : Config) (w : Conc.World St) (n : Nat) : Inject.World :=
  { app := cfg.app, reqs := (List.range n).map fun i => (w.locals i).scope }

end Flamego.ConcReq
