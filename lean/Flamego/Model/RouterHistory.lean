/-
  Model/RouterHistory.lean — histories of router operations (registrations, Headers(), Name()) and the router they
  build from `newRouter()`.  Executable definitions only: the application model (Model/App) and the drivers use them
  without depending on any proof module (the theorems about them are in Proofs/Shortcut, Proofs/RouterBuild …).
-/
import Flamego.Model.Router
namespace Flamego

/-! ### 1. histories -/

/-- one operation on the router, as the driver's `step` performs them (Driver/Router.lean) -/
inductive RouterOp
  /-- `router.addRoute` for the method list `methods`; `hid` identifies the handler / `*Route` -/
  | add (hid : Nat) (r : Route) (methods : List String)
  /-- `Route.Headers(pairs…)` on the handle `hid` -/
  | headers (hid : Nat) (pairs : List HdrPair)
  /-- `Route.Name(nm)` on the handle `hid` -/
  | name (hid : Nat) (nm : Bytes)

/-- the model functions behind one operation: `add` keeps the returned router whether or not the
    registration reports success (a caller that recovers from Go's panic sees exactly that state),
    `name` ignores a failure.  The driver's `ADD` line is `add` followed, on success, by a `name`
    (the harness names every route it added); its `HDR` line calls `setHeaders` only when the handle
    exists, and `setHeaders` on a missing handle is the identity. -/
def Router.apply (E : Engine) (R : Router) : RouterOp → Router
  | .add hid r methods => (R.addMethods E hid r methods []).1
  | .headers hid pairs => R.setHeaders hid pairs
  | .name hid nm => (R.setName hid nm).getD R

def Router.runFrom (E : Engine) (R : Router) (ops : List RouterOp) : Router :=
  ops.foldl (Router.apply E) R

/-- the router after the history `ops`, from `newRouter()` -/
def Router.run (E : Engine) (ops : List RouterOp) : Router := Router.runFrom E Router.new ops

/-- the `(handle, route)` pairs of the registrations of a history, in order -/
def addPairs : List RouterOp → List (Nat × Route)
  | [] => []
  | .add hid r _ :: ops => (hid, r) :: addPairs ops
  | _ :: ops => addPairs ops

end Flamego
