/-
  Code/LibTree.lean — what the calls on the CHILDREN of a tree stand for in the translation of `baseTree`'s matcher
  (Gen/BaseTreeCode.lean).  `t.subtrees` holds interface values (`Tree`) and `t.leaves` holds `Leaf`s: a call of a method on
  one of them is a dynamic dispatch into another object.  Here such a call stands for the model's function on that child
  (Model/Tree.lean, Model/TreeIdx.lean) — the bodies of `matchLeaf`, `matchSubtree` and `matchNextSegment` translated from
  the source are therefore ONE LEVEL of the recursion over the tree; Props/C02BaseTreeCode proves that this level is the
  model's, and the model's own recursion is the induction over the height of the tree.  The leaves' and subtrees' own
  `match` methods have their code-level theorems elsewhere (Props/C01LeafCode, C02LeafCode, C02TreeCode).

  `hok l.hid` stands for `l.matchHeader(header)` for the request's header (the `header` argument is passed through
  unchanged by every method here).  A Go panic (a slice bound out of range) is not represented: the index-level model
  returns `.error`, the functions below then answer "no match" — the theorems are stated for the runs in which the model
  does not panic, and Props/C07 proves that it never does on a request path.
-/
import Flamego.Code.GoSem
import Flamego.Code.LibRoute
import Flamego.Model.TreeIdx
namespace Flamego.Lib
open Flamego

/-- `strings.Index(s, sep)` for the only separator the matcher uses, "/" (Model/TreeIdx.indexSlash; `-1` when absent);
any other separator is outside what is modelled and answers `-1` -/
def strings_Index (s sep : Bytes) : Int :=
  if sep = [47] then (match indexSlash s with | some i => (i : Int) | none => -1) else -1

/-- `strings.TrimLeft(s, cutset)` for the only cutset the matcher uses, "/" (Base/Bytes.trimLeftSlash); any other cutset is
outside what is modelled and leaves the string as it is -/
def strings_TrimLeft (s cutset : Bytes) : Bytes := if cutset = [47] then trimLeftSlash s else s

/-- `url.PathUnescape` (Base/Codec.pathUnescape, compared with the real net/url by the correspondence check on every run) -/
def url_PathUnescape (s : Bytes) : Bytes × GoSem.Err :=
  match pathUnescape s with
  | some v => (v, 0)
  | none => ([], 1)

/-- the numbering of `MatchStyle` in leaf.go (iota): none 0, static 1, regex 2, placeholder 3, all 4 -/
def styleOf : Pat → Int
  | .static _ => 1
  | .regex _ _ => 2
  | .hole _ => 3
  | .all _ _ => 4
def Tree_getMatchStyle (t : Tree) : Int := styleOf t.pat
def Leaf_getMatchStyle (l : Leaf) : Int := styleOf l.pat

/-- a search result of the model as the three values the Go methods return (leaf, ok) plus the parameter map after the call -/
def resOf (ps0 : Params) : MatchRes → Leaf × Bool × Params
  | .ok (some l, ps) => (l, true, ps)
  | .ok (none, ps) => (default, false, ps)
  | .error _ => (default, false, ps0)

/-- `l.match(segment, params, header)` on a leaf of the tree -/
def Leaf_match (E : Engine) (hok : Nat → Bool) (l : Leaf) (segment : Bytes) (ps : Params) (_ : Header) : Bool × Params :=
  match leafMatch E hok l segment ps with
  | some ps' => (true, ps')
  | none => (false, ps)

/-- `st.match(segment, params)` on a subtree -/
def Tree_match (E : Engine) (st : Tree) (segment : Bytes) (ps : Params) : Bool × Params :=
  match treeMatch E st.pat segment ps with
  | some ps' => (true, ps')
  | none => (false, ps)

/-- `st.matchNextSegment(path, next, params, header)` on a subtree: the search below it -/
def Tree_matchNextSegment (E : Engine) (hok : Nat → Bool) (st : Tree) (path : Bytes) (next : Int) (ps : Params) (_ : Header) :
    Leaf × Bool × Params :=
  resOf ps (matchNextIdx E hok st.subs st.leaves path next.toNat ps)

/-- `st.(*matchAllTree).matchAll(path, segment, next, params, header)` on a match-all subtree -/
def Tree_matchAll (E : Engine) (hok : Nat → Bool) (st : Tree) (path segment : Bytes) (next : Int) (ps : Params) (_ : Header) :
    Leaf × Bool × Params :=
  match st.pat with
  | .all b cap => resOf ps (matchAllLoopIdx E hok st.subs st.leaves b cap 1 path segment next.toNat ps)
  | _ => (default, false, ps)

/-- `leaf.(*matchAllLeaf).matchAll(path, segment, next, params, header)` on the tree's last leaf (Props/C01LeafCode proves
the translated body of that method to be this) -/
def Leaf_matchAll (hok : Nat → Bool) (l : Leaf) (path segment : Bytes) (next : Int) (ps : Params) (_ : Header) : Bool × Params :=
  match matchAllLeafIdx hok [l] path segment next.toNat ps with
  | .ok (some _, ps') => (true, ps')
  | _ => (false, ps)

end Flamego.Lib
