/-
  Code/LoopLemmas.lean — closed forms of translated `range` loops (GoSem.forRangeCtl) whose bodies never `return`: such a
  loop is a fold (over the entries before the first `break`, if it has one).  Used by the refinement proofs of the bodies
  that write into a buffer (Props/C12LeafCode, Props/C06Code).
-/
import Flamego.Code.GoSem
set_option linter.unusedSimpArgs false
set_option linter.unusedVariables false
namespace Flamego.LoopLemmas
open Flamego.GoSem

/-! ### loops whose bodies never return -/

theorem loop_next {α β σ ρ : Type} (g : α → β) (f : σ → α → σ) (body : Int × β → σ → GoSem.Ctl ρ × σ)
    (hbody : ∀ i x st, body (i, g x) st = (GoSem.Ctl.next, f st x)) (xs : List α) (n : Nat) (st : σ) :
    GoSem.forRangeCtl (ρ := ρ) (((xs.map g).zipIdx n).map fun p => ((p.2 : Int), p.1)) body st
      = (GoSem.Ctl.next, xs.foldl f st) := by
  induction xs generalizing n st with
  | nil => rfl
  | cons x xs ih =>
    simp only [List.map_cons, List.zipIdx_cons, GoSem.forRangeCtl, hbody, List.foldl_cons]
    exact ih (n + 1) _


theorem loop_next_from {α β σ ρ : Type} (g : α → β) (f : σ → α → σ) (body : Int × β → σ → GoSem.Ctl ρ × σ) (n0 : Nat)
    (hbody : ∀ (i : Nat) x st, n0 ≤ i → body ((i : Int), g x) st = (GoSem.Ctl.next, f st x)) (xs : List α) (n : Nat)
    (hn : n0 ≤ n) (st : σ) :
    GoSem.forRangeCtl (ρ := ρ) (((xs.map g).zipIdx n).map fun p => ((p.2 : Int), p.1)) body st
      = (GoSem.Ctl.next, xs.foldl f st) := by
  induction xs generalizing n st with
  | nil => rfl
  | cons x xs ih =>
    simp only [List.map_cons, List.zipIdx_cons, GoSem.forRangeCtl, hbody n x st hn, List.foldl_cons]
    exact ih (n + 1) (by omega) _

/-- a loop whose body either leaves the loop (`break`) or goes on: the fold over the entries before the first break -/
theorem loop_brk {α β σ ρ : Type} (g : α → β) (stop : α → Bool) (f : σ → α → σ) (body : Int × β → σ → GoSem.Ctl ρ × σ)
    (hbody : ∀ i x st, body (i, g x) st = (if stop x then (GoSem.Ctl.brk, st) else (GoSem.Ctl.next, f st x)))
    (xs : List α) (n : Nat) (st : σ) :
    GoSem.forRangeCtl (ρ := ρ) (((xs.map g).zipIdx n).map fun p => ((p.2 : Int), p.1)) body st
      = (GoSem.Ctl.next, (xs.takeWhile (fun x => !stop x)).foldl f st) := by
  induction xs generalizing n st with
  | nil => rfl
  | cons x xs ih =>
    simp only [List.map_cons, List.zipIdx_cons, GoSem.forRangeCtl, hbody]
    cases hs : stop x with
    | true => simp [List.takeWhile_cons, hs]
    | false =>
      simp only [Bool.false_eq_true, if_false, List.takeWhile_cons, hs, Bool.not_false, if_true, List.foldl_cons]
      exact ih (n + 1) _

theorem foldl_append_flatMap {α : Type} (f : α → Bytes) (xs : List α) (acc : Bytes) :
    xs.foldl (fun b x => b ++ f x) acc = acc ++ xs.flatMap f := by
  induction xs generalizing acc with
  | nil => simp
  | cons x xs ih => simp [List.foldl_cons, ih, List.flatMap_cons, List.append_assoc]

end Flamego.LoopLemmas
