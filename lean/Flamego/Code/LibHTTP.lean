/-
  Code/LibHTTP.lean — what the library calls of the translated request accessors (Gen/ContextCode.lean) stand for.

  Each name below is a Go library function or field (the table is in /verif/translator/contextcode.go) defined BY HAND in
  terms of the models of Base/Codec and Model/Access — the same definitions the correspondence check runs against the real
  net/url, net/http and strconv on every run.  So the code-level theorems of Props/C18Code say: *given* that the library
  behaves like these models, the accessor bodies in context.go compute exactly the property's rule.

  Only what the accessors use is covered: `ParseInt` in base 10, `LastIndex` with a one-byte separator, `Header.Get` with
  a key that is already canonical ("X-Real-IP", "X-Forwarded-For").
-/
import Flamego.Code.GoSem
import Flamego.Model.Access
import Flamego.Base.Engine
namespace Flamego.Lib
open Flamego.GoSem

/-- `*flamego.Request` / `*http.Request`, as far as the accessors look at it -/
structure Request where
  rawQuery    : Bytes                        -- URL.RawQuery
  header      : List (Bytes × List Bytes)    -- Header, keys canonical
  remoteAddr  : Bytes                        -- RemoteAddr
  cookieLines : List Bytes                   -- the values of the Cookie header lines
  method      : Bytes := []                  -- Method
  path        : Bytes := []                  -- URL.Path
  deriving Inhabited

abbrev URL := Request                         -- `r.URL`: only RawQuery is consulted
abbrev Values := List (Bytes × List Bytes)    -- url.Values = map[string][]string
abbrev Header := List (Bytes × List Bytes)

/-- `http.Cookie`, as far as the accessors use it: name and value (every other attribute is left at its zero value by
`Context.SetCookie`'s callers in the model — `Cookie.String()` then prints `name=value` only) -/
structure Cookie where
  name  : Bytes := []
  value : Bytes := []
  deriving Inhabited

def Request_URL (r : Request) : URL := r
def Request_Method (r : Request) : Bytes := r.method
def URL_Path (u : URL) : Bytes := u.path
/-- `r.URL.Path = p` -/
def Request_setPath (r : Request) (p : Bytes) : Request := { r with path := p }
/-- `strings.TrimPrefix` -/
def strings_TrimPrefix (s pre : Bytes) : Bytes := if pre.isPrefixOf s then s.drop pre.length else s
def Request_Header (r : Request) : Header := r.header
def Request_RemoteAddr (r : Request) : Bytes := r.remoteAddr
def Cookie_Value (c : Cookie) : Bytes := c.value
def Cookie_setValue (c : Cookie) (v : Bytes) : Cookie := { c with value := v }
/-- `(*http.Cookie).String()` of a cookie with a name and a value only -/
def Cookie_String (c : Cookie) : Bytes := cookieString c.name c.value
/-- `url.QueryEscape` -/
def url_QueryEscape (s : Bytes) : Bytes := queryEscape s

/-- the pairs of the query string grouped by key, as `url.Values` holds them: one entry per key (in order of first
appearance — Go's map has no order), all the key's values in order -/
def groupValues (q : Access.Query) : Values :=
  ((q.map (·.1)).eraseDups).map fun k => (k, Access.qValues q k)

/-- `(*url.URL).Query()` -/
def URL_Query (u : URL) : Values := groupValues (Access.parseQuery u.rawQuery)

/-- `url.Values.Get` / `http.Header.Get` (canonical key): the first value of the key, "" when there is none -/
def firstOf (m : List (Bytes × List Bytes)) (k : Bytes) : Bytes :=
  match m.find? (fun kv => kv.1 == k) with
  | some (_, v :: _) => v
  | _ => []

def Values_Get (q : Values) (k : Bytes) : Bytes := firstOf q k
def Header_Get (h : Header) (k : Bytes) : Bytes := firstOf h k

/-- `(*http.Request).Cookie(name)`: the first cookie of that name, `http.ErrNoCookie` otherwise -/
def Request_Cookie (r : Request) (name : Bytes) : Cookie × Err :=
  match requestCookie r.cookieLines name with
  | some v => ({ value := v }, 0)
  | none => (default, 1)

def errOf (e : Access.NumErr) : Err := if e = .ok then 0 else 1

/-- `strconv.Atoi` -/
def strconv_Atoi (s : Bytes) : Int × Err := ((Access.atoi s).1, errOf (Access.atoi s).2)

/-- `strconv.ParseInt(s, base, bitSize)`: base 10 is the only base modelled — with any other base the call stands for a
failure, so that a theorem about code that passes another base cannot go through -/
def strconv_ParseInt (s : Bytes) (base : Int) (bitSize : Int) : Int × Err :=
  if base = 10 then
    ((Access.parseInt (Access.resolveBits bitSize.toNat) s).1, errOf (Access.parseInt (Access.resolveBits bitSize.toNat) s).2)
  else (0, 1)

/-- `strconv.ParseBool` -/
def strconv_ParseBool (s : Bytes) : Bool × Err := ((Access.parseBool s).1, if (Access.parseBool s).2 then 1 else 0)

/-- `strings.TrimSpace` -/
def strings_TrimSpace (s : Bytes) : Bytes := Access.trimSpace s

/-- index of the last occurrence of the byte `c` -/
def lastIndexByte (c : UInt8) : Bytes → Option Nat
  | [] => none
  | x :: xs =>
    match lastIndexByte c xs with
    | some i => some (i + 1)
    | none => if x = c then some 0 else none

/-- `strings.LastIndex(s, sep)` for a one-byte `sep` (-1 = not found) -/
def strings_LastIndex (s sep : Bytes) : Int :=
  match sep with
  | [c] => (match lastIndexByte c s with | some i => (i : Int) | none => -1)
  | _ => -1

/-- `url.QueryUnescape` -/
def url_QueryUnescape (s : Bytes) : Bytes × Err :=
  match queryUnescape s with
  | some v => (v, 0)
  | none => ([], 1)

end Flamego.Lib

namespace Flamego.Lib
/-- a compiled `*regexp.Regexp` stands for its expression -/
abbrev Regexp := Flamego.Bytes
/-- `(*regexp.Regexp).MatchString`: the engine's unanchored search (the engine is the parameter of every routing model) -/
def Regexp_MatchString (E : Flamego.Engine) (re : Regexp) (s : Flamego.Bytes) : Bool := E.search re s
end Flamego.Lib
