/-
  Code/LibRoute.lean — what internal/route's Leaf and Tree stand for in the translated dispatcher (Gen/RouterCode.lean):
  the leaf and the tree of the MODEL (Model/Tree.lean).  `Leaf.Handler()` is the identity of the registration the leaf
  serves, `Leaf.Route()` the canonical text of its route.  What a tree answers to `Match` is a parameter of the generated
  definitions (the matcher has its own theorems: C01, C02, C07).
-/
import Flamego.Code.GoSem
import Flamego.Model.Tree
import Flamego.Model.Router
import Flamego.Model.Classify
namespace Flamego.Lib
open Flamego.GoSem

abbrev Leaf := Flamego.Leaf
abbrev Tree := Flamego.Node

/-- what the dispatcher did to the world: it called a route's handler with these parameters, or the not-found handler -/
inductive Dispatch
  | handler (f : FuncVal) (params : List (Bytes × Bytes))
  | notFound (f : FuncVal)
  deriving DecidableEq, Repr

def Leaf_Handler (l : Leaf) : FuncVal := (l.hid : Int)
def Leaf_Route (l : Leaf) : Bytes := l.route.render
/-- `Leaf.URLPath(vals, withOptional)`: the model's URL builder on the leaf's route (Model/Router.lean `urlPath`; its own
theorems are Props/C12's) -/
def Leaf_URLPath (l : Leaf) (vals : List (Bytes × Bytes)) (withOptional : Bool) : Bytes :=
  Flamego.urlPath l.route vals withOptional

/-- `strconv.Atoi` as leaf.go uses it for `capture:` — the reading of Model/Classify.lean (`atoiGo`); the error is ignored by
the caller -/
def route_Atoi (s : Bytes) : Int × Err := (Flamego.atoiGo s, 0)

end Flamego.Lib
