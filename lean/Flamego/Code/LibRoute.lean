/-
  Code/LibRoute.lean — what internal/route's Leaf and Tree stand for in the translated dispatcher (Gen/RouterCode.lean):
  the leaf and the tree of the MODEL (Model/Tree.lean).  `Leaf.Handler()` is the identity of the registration the leaf
  serves, `Leaf.Route()` the canonical text of its route.  What a tree answers to `Match` is a parameter of the generated
  definitions (the matcher has its own theorems: C01, C02, C07).
-/
import Flamego.Code.GoSem
import Flamego.Model.Tree
import Flamego.Model.Router
import Flamego.Model.Classify
import Flamego.Code.LibHTTP
namespace Flamego.Lib
open Flamego.GoSem

abbrev Leaf := Flamego.Leaf
abbrev Tree := Flamego.Node

/-- what the dispatcher did to the world: it called a route's handler with these parameters, or the not-found handler -/
inductive Dispatch
  | handler (f : FuncVal) (params : List (Bytes × Bytes))
  | notFound (f : FuncVal)
  deriving DecidableEq, Repr

def Leaf_Handler (l : Leaf) : FuncVal := (l.hid : Int)
def Leaf_Route (l : Leaf) : Bytes := l.route.render
/-- `Leaf.URLPath(vals, withOptional)`: the model's URL builder on the leaf's route (Model/Router.lean `urlPath`; its own
theorems are Props/C12's) -/
def Leaf_URLPath (l : Leaf) (vals : List (Bytes × Bytes)) (withOptional : Bool) : Bytes :=
  Flamego.urlPath l.route vals withOptional

/-- `strconv.Atoi` as leaf.go uses it for `capture:` — the reading of Model/Classify.lean (`atoiGo`); the error is ignored by
the caller -/
def route_Atoi (s : Bytes) : Int × Err := (Flamego.atoiGo s, 0)

/-- a compiled `*regexp.Regexp` stands for its expression; `regexp.Compile` and `NumSubexp` are the engine's (`Engine.compile`:
`none` = the expression does not compile, `some n` = it has `n` capturing groups) -/
def regexp_Compile (E : Flamego.Engine) (p : Bytes) : Regexp × Err :=
  match E.compile p with
  | some _ => (p, 0)
  | none => ([], 1)
def Regexp_NumSubexp (E : Flamego.Engine) (re : Regexp) : Int := ((E.compile re).getD 0 : Nat)

/-- `FindStringSubmatch`: the engine's `find`; no match is the nil slice -/
def Regexp_FindStringSubmatch (E : Flamego.Engine) (re : Regexp) (s : Bytes) : List Bytes := (E.find re s).getD []

/-- `strings.Count(s, sep)` for a one-byte `sep` -/
def strings_Count (s sep : Bytes) : Int :=
  match sep with
  | [c] => ((s.filter (· == c)).length : Nat)
  | _ => 0

/-- a `*bytes.Buffer` is its content -/
abbrev Buffer := Bytes
def Buffer_new (s : Bytes) : Buffer := s
def Buffer_WriteString (b : Buffer) (s : Bytes) : Buffer := b ++ s
def Buffer_String (b : Buffer) : Bytes := b

def Buffer_Len (b : Buffer) : Int := (b.length : Nat)

/-- a `*strings.Replacer` is the flat list of its `old, new` arguments; `Replace` is the model's `replaceAll` (Model/Router.lean:
at each position the first listed non-empty key that is a prefix there is replaced, its value not re-scanned) -/
abbrev Replacer := List Bytes
def strings_NewReplacer (pairs : List Bytes) : Replacer := pairs
def pairUp : List Bytes → List (Bytes × Bytes)
  | k :: v :: rest => (k, v) :: pairUp rest
  | _ => []
def Replacer_Replace (r : Replacer) (s : Bytes) : Bytes := Flamego.replaceAll (pairUp r) s

/-- the errors `constructMatchStyleRegex` builds, told apart by their format string (the position in the message is a
detail): 1 empty element, 2 non-regex literal in a parameter list, 3 an expression that does not compile, 4 a bind used
twice in the segment -/
def errCode (fmt : Bytes) : Err :=
  if fmt = B "empty segment element in position %d" then 1
  else if fmt = B "segment has non-regex literal in position %d" then 2
  else if fmt = B "compile regexp near position %d" then 3
  else if fmt = B "duplicated bind parameter %q in position %d" then 4
  else 9
def errors_Errorf (fmt : Bytes) : Err := errCode fmt
def errors_Wrapf (fmt : Bytes) : Err := errCode fmt

end Flamego.Lib
