/-
  Code/GoSem.lean — the few conventions the Go→Lean translation of method bodies relies on
  (/verif/translator/gocode.go emits definitions over these; nothing here is specific to one type).

  * integers of every width are `Int` (the translated code does no arithmetic near a bound);
  * `error` is a number (`0` = nil), a func value is a number (its identity; `0` = nil);
  * a `sync.Once` is its `done` flag;
  * a value of interface type held in a field is an object of the ENVIRONMENT (`Env`): a call on it is appended to its
    trace, its results are whatever the environment answers (an arbitrary function of the position in the trace and the
    method — every theorem quantifies over it), and which further interfaces it implements is a list.
-/
namespace Flamego.GoSem

abbrev Bytes := List UInt8
abbrev Err := Int
abbrev Once := Bool
abbrev FuncVal := Int
/-- a value of type `interface{}` that the code only passes on: its identity -/
abbrev Any := Int

/-- an argument of a call of the environment, as the environment sees it -/
inductive Arg
  | int (i : Int) | bytes (b : Bytes) | str (s : String)
  | other      -- an argument passed on to the environment that the trace does not spell out (a request, a writer)
  deriving DecidableEq, Repr, Inhabited

def Arg.toInt : Arg → Int
  | .int i => i
  | _ => 0

@[simp] theorem Arg.toInt_int (i : Int) : (Arg.int i).toInt = i := rfl

def Arg.toBytes : Arg → Bytes
  | .bytes b => b
  | _ => []

@[simp] theorem Arg.toBytes_bytes (b : Bytes) : (Arg.bytes b).toBytes = b := rfl

structure Env where
  trace   : List (String × List Arg)
  answers : Nat → String → Int × Int
  ifaces  : List String
  /-- the field holds no object at all (`w.f == nil`) -/
  isNil   : Bool := false

instance : Inhabited Env := ⟨{ trace := [], answers := fun _ _ => (0, 0), ifaces := [] }⟩

def Env.record (e : Env) (c : String × List Arg) : Env := { e with trace := e.trace ++ [c] }

/-- a method call on the environment object: recorded, answered by the environment -/
def Env.call (e : Env) (m : String) (args : List Arg) : (Int × Int) × Env :=
  (e.answers e.trace.length m, e.record (m, args))

def Env.implements (e : Env) (i : String) : Bool := e.ifaces.contains i

/-- `for i := len(xs) - 1; i >= 0; i-- { f xs[i] }` -/
def forEachRev (xs : List α) (f : α → σ → σ) (s : σ) : σ := xs.foldr f s

@[simp] theorem forEachRev_nil (f : α → σ → σ) (s : σ) : forEachRev [] f s = s := rfl
theorem forEachRev_append (xs ys : List α) (f : α → σ → σ) (s : σ) :
    forEachRev (xs ++ ys) f s = forEachRev xs f (forEachRev ys f s) := by
  simp [forEachRev]

/-- a struct field whose type is outside the translated subset (a method that touches it is not translated) -/
abbrev Opaque := Unit

/-- `m[k]` on a map: the value stored under `k`, the zero value when absent (a Go map has one entry per key; on an
association list the first one counts, as in Model/Access) -/
def mapGet [BEq κ] [Inhabited ν] (m : List (κ × ν)) (k : κ) : ν :=
  match m.find? (fun kv => kv.1 == k) with
  | some kv => kv.2
  | none => default

/-- `v, ok := m[k]` -/
def mapGet2 [BEq κ] [Inhabited ν] (m : List (κ × ν)) (k : κ) : ν × Bool :=
  match m.find? (fun kv => kv.1 == k) with
  | some kv => (kv.2, true)
  | none => (default, false)

/-- `m[k] = v` on a map: the entry of `k` replaced, a new entry when there was none -/
def mapSet [BEq κ] : List (κ × ν) → κ → ν → List (κ × ν)
  | [], k, v => [(k, v)]
  | (k', v') :: r, k, v => if k' == k then (k, v) :: r else (k', v') :: mapSet r k v

/-- `xs[i]`. NOT represented: Go panics when `i` is out of range (no-panic clauses are the correspondence check's to
establish, not the code-level tie's); here the zero value comes out -/
def idx [Inhabited α] (xs : List α) (i : Int) : α := if i < 0 then default else xs.getD i.toNat default

/-- `xs[i] = v` on a slice. NOT represented: Go panics when `i` is out of range; here nothing changes -/
def setIdx (xs : List α) (i : Int) (v : α) : List α := if i < 0 then xs else xs.set i.toNat v

/-- `s[:i]` / `s[i:]`, with the same caveat (out-of-range bounds clamp instead of panicking) -/
def sliceTo (xs : List α) (i : Int) : List α := xs.take i.toNat
def sliceFrom (xs : List α) (i : Int) : List α := xs.drop i.toNat

/-- `for i, x := range xs` -/
def enum (xs : List α) : List (Int × α) := (xs.zipIdx).map fun p => ((p.2 : Int), p.1)

/-- `for k, v := range m { … return r … }` with a body that changes nothing: the first `return` reached, if any.
Go ranges over a map in an unspecified order; the list's order stands for whichever order the run took — a theorem that
is to hold for the code must therefore not depend on it (the refinement theorems state where they do not) -/
def forRangeRet (m : List (κ × ν)) (body : κ × ν → Option ρ) : Option ρ := m.findSome? body

/-- `*p` / the implicit dereference in `p.f` for a pointer that is an `Option`. NOT represented: a nil dereference panics in
Go; here the zero value comes out (the translated code tests for nil first, and the proofs use that) -/
def deref [Inhabited α] (p : Option α) : α := p.getD default

/-- `delete(m, k)` -/
def mapDel [BEq κ] (m : List (κ × ν)) (k : κ) : List (κ × ν) := m.filter fun kv => !(kv.1 == k)

/-- the indices of `for i := a; i < b; i += s` (s > 0); `fuel` bounds the number of iterations -/
def rangeStepAux (b s : Int) : Nat → Int → List Int
  | 0, _ => []
  | fuel + 1, a => if a < b then a :: rangeStepAux b s fuel (a + s) else []

def rangeStep (a b s : Int) : List Int := if 0 < s then rangeStepAux b s (b - a).toNat a else []

/-- how a loop body ended: go on with the next entry, leave the loop (`break`), leave the function (`return r`) -/
inductive Ctl (ρ : Type)
  | next | brk | ret (r : ρ)

/-- `for k, v := range m { body }` with a body that may change state, `continue`, `break` and `return`: a left fold over
the entries that threads the state and stops at the first `break` (the code after the loop runs) or `return` (it does not).
For a map the list's order stands for whichever order the run took. -/
def forRangeCtl {ρ : Type} : List (κ × ν) → (κ × ν → σ → Ctl ρ × σ) → σ → Ctl ρ × σ
  | [], _, s => (Ctl.next, s)
  | e :: rest, body, s =>
    match body e s with
    | (Ctl.next, s') => forRangeCtl rest body s'
    | (Ctl.brk, s') => (Ctl.next, s')
    | (Ctl.ret r, s') => (Ctl.ret r, s')


/-- `for cond { body }` on the variables the body assigns: at most `fuel` iterations — `none` when the loop would go on
after them (the refinement theorem of a method that uses this shows that its fuel suffices). `continue` = `next`;
`break` leaves the loop; `return r` leaves the method -/
def whileFuel {σ ρ : Type} : Nat → (σ → Bool) → (σ → Ctl ρ × σ) → σ → Option (Ctl ρ × σ)
  | 0, cond, _, st => if cond st then none else some (Ctl.next, st)
  | fuel + 1, cond, body, st =>
    if cond st then
      match body st with
      | (Ctl.next, st') => whileFuel fuel cond body st'
      | (Ctl.brk, st') => some (Ctl.next, st')
      | (Ctl.ret r, st') => some (Ctl.ret r, st')
    else some (Ctl.next, st)

end Flamego.GoSem
