/-
  Code/GoSem.lean — the few conventions the Go→Lean translation of method bodies relies on
  (/verif/translator/gocode.go emits definitions over these; nothing here is specific to one type).

  * integers of every width are `Int` (the translated code does no arithmetic near a bound);
  * `error` is a number (`0` = nil), a func value is a number (its identity; `0` = nil);
  * a `sync.Once` is its `done` flag;
  * a value of interface type held in a field is an object of the ENVIRONMENT (`Env`): a call on it is appended to its
    trace, its results are whatever the environment answers (an arbitrary function of the position in the trace and the
    method — every theorem quantifies over it), and which further interfaces it implements is a list.
-/
namespace Flamego.GoSem

abbrev Bytes := List UInt8
abbrev Err := Int
abbrev Once := Bool
abbrev FuncVal := Int

structure Env where
  trace   : List (String × List Int)
  answers : Nat → String → Int × Int
  ifaces  : List String

def Env.record (e : Env) (c : String × List Int) : Env := { e with trace := e.trace ++ [c] }

/-- a method call on the environment object: recorded, answered by the environment -/
def Env.call (e : Env) (m : String) (args : List Int) : (Int × Int) × Env :=
  (e.answers e.trace.length m, e.record (m, args))

def Env.implements (e : Env) (i : String) : Bool := e.ifaces.contains i

/-- `for i := len(xs) - 1; i >= 0; i-- { f xs[i] }` -/
def forEachRev (xs : List α) (f : α → σ → σ) (s : σ) : σ := xs.foldr f s

@[simp] theorem forEachRev_nil (f : α → σ → σ) (s : σ) : forEachRev [] f s = s := rfl
theorem forEachRev_append (xs ys : List α) (f : α → σ → σ) (s : σ) :
    forEachRev (xs ++ ys) f s = forEachRev xs f (forEachRev ys f s) := by
  simp [forEachRev]

end Flamego.GoSem
