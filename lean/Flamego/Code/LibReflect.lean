/-
  Code/LibReflect.lean — what `reflect` stands for in the translated injector (Gen/InjectCode.lean).

  A `reflect.Type` is an index into the universe of types and a `reflect.Value` the identity of a registered value, `0` being
  the zero Value (`IsValid() == false`) — exactly the reading of Model/Inject.lean, whose `Universe` (what reflect says
  about types: `Kind() == Interface`, `Implements`) is a parameter of every theorem.
-/
import Flamego.Code.GoSem
import Flamego.Model.Inject
namespace Flamego.Lib

abbrev Ty := Nat
abbrev RVal := Int

/-- `reflect.Value.IsValid` -/
def RVal_IsValid (v : RVal) : Bool := v != 0

/-- `reflect.Type.Kind()`: only the test against `reflect.Interface` (= 20) is made -/
def Ty_Kind (U : Flamego.Inject.Universe) (t : Ty) : Int := if U.isInterface t then 20 else 0

/-- `k.Implements(t)` -/
def Ty_Implements (U : Flamego.Inject.Universe) (k t : Ty) : Bool := U.implements k t

/-- `reflect.ValueOf(v)`: the value's identity -/
def reflect_ValueOf (v : Flamego.GoSem.Any) : RVal := v

/-- `fmt.Errorf(format, …)`: a non-nil error (the text is a detail) -/
def fmt_Errorf (_format : String) : Flamego.GoSem.Err := 1

end Flamego.Lib
