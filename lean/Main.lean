/-
  fmodel — the model driver (core Lean only, so that it links as a `lean_exe`).

    fmodel run [answers-file] < ops      one output line per input line
    fmodel queries            < ops      oracle queries (`Q …` lines) the run could need

  The input is a sequence of sessions, each introduced by `NEW <kind> <args…>`.
-/
import Flamego.Driver.Writer
import Flamego.Driver.Router
import Flamego.Driver.Ret
import Flamego.Driver.Inject
import Flamego.Driver.Static
import Flamego.Driver.Access
import Flamego.Driver.Render
import Flamego.Driver.Chain
import Flamego.Driver.Noop
import Flamego.Driver.Dsl
import Flamego.Driver.Parser
import Flamego.Driver.App
import Flamego.Driver.AppFull
import Flamego.Driver.ConcReq
import Flamego.Driver.Env
open Flamego Flamego.Driver

def dispatch (o : Oracle) (kind : String) (args : List String) (body : List (List String)) : List String :=
  match kind with
  | "writer" => Writer.session args body
  | "writer2" => Writer.session2 args body
  | "writerf" => Writer.sessionF args body
  | "router" => Router.session o.engine args body
  | "ret" => Ret.session args body
  | "retseq" => Ret.seqSession args body
  | "retnest" => Ret.nestSession args body
  | "injectc" => Inject.session args body
  | "inject" => Inject.session args body
  | "injectflame" => Inject.flameSession args body
  | "static" => Static.session args body
  | "access" => Access.session o args body
  | "render" => Render.session args body
  | "chain" => Chain.session args body
  | "noop" => Noop.session args body
  | "envinit" => EnvS.session args body
  | "concreq" => Flamego.Driver.ConcReq.session args body
  | "dsl" => Dsl.session o.engine args body
  | "parser" => Parser.session args body
  | "app" => Flamego.Driver.App.session o.engine args body
  | "appfull" => Flamego.Driver.AppFull.session o.engine args body
  | _ => "bad-kind" :: body.map (fun _ => "bad-kind")

def dispatchQueries (kind : String) (args : List String) (body : List (List String)) : List String :=
  match kind with
  | "router" => Router.queries args body
  | "access" => Access.queries body
  | "app" => Router.queries args body
  | "appfull" => Router.queries args body
  | _ => []

partial def readLines (h : IO.FS.Stream) (acc : Array String) : IO (Array String) := do
  let line ← h.getLine
  if line.isEmpty then return acc
  let line := if line.back == '\n' then String.ofList line.toList.dropLast else line
  readLines h (acc.push line)

/-- split into sessions at `NEW` lines; lines before the first NEW are answered `no-session` -/
def sessions (lines : List (List String)) : List (List String) × List (List String × List (List String)) :=
  let rec go (cur : Option (List String × List (List String))) (pre : List (List String))
      (acc : List (List String × List (List String))) : List (List String) →
      List (List String) × List (List String × List (List String))
    | [] => (pre.reverse, (match cur with | some (h, b) => (h, b.reverse) :: acc | none => acc).reverse)
    | l :: rest =>
      if l.head? == some "NEW" then
        go (some (l, [])) pre (match cur with | some (h, b) => (h, b.reverse) :: acc | none => acc) rest
      else match cur with
        | some (h, b) => go (some (h, l :: b)) pre acc rest
        | none => go none (l :: pre) acc rest
  go none [] [] lines

def main (argv : List String) : IO UInt32 := do
  let stdin ← IO.getStdin
  let stdout ← IO.getStdout
  match argv with
  | "run" :: more =>
    let mut o : Oracle := {}
    if let some f := more.head? then
      let txt ← IO.FS.readFile f
      for l in txt.splitOn "\n" do
        o := o.add (fields l)
    let lines := (← readLines stdin #[]).toList.map fields
    let (pre, ss) := sessions lines
    for _ in pre do stdout.putStrLn "no-session"
    for (hdr, body) in ss do
      let kind := (hdr.drop 1).head?.getD ""
      for out in dispatch o kind (hdr.drop 2) body do
        stdout.putStrLn out
    stdout.flush
    return 0
  | ["queries"] =>
    let lines := (← readLines stdin #[]).toList.map fields
    let (_, ss) := sessions lines
    for (hdr, body) in ss do
      let kind := (hdr.drop 1).head?.getD ""
      for out in dispatchQueries kind (hdr.drop 2) body do
        stdout.putStrLn out
    stdout.flush
    return 0
  | _ =>
    IO.eprintln "usage: fmodel run [answers] | fmodel queries"
    return 2
