// Command harness drives the real flamego code for the correspondence checks.
//
//	harness gen  <suite> <seed> <tier> <ops-out>     generate operation sessions for a suite (= property id)
//	harness exec <ops-in> <real-out>                 run the real code on every session; one output line per input line
//	harness oracle <queries-in> <answers-out>        answer the model's regex queries with Go's regexp
//
// Line protocol: DESIGN.md appendix B. Byte strings are hex ("-" = empty).
package main

import (
	"bufio"
	"encoding/hex"
	"fmt"
	"math"
	"math/rand"
	"os"
	"regexp"
	"sort"
	"strconv"
	"strings"
)

// Emit writes one operation line.
type Emit func(format string, a ...interface{})

// generators by suite, executors by session kind
var (
	gens  = map[string]func(r *rand.Rand, tier string, emit Emit){}
	execs = map[string]func(args []string, lines [][]string) []string{}
	// extra sub-commands (harness <name> args…), e.g. "conc" for the C05 race run
	cmds = map[string]func(args []string){}
)

func hx(s string) string {
	if s == "" {
		return "-"
	}
	return hex.EncodeToString([]byte(s))
}

func unhx(s string) string {
	if s == "-" {
		return ""
	}
	b, err := hex.DecodeString(s)
	if err != nil {
		panic("bad hex field: " + s)
	}
	return string(b)
}

func atoi(s string) int {
	n, err := strconv.Atoi(s)
	if err != nil {
		panic("bad int field: " + s)
	}
	return n
}

func readLines(path string) []string {
	f, err := os.Open(path)
	if err != nil {
		fatal(err)
	}
	defer f.Close()
	var out []string
	sc := bufio.NewScanner(f)
	sc.Buffer(make([]byte, 1<<20), 1<<28)
	for sc.Scan() {
		out = append(out, sc.Text())
	}
	return out
}

func fatal(a ...interface{}) {
	fmt.Fprintln(os.Stderr, a...)
	os.Exit(3)
}

func main() {
	if len(os.Args) < 2 {
		fatal("usage: harness gen|exec|oracle …")
	}
	switch os.Args[1] {
	case "gen":
		suite, seed, tier, out := os.Args[2], int64(atoi(os.Args[3])), os.Args[4], os.Args[5]
		g, ok := gens[suite]
		if !ok {
			fatal("unknown suite", suite)
		}
		f, err := os.Create(out)
		if err != nil {
			fatal(err)
		}
		w := bufio.NewWriterSize(f, 1<<20)
		g(rand.New(rand.NewSource(seed)), tier, func(format string, a ...interface{}) {
			fmt.Fprintf(w, format, a...)
			w.WriteByte('\n')
		})
		w.Flush()
		f.Close()
	case "exec":
		lines := readLines(os.Args[2])
		f, err := os.Create(os.Args[3])
		if err != nil {
			fatal(err)
		}
		w := bufio.NewWriterSize(f, 1<<20)
		runSessions(lines, w)
		w.Flush()
		f.Close()
	case "oracle":
		answerOracle(os.Args[2], os.Args[3])
	default:
		if c, ok := cmds[os.Args[1]]; ok {
			c(os.Args[2:])
			return
		}
		fatal("unknown command", os.Args[1])
	}
}

// runSessions splits the input at NEW lines and hands each session to its executor.
func runSessions(lines []string, w *bufio.Writer) {
	i := 0
	for i < len(lines) && !strings.HasPrefix(lines[i], "NEW ") {
		fmt.Fprintln(w, "no-session")
		i++
	}
	for i < len(lines) {
		hdr := strings.Fields(lines[i])
		j := i + 1
		for j < len(lines) && !strings.HasPrefix(lines[j], "NEW ") {
			j++
		}
		body := make([][]string, 0, j-i-1)
		for _, l := range lines[i+1 : j] {
			body = append(body, strings.Fields(l))
		}
		kind := ""
		if len(hdr) > 1 {
			kind = hdr[1]
		}
		var outs []string
		if ex, ok := execs[kind]; ok {
			outs = safeExec(ex, hdr[2:], body)
		} else {
			outs = append(outs, "bad-kind")
			for range body {
				outs = append(outs, "bad-kind")
			}
		}
		if len(outs) != len(body)+1 {
			// keep the streams line-aligned whatever happened
			for len(outs) < len(body)+1 {
				outs = append(outs, "harness-short-output")
			}
			outs = outs[:len(body)+1]
		}
		for _, o := range outs {
			fmt.Fprintln(w, o)
		}
		// one session = one flush: should the real code take the whole process down (stack overflow, concurrent
		// map writes, deadlock), the output file says exactly which session did it (check: exec_real)
		w.Flush()
		i = j
	}
}

func safeExec(ex func([]string, [][]string) []string, args []string, body [][]string) (outs []string) {
	defer func() {
		if r := recover(); r != nil {
			outs = []string{fmt.Sprintf("session-panic %v", r)}
		}
	}()
	return ex(args, body)
}

// answerOracle answers `Q C p`, `Q F p s`, `Q S p s` lines with Go's regexp.
func answerOracle(in, out string) {
	lines := readLines(in)
	seen := map[string]bool{}
	cache := map[string]*regexp.Regexp{}
	compile := func(p string) *regexp.Regexp {
		if re, ok := cache[p]; ok {
			return re
		}
		re, err := regexp.Compile(unhx(p))
		if err != nil {
			re = nil
		}
		cache[p] = re
		return re
	}
	var res []string
	for _, l := range lines {
		if seen[l] {
			continue
		}
		seen[l] = true
		f := strings.Fields(l)
		if len(f) < 3 || f[0] != "Q" {
			continue
		}
		switch f[1] {
		case "PF": // C18: value component of strconv.ParseFloat(s, 64) as IEEE-754 bits
			v, _ := strconv.ParseFloat(unhx(f[2]), 64)
			res = append(res, fmt.Sprintf("E PF %s %d", f[2], math.Float64bits(v)))
		case "C":
			re := compile(f[2])
			if re == nil {
				res = append(res, fmt.Sprintf("E C %s err", f[2]))
			} else {
				res = append(res, fmt.Sprintf("E C %s %d", f[2], re.NumSubexp()))
			}
		case "F":
			re := compile(f[2])
			if re == nil {
				res = append(res, fmt.Sprintf("E F %s %s nomatch", f[2], f[3]))
				continue
			}
			m := re.FindStringSubmatch(unhx(f[3]))
			if m == nil {
				res = append(res, fmt.Sprintf("E F %s %s nomatch", f[2], f[3]))
			} else {
				hs := make([]string, len(m))
				for i, s := range m {
					hs[i] = hx(s)
				}
				res = append(res, fmt.Sprintf("E F %s %s %s", f[2], f[3], strings.Join(hs, ",")))
			}
		case "S":
			re := compile(f[2])
			ok := re != nil && re.MatchString(unhx(f[3]))
			b := 0
			if ok {
				b = 1
			}
			res = append(res, fmt.Sprintf("E S %s %s %d", f[2], f[3], b))
		}
	}
	sort.Strings(res)
	if err := os.WriteFile(out, []byte(strings.Join(res, "\n")+"\n"), 0o644); err != nil {
		fatal(err)
	}
}
