package main

// C17 — Render: a real Flame with the flamego.Renderer(opts) middleware and a handler that calls
// r.JSON / r.XML / r.Binary / r.PlainText(status, v), observed through an httptest recorder.
//
// The encoders are a PARAMETER of the Lean model, so the generator computes what the STANDARD
// library encoders produce for each value (json.NewEncoder+SetIndent / xml.NewEncoder+Indent
// into a buffer — never through flamego) and passes those bytes on the op line; the model
// predicts status / Content-Type / body from them and the real flamego output is compared.
// The executor additionally decodes every real JSON/XML body with encoding/json / encoding/xml
// and compares the result with the input value (`decodes-ok`): that monitors the one clause
// that is not proved (the encoders' own faithfulness).
//
// httptest.ResponseRecorder keeps the body for every status (also 1xx, 204, 304, where a real
// net/http server would drop it or treat the status as informational) and never sniffs a
// content type here (flamego always calls WriteHeader before Write): so nothing is skipped,
// and what is observed is exactly what flamego hands to the http.ResponseWriter.
//
// Values travel as `<shape>:<seed>`: generator and executor rebuild the same Go value from it.

import (
	"context"
	"bytes"
	"encoding/json"
	"encoding/xml"
	"fmt"
	"io"
	"log"
	"math"
	"math/rand"
	"net/http"
	"net/http/httptest"
	"reflect"
	"sort"
	"strings"
	"unicode/utf8"

	"github.com/flamego/flamego"
)

func init() {
	execs["render"] = execRender
	gens["C17"] = genRender
}

// ------------------------------------------------------------------------------ values

type jRec struct {
	Name  string         `json:"name"`
	Age   int            `json:"age,omitempty"`
	Tags  []string       `json:"tags"`
	Inner *jRec          `json:"inner,omitempty"`
	Attrs map[string]int `json:"attrs,omitempty"`
	Raw   []byte         `json:"raw"`
	Ratio float64        `json:"ratio"`
	On    bool           `json:"on"`
}

type xNote struct {
	Lang string `xml:"lang,attr"`
	Text string `xml:",chardata"`
}

type xTag struct {
	Key string `xml:"k,attr"`
	Val string `xml:",chardata"`
}

type xPerson struct {
	XMLName xml.Name `xml:"person"`
	ID      int      `xml:"id,attr"`
	Nick    string   `xml:"nick,attr,omitempty"`
	Name    string   `xml:"name"`
	Emails  []string `xml:"contact>email"`
	Note    *xNote   `xml:"note"`
	Tags    []xTag   `xml:"tag"`
}

type xLibrary struct {
	XMLName xml.Name  `xml:"library"`
	Name    string    `xml:"name,attr"`
	Open    bool      `xml:"open"`
	Rate    float64   `xml:"rate"`
	Members []xPerson `xml:"members>person"`
	Comment string    `xml:",comment"`
}

type xPoint struct {
	XMLName xml.Name `xml:"pt"`
	X       int64    `xml:"x,attr"`
	Y       int64    `xml:"y,attr"`
	Label   string   `xml:",chardata"`
}

type xBadChan struct {
	XMLName xml.Name `xml:"bad"`
	Before  string   `xml:"before"`
	C       chan int `xml:"c"`
}

var (
	// survive JSON and XML unchanged
	safeStrings = []string{"", "a", "héllo wörld", "<script>alert('x')&\"</script>", "line1\nline2\ttab", "a]]>b",
		"\\\"quoted\\\"", " padded ", "emoji 😀 é世界", "&amp;&lt;", "x=1&y=<2>", "\r\n", "'single'", "�"}
	// valid UTF-8 that JSON keeps but XML cannot represent (control characters, U+2028 is fine in both)
	jsonOnlyStrings = []string{"\x01\x02", "nul\x00byte", "bell\x07", "\x1f", "  "}
	// not valid UTF-8: both encoders substitute U+FFFD
	lossyStrings = []string{"\xff\xfe", "a\x80b", "\xc3\x28", "ok\xe2\x82"}
)

type builder struct {
	r     *rand.Rand
	xml   bool
	lossy bool // a string was used that cannot survive the round trip
}

func (b *builder) str() string {
	switch k := b.r.Intn(20); {
	case k < 11:
		return safeStrings[b.r.Intn(len(safeStrings))]
	case k < 16:
		n := b.r.Intn(12)
		s := make([]byte, n)
		for i := range s {
			s[i] = byte(32 + b.r.Intn(95))
		}
		return string(s)
	case k < 18:
		s := jsonOnlyStrings[b.r.Intn(len(jsonOnlyStrings))]
		if b.xml && s != "  " {
			b.lossy = true
		}
		return s
	default:
		b.lossy = true
		return lossyStrings[b.r.Intn(len(lossyStrings))]
	}
}

func (b *builder) num() float64 {
	switch b.r.Intn(8) {
	case 0:
		return 0
	case 1:
		return float64(b.r.Intn(2000) - 1000)
	case 2:
		return float64(b.r.Int63())
	case 3:
		return math.Float64frombits(b.r.Uint64()&^(0x7ff<<52) | uint64(b.r.Intn(2046)+1)<<52) // any finite normal
	case 4:
		return 1e21
	case 5:
		return 5e-324
	case 6:
		return -1.5
	default:
		return b.r.NormFloat64() * 1e6
	}
}

// generic JSON value, already in the form json.Unmarshal produces
func (b *builder) jsonValue(depth int) interface{} {
	k := b.r.Intn(10)
	if depth <= 0 && k >= 6 {
		k = b.r.Intn(6)
	}
	switch {
	case k == 0:
		return nil
	case k == 1:
		return b.r.Intn(2) == 0
	case k < 4:
		return b.num()
	case k < 6:
		return b.str()
	case k < 8:
		n := b.r.Intn(4)
		a := make([]interface{}, n)
		for i := range a {
			a[i] = b.jsonValue(depth - 1)
		}
		return a
	default:
		n := b.r.Intn(4)
		m := make(map[string]interface{}, n)
		for i := 0; i < n; i++ {
			m[b.str()] = b.jsonValue(depth - 1)
		}
		return m
	}
}

func (b *builder) strs() []string {
	n := b.r.Intn(3)
	if n == 0 && b.r.Intn(2) == 0 {
		return nil
	}
	out := make([]string, n)
	for i := range out {
		out[i] = b.str()
	}
	return out
}

func (b *builder) rec(depth int) *jRec {
	x := &jRec{Name: b.str(), Age: b.r.Intn(3) * b.r.Intn(100), Tags: b.strs(), Ratio: b.num(), On: b.r.Intn(2) == 0}
	if b.r.Intn(2) == 0 {
		x.Raw = make([]byte, b.r.Intn(6))
		b.r.Read(x.Raw)
	}
	if n := b.r.Intn(3); n > 0 {
		x.Attrs = map[string]int{}
		for i := 0; i < n; i++ {
			x.Attrs[b.str()] = b.r.Intn(100) - 50
		}
	}
	if depth > 0 && b.r.Intn(2) == 0 {
		x.Inner = b.rec(depth - 1)
	}
	return x
}

func (b *builder) person() xPerson {
	p := xPerson{XMLName: xml.Name{Local: "person"}, ID: b.r.Intn(1000) - 100, Name: b.str()}
	if b.r.Intn(2) == 0 {
		p.Nick = b.str()
	}
	if n := b.r.Intn(3); n > 0 {
		for i := 0; i < n; i++ {
			p.Emails = append(p.Emails, b.str())
		}
	}
	if b.r.Intn(2) == 0 {
		p.Note = &xNote{Lang: b.str(), Text: b.str()}
	}
	if n := b.r.Intn(3); n > 0 {
		for i := 0; i < n; i++ {
			p.Tags = append(p.Tags, xTag{Key: b.str(), Val: b.str()})
		}
	}
	return p
}

func (b *builder) library(members int) xLibrary {
	l := xLibrary{XMLName: xml.Name{Local: "library"}, Name: b.str(), Open: b.r.Intn(2) == 0, Rate: b.num()}
	for i := 0; i < members; i++ {
		l.Members = append(l.Members, b.person())
	}
	if b.r.Intn(2) == 0 {
		l.Comment = " generated " + fmt.Sprint(b.r.Intn(100)) + " "
	}
	return l
}

// buildValue rebuilds the value named by spec; rt says whether it must survive encode→decode.
// fresh() returns a pointer to a zero value of the type to decode into (nil = decode into interface{}).
func buildValue(spec string) (v interface{}, rt bool, fresh func() interface{}) {
	parts := strings.Split(spec, ":")
	seed := int64(0)
	if len(parts) > 1 {
		seed = int64(atoi(parts[1]))
	}
	arg := 0
	if len(parts) > 2 {
		arg = atoi(parts[2])
	}
	b := &builder{r: rand.New(rand.NewSource(seed))}
	switch parts[0] {
	case "jv": // generic JSON value of depth arg
		v = b.jsonValue(arg)
		return v, !b.lossy, nil
	case "jr":
		v = b.rec(arg)
		return v, !b.lossy, func() interface{} { return &jRec{} }
	case "jmap": // map with sorted-key behaviour and HTML characters
		return map[string]interface{}{"z": 1.0, "a": "<b>&</b>", "m": []interface{}{true, nil, "x"}}, true, nil
	case "jsj": // a STRING whose text happens to be a JSON document: it is a string, encoded as one
		return []string{"[]", "{}", `{"a":1}`, `[1, 2]`, "null", "7"}[arg%6], true, nil
	case "jbj": // bytes that happen to be a JSON document: encoded like any []byte (base64 text)
		return [][]byte{[]byte("7"), []byte(`{"a":1}`), []byte("[]"), []byte("true")}[arg%4], false, nil
	case "jchan":
		return map[string]interface{}{"ok": 1.0, "c": make(chan int)}, false, nil
	case "jfunc":
		return []interface{}{"x", func() {}}, false, nil
	case "jnan":
		return []interface{}{1.0, math.NaN()}, false, nil
	case "jinf":
		return math.Inf(-1), false, nil
	case "jcycle":
		m := map[string]interface{}{"k": "v"}
		m["self"] = m
		return m, false, nil
	case "jcycleptr":
		r := &jRec{Name: "loop"}
		r.Inner = r
		return r, false, nil
	case "xp":
		b.xml = true
		p := b.person()
		return p, !b.lossy, func() interface{} { return &xPerson{} }
	case "xl":
		b.xml = true
		l := b.library(arg)
		return l, !b.lossy, func() interface{} { return &xLibrary{} }
	case "xpt":
		b.xml = true
		p := xPoint{XMLName: xml.Name{Local: "pt"}, X: b.r.Int63() - b.r.Int63(), Y: int64(b.r.Intn(5)), Label: b.str()}
		return p, !b.lossy, func() interface{} { return &xPoint{} }
	case "xptr": // pointer to a struct encodes like the struct
		b.xml = true
		p := b.person()
		return &p, !b.lossy, func() interface{} { return &xPerson{} }
	case "xbadchan":
		return xBadChan{XMLName: xml.Name{Local: "bad"}, Before: "text", C: make(chan int)}, false, nil
	case "xbadcomment": // `--` inside a comment is refused after the members were encoded
		b.xml = true
		l := b.library(arg)
		l.Comment = "a--b"
		return l, false, nil
	case "xbadmap": // encoding/xml has no maps
		return map[string]int{"a": 1}, false, nil
	}
	panic("bad value spec " + spec)
}

// ------------------------------------------------------------------- reference encoders

// swallowWriter behaves like flamego's ResponseWriter for a HEAD request: it takes nothing and
// says so (0, nil). encoding/json ignores the count; encoding/xml's bufio.Writer reports
// io.ErrShortWrite. It records what was offered.
type swallowWriter struct{ offered bytes.Buffer }

func (s *swallowWriter) Write(b []byte) (int, error) { s.offered.Write(b); return 0, nil }

// refJSON / refXML: what the standard encoder does for v, given the indentation, against a
// writer that accepts everything (head=false) or swallows everything (head=true).
func refJSON(v interface{}, indent string, head bool) (out []byte, errMsg string) {
	var buf bytes.Buffer
	var sw swallowWriter
	var w io.Writer = &buf
	if head {
		w = &sw
	}
	enc := json.NewEncoder(w)
	if indent != "" {
		enc.SetIndent("", indent)
	}
	err := enc.Encode(v)
	if head {
		out = sw.offered.Bytes()
	} else {
		out = buf.Bytes()
	}
	if err != nil {
		return out, err.Error()
	}
	return out, ""
}

func refXML(v interface{}, indent string, head bool) (out []byte, errMsg string) {
	var buf bytes.Buffer
	var sw swallowWriter
	var w io.Writer = &buf
	if head {
		w = &sw
	}
	enc := xml.NewEncoder(w)
	if indent != "" {
		enc.Indent("", indent)
	}
	err := enc.Encode(v)
	if head {
		out = sw.offered.Bytes()
	} else {
		out = buf.Bytes()
	}
	if err != nil {
		return out, err.Error()
	}
	return out, ""
}

// selfCheckIndent: the reference equals Marshal / MarshalIndent of the same value (so "the
// configured indentation" is pinned by two independent entry points of the standard library).
func selfCheckIndent(kind string, v interface{}, indent string, ref []byte) {
	var alt []byte
	var err error
	switch {
	case kind == "json" && indent == "":
		alt, err = json.Marshal(v)
		alt = append(alt, '\n')
	case kind == "json":
		alt, err = json.MarshalIndent(v, "", indent)
		alt = append(alt, '\n')
	case indent == "":
		alt, err = xml.Marshal(v)
	default:
		alt, err = xml.MarshalIndent(v, "", indent)
	}
	if err != nil || !bytes.Equal(alt, ref) {
		fatal("harness self-check: encoder with indent differs from MarshalIndent for", kind, fmt.Sprintf("%q", indent))
	}
}

func onlySpace(s string) bool { return strings.Trim(s, " \t\n\r") == "" }

// decodeToken decodes a real body back and compares it with the value that was rendered.
func decodeToken(kind string, body []byte, v interface{}, fresh func() interface{}) string {
	if kind == "json" {
		if fresh == nil {
			var got interface{}
			if err := json.Unmarshal(body, &got); err != nil {
				return "decodes-ERR"
			}
			if !reflect.DeepEqual(got, v) {
				return "decodes-DIFF"
			}
			return "decodes-ok"
		}
		got := fresh()
		if err := json.Unmarshal(body, got); err != nil {
			return "decodes-ERR"
		}
		if !reflect.DeepEqual(got, v) {
			return "decodes-DIFF"
		}
		return "decodes-ok"
	}
	got := fresh()
	if err := xml.Unmarshal(body, got); err != nil {
		return "decodes-ERR"
	}
	if reflect.TypeOf(v).Kind() != reflect.Ptr {
		if !reflect.DeepEqual(reflect.ValueOf(got).Elem().Interface(), v) {
			return "decodes-DIFF"
		}
		return "decodes-ok"
	}
	if !reflect.DeepEqual(got, v) {
		return "decodes-DIFF"
	}
	return "decodes-ok"
}

// ----------------------------------------------------------------------------- executor

type preAtom struct {
	kind string
	code int
	data string
}

func parsePre(s string) []preAtom {
	if s == "n" {
		return nil
	}
	var out []preAtom
	for _, a := range strings.Split(s, ",") {
		p := strings.SplitN(a, ":", 2)
		if len(p) != 2 {
			continue
		}
		switch p[0] {
		case "c", "w":
			out = append(out, preAtom{kind: p[0], data: unhx(p[1])})
		case "h":
			out = append(out, preAtom{kind: "h", code: atoi(p[1])})
		case "x":
			// the request's context is cancelled (a derived context, cancelled at once) before the render call: the
			// handler is still running and what it renders is still the response (the model ignores the atom)
			out = append(out, preAtom{kind: "x"})
		}
	}
	return out
}

func execRender(args []string, lines [][]string) []string {
	method := args[0]
	opts := flamego.RenderOptions{Charset: unhx(args[1]), JSONIndent: unhx(args[2]), XMLIndent: unhx(args[3])}
	// the run-time environment is no input of rendering: every session picks one of the three by its own arguments
	// (before the Renderer is constructed) and what is sent must not depend on it
	h := len(lines)
	for _, a := range args {
		for i := 0; i < len(a); i++ {
			h = h*31 + int(a[i])
		}
	}
	if h < 0 {
		h = -h
	}
	flamego.SetEnv([]flamego.EnvType{flamego.EnvTypeDev, flamego.EnvTypeProd, flamego.EnvTypeTest}[h%3])
	defer flamego.SetEnv(flamego.EnvTypeDev)
	f := flamego.NewWithLogger(io.Discard)
	f.Use(flamego.Renderer(opts))
	var action func(c flamego.Context, r flamego.Render)
	f.Any("/", func(c flamego.Context, r flamego.Render) { action(c, r) })

	var srv *httptest.Server // started on the first `wire` request of the session
	outs := []string{"new"}
	for _, l := range lines {
		if len(l) == 3 && l[0] == "V" {
			outs = append(outs, execVisibility(l[1], l[2]))
			continue
		}
		if len(l) < 5 || l[0] != "R" {
			outs = append(outs, "bad-op")
			continue
		}
		kind, status, pre := l[1], atoi(l[2]), parsePre(l[3])
		var v interface{}
		var fresh func() interface{}
		rt, encFailed := false, false
		switch {
		case (kind == "bin" || kind == "txt") && len(l) == 6:
		case (kind == "json" || kind == "xml") && len(l) == 9:
			v, _, fresh = buildValue(l[5])
			rt = l[4] == "1"
			encFailed = l[7] != "ok"
		default:
			outs = append(outs, "bad-op")
			continue
		}
		action = func(c flamego.Context, r flamego.Render) {
			w := c.ResponseWriter()
			for _, a := range pre {
				switch a.kind {
				case "c":
					w.Header().Set("Content-Type", a.data)
				case "h":
					w.WriteHeader(a.code)
				case "w":
					_, _ = w.Write([]byte(a.data))
				case "x":
					ctx, cancel := context.WithCancel(c.Request().Context())
					c.Request().Request = c.Request().Request.WithContext(ctx)
					cancel()
				}
			}
			switch kind {
			case "bin":
				r.Binary(status, []byte(unhx(l[4])))
			case "txt":
				r.PlainText(status, unhx(l[4]))
			case "json":
				r.JSON(status, v)
			case "xml":
				r.XML(status, v)
			}
		}
		rec := httptest.NewRecorder()
		// the URL's query is no input of rendering either: every op carries one chosen by its own text
		qh := 0
		for _, f := range l {
			for i := 0; i < len(f); i++ {
				qh = (qh*131 + int(f[i])) & 0xffffff
			}
		}
		req := httptest.NewRequest(method, "/"+[]string{"", "", "?=", "?=1", "?pretty=true", "?a=b&=true", "?indent=%20%20", "?pretty", "?format=xml&callback=f"}[qh%9], nil)
		panicked := false
		func() {
			defer func() {
				if r := recover(); r != nil {
					panicked = true
				}
			}()
			f.ServeHTTP(rec, req)
		}()
		if panicked {
			outs = append(outs, "panic")
			continue
		}
		body := rec.Body.Bytes()
		dec := "-"
		if kind == "json" || kind == "xml" {
			switch {
			case encFailed:
				dec = "enc-error"
			case method == "HEAD":
				dec = "decodes-nobody"
			case !rt:
				dec = "decodes-skip"
			default:
				// the body of THIS render call is what follows the pre-written bytes
				skip := 0
				for _, a := range pre {
					if a.kind == "w" {
						skip += len(a.data)
					}
				}
				if skip > len(body) {
					dec = "decodes-ERR"
				} else {
					dec = decodeToken(kind, body[skip:], v, fresh)
				}
			}
		}
		sent := rec.Result().Header
		lenTok := "len=none"
		if cl, ok := sent["Content-Length"]; ok {
			lenTok = "len=bad"
			if len(cl) == 1 && cl[0] == fmt.Sprint(len(body)) {
				lenTok = "len=ok"
			}
		}
		wireTok := "wire=-"
		if l[len(l)-1] == "1" {
			if srv == nil {
				srv = httptest.NewUnstartedServer(f)
				srv.Config.ErrorLog = log.New(io.Discard, "", 0)
				srv.Start()
				defer srv.Close()
			}
			wireTok = wireCheck(srv, method, rec.Code, sent.Get("Content-Type"), body)
		}
		outs = append(outs, fmt.Sprintf("%d live=%s sent=%s %s %s %s %s", rec.Code, showHeader(rec.Header()),
			showHeader(sent), hx(string(body)), dec, lenTok, wireTok))
	}
	return outs
}

// header names whose values are printed; any other header appears by name only
var shownValues = map[string]bool{"Content-Type": true, "X-Content-Type-Options": true, "Content-Length": true}

// showHeader lists every header, sorted by name: `name:hexvalue` for the ones above, else the bare name.
func showHeader(h http.Header) string {
	var items []string
	for k, vs := range h {
		if shownValues[k] {
			items = append(items, k+":"+hx(strings.Join(vs, "\x00")))
		} else {
			items = append(items, k)
		}
	}
	if len(items) == 0 {
		return "-"
	}
	sort.Strings(items)
	return strings.Join(items, ",")
}

// wireCheck serves the same request once more through a real net/http server and client and
// compares what the CLIENT receives with what the recorder was handed (status, the Content-Type
// if one was set, every body byte). A Content-Length that disagrees with the body shows up here
// the way a user sees it: a truncated or empty body, or a failed read.
func wireCheck(srv *httptest.Server, method string, code int, ctype string, body []byte) string {
	req, err := http.NewRequest(method, srv.URL+"/", nil)
	if err != nil {
		return "wire=bad"
	}
	client := srv.Client()
	client.CheckRedirect = func(*http.Request, []*http.Request) error { return http.ErrUseLastResponse }
	resp, err := client.Do(req)
	if err != nil {
		return "wire=bad"
	}
	defer resp.Body.Close()
	got, err := io.ReadAll(resp.Body)
	if err != nil || resp.StatusCode != code || !bytes.Equal(got, body) {
		return "wire=bad"
	}
	if ctype != "" && resp.Header.Get("Content-Type") != ctype {
		return "wire=bad"
	}
	return "wire=ok"
}

// ---- visibility ----------------------------------------------------------------------

type otherThing struct{ n int }

type vstate struct {
	lastRan int
	ptrs    []flamego.Render
}

func execVisibility(chainA, chainB string) string {
	f := flamego.NewWithLogger(io.Discard)
	var cur *vstate
	build := func(chain string) []flamego.Handler {
		var hs []flamego.Handler
		nR := 0
		for i, c := range chain {
			idx := i
			switch c {
			case 'R':
				hs = append(hs, flamego.Renderer(flamego.RenderOptions{Charset: fmt.Sprintf("c%d", nR)}))
				nR++
			case 'P':
				hs = append(hs, func(r flamego.Render) { cur.lastRan = idx; cur.ptrs = append(cur.ptrs, r) })
			case 'O':
				hs = append(hs, func(c flamego.Context) { cur.lastRan = idx; c.Map(&otherThing{idx}) })
			case 'N':
				hs = append(hs, func() { cur.lastRan = idx })
			case 'F':
				hs = append(hs, func(r flamego.Render) { cur.lastRan = idx; r.PlainText(200, "ok") })
			case 'G':
				hs = append(hs, func(w http.ResponseWriter) { cur.lastRan = idx; _, _ = w.Write([]byte("plain")) })
			}
		}
		return hs
	}
	f.Get("/a", build(chainA)...)
	f.Get("/b", build(chainB)...)
	var all [][]flamego.Render
	one := func(path, chain string) string {
		cur = &vstate{lastRan: -1}
		st := cur
		rec := httptest.NewRecorder()
		panicked := false
		func() {
			defer func() {
				if r := recover(); r != nil {
					panicked = true
				}
			}()
			f.ServeHTTP(rec, httptest.NewRequest("GET", path, nil))
		}()
		all = append(all, st.ptrs)
		if panicked {
			// the handler that could not be invoked: the first one after the last that ran which
			// asks for Render (Renderer itself only needs the Context)
			for i := st.lastRan + 1; i < len(chain); i++ {
				if chain[i] == 'P' || chain[i] == 'F' {
					return fmt.Sprintf("unresolved@%d", i)
				}
			}
			return "panic-elsewhere"
		}
		var seen []flamego.Render
		var ids []string
		for _, p := range st.ptrs {
			k := -1
			for j, q := range seen {
				if q == p {
					k = j
				}
			}
			if k < 0 {
				k = len(seen)
				seen = append(seen, p)
			}
			ids = append(ids, fmt.Sprint(k))
		}
		idStr := "-"
		if len(ids) > 0 {
			idStr = strings.Join(ids, ".")
		}
		switch chain[len(chain)-1] {
		case 'F':
			if rec.Body.String() != "ok" {
				return idStr + ";wrong-body"
			}
			return idStr + ";" + hx(rec.Header().Get("Content-Type"))
		case 'G':
			if rec.Body.String() != "plain" {
				return idStr + ";wrong-body"
			}
			return idStr + ";plain"
		}
		return "no-final"
	}
	ra := one("/a", chainA)
	rb := one("/b", chainB)
	ra2 := one("/a", chainA)
	cross := "fresh"
	for i := range all {
		for j := i + 1; j < len(all); j++ {
			for _, p := range all[i] {
				for _, q := range all[j] {
					if p == q {
						cross = "reused"
					}
				}
			}
		}
	}
	return fmt.Sprintf("a=%s b=%s a2=%s cross=%s", ra, rb, ra2, cross)
}

// ---------------------------------------------------------------------------- generator

var (
	renderCharsets = []string{"", "utf-8", "gbk", "Shift_JIS", "ISO_8859-1:1987", "x-user-defined-charset-of-more-than-forty-bytes"}
	renderIndents  = []string{"", "  ", "\t"}
	renderMethods  = []string{"GET", "HEAD", "POST"}
	oddCharsets    = []string{"UTF-16", "iso-8859-1", "x y", "\"q\"", "ü"}
	oddIndents     = []string{" ", "    ", " \t", "\n", "--"}
	specialCodes   = []int{100, 101, 103, 204, 304, 600, 999}
	byteSamples    = []string{"", "a", "hello, world\n", "héllo wörld", "世界 😀 ñ", "é", "mixed \xe4\xb8\x96 then broken \xe4\xb8", "\xf0\x9f\x98", "\x00\x01\x02\xff\xfe", "\xc3\x28 not utf-8 \x80", "<html>&amp;</html>",
		"{\"json\":true}", strings.Repeat("0123456789abcdef", 300)}
)

func renderRandBytes(r *rand.Rand) string {
	if r.Intn(3) == 0 {
		return byteSamples[r.Intn(len(byteSamples))]
	}
	n := r.Intn(40)
	if r.Intn(10) == 0 {
		n = r.Intn(6000)
	}
	b := make([]byte, n)
	r.Read(b)
	return string(b)
}

func randStatus(r *rand.Rand) int {
	if r.Intn(6) == 0 {
		return specialCodes[r.Intn(len(specialCodes))]
	}
	return 200 + r.Intn(400)
}

func randPre(r *rand.Rand) string {
	switch r.Intn(12) {
	case 0:
		return fmt.Sprintf("h:%d", randStatus(r))
	case 1:
		return "w:" + hx("pre")
	case 2:
		return fmt.Sprintf("h:%d,w:%s", randStatus(r), hx("x"))
	case 3:
		return "c:" + hx("image/png")
	case 4:
		return "c:" + hx("image/png") + ",w:" + hx("")
	default:
		return "n"
	}
}

// encodedOp builds an `R json|xml …` line for the value spec under the session's indentation.
// wireSampler decides which requests are also served over a real connection: every 20th, and
// every 3rd PlainText whose text has multi-byte or invalid UTF-8 (where bytes ≠ runes) — but only
// where net/http transmits what it is handed: not HEAD, every status involved in 200..599 except
// 204 and 304 (1xx are informational on the wire, 204/304 carry no body).
type wireSampler struct{ n, mb int }

func wireCode(c int) bool { return c >= 200 && c <= 599 && c != 204 && c != 304 }

func (ws *wireSampler) flag(method, kind string, status int, pre, payload string) int {
	ws.n++
	pick := ws.n%20 == 0
	if kind == "txt" && utf8.RuneCountInString(payload) != len(payload) {
		ws.mb++
		pick = pick || ws.mb%3 == 0
	}
	if !pick || method == "HEAD" || !wireCode(status) {
		return 0
	}
	for _, a := range parsePre(pre) {
		if a.kind == "h" && !wireCode(a.code) {
			return 0
		}
	}
	return 1
}

func encodedOp(ws *wireSampler, method, kind string, status int, pre, spec, indent string) string {
	head := method == "HEAD"
	v, rt, _ := buildValue(spec)
	var ref []byte
	var errMsg string
	if kind == "json" {
		ref, errMsg = refJSON(v, indent, head)
	} else {
		ref, errMsg = refXML(v, indent, head)
	}
	res := "ok"
	if errMsg != "" {
		res = "err:" + hx(errMsg)
		rt = false
	} else if !head {
		selfCheckIndent(kind, v, indent, ref)
	}
	if !onlySpace(indent) {
		rt = false // a non-blank "indent" makes the output something the decoders need not accept
	}
	rtf := 0
	if rt {
		rtf = 1
	}
	return fmt.Sprintf("R %s %d %s %d %s %s %s %d", kind, status, pre, rtf, spec, hx(string(ref)), res,
		ws.flag(method, kind, status, pre, ""))
}

var (
	jsonBad = []string{"jchan", "jfunc", "jnan", "jinf", "jcycle", "jcycleptr"}
	xmlBad  = []string{"xbadchan", "xbadmap", "xbadcomment:%d:1", "xbadcomment:%d:40"}
)

func randJSONSpec(r *rand.Rand) string {
	switch k := r.Intn(20); {
	case k < 10:
		return fmt.Sprintf("jv:%d:%d", r.Intn(1<<30), r.Intn(5))
	case k < 16:
		return fmt.Sprintf("jr:%d:%d", r.Intn(1<<30), r.Intn(3))
	case k < 17:
		return []string{"jmap", fmt.Sprintf("jsj:0:%d", r.Intn(6)), fmt.Sprintf("jbj:0:%d", r.Intn(4))}[r.Intn(3)]
	default:
		return jsonBad[r.Intn(len(jsonBad))]
	}
}

func randXMLSpec(r *rand.Rand) string {
	switch k := r.Intn(20); {
	case k < 6:
		return fmt.Sprintf("xp:%d", r.Intn(1<<30))
	case k < 8:
		return fmt.Sprintf("xptr:%d", r.Intn(1<<30))
	case k < 13:
		n := r.Intn(4)
		if r.Intn(12) == 0 {
			n = 30 + r.Intn(30) // more than one 4096-byte flush of the encoder's buffer
		}
		return fmt.Sprintf("xl:%d:%d", r.Intn(1<<30), n)
	case k < 17:
		return fmt.Sprintf("xpt:%d", r.Intn(1<<30))
	default:
		s := xmlBad[r.Intn(len(xmlBad))]
		if strings.Contains(s, "%d") {
			return fmt.Sprintf(s, r.Intn(1<<30))
		}
		return s
	}
}

// pickRT returns the first spec of the family that must survive the round trip and is not tiny
func pickRT(format string) string {
	for seed := 1; ; seed++ {
		spec := fmt.Sprintf(format, seed)
		v, rt, _ := buildValue(spec)
		if !rt {
			continue
		}
		ref, _ := refJSON(v, "", false)
		if strings.HasPrefix(spec, "x") {
			ref, _ = refXML(v, "", false)
		}
		if len(ref) >= 40 {
			return spec
		}
	}
}

var chainLetters = "RPON"

func randChain(r *rand.Rand) string {
	n := r.Intn(6)
	var sb strings.Builder
	for i := 0; i < n; i++ {
		sb.WriteByte(chainLetters[r.Intn(len(chainLetters))])
	}
	if r.Intn(3) == 0 {
		sb.WriteByte('G')
	} else {
		sb.WriteByte('F')
	}
	return sb.String()
}

func genRender(r *rand.Rand, tier string, emit Emit) {
	thorough := tier == "thorough"
	ws := &wireSampler{}
	// ---- small scope, exhaustive: every method × charset × json indent × xml indent, and in each
	// every kind × status × pre × a few payloads
	statuses := []int{200, 404, 204, 100}
	pres := []string{"n", "h:202", "w:" + hx("pre"), "c:" + hx("image/png"), "x:1"}
	if thorough {
		statuses = []int{200, 201, 404, 500, 204, 304, 100, 599, 999}
		pres = append(pres, "h:202,w:"+hx("x"), "c:"+hx("image/png")+",h:500", "w:"+hx(""))
	}
	bins := []string{"", "a", "\x00\xff\xfe\x80", "héllo 世界 😀"}
	jsons := []string{pickRT("jv:%d:2"), "jmap", pickRT("jr:%d:1"), "jchan"}
	xmls := []string{pickRT("xpt:%d"), pickRT("xp:%d"), pickRT("xl:%d:2"), "xbadchan"}
	for _, m := range renderMethods {
		for _, cs := range renderCharsets {
			for _, ji := range renderIndents {
				for _, xi := range renderIndents {
					emit("NEW render %s %s %s %s", m, hx(cs), hx(ji), hx(xi))
					for _, st := range statuses {
						for _, pre := range pres {
							for _, b := range bins {
								emit("R bin %d %s %s %d", st, pre, hx(b), ws.flag(m, "bin", st, pre, b))
								emit("R txt %d %s %s %d", st, pre, hx(b), ws.flag(m, "txt", st, pre, b))
							}
							for _, s := range jsons {
								emit("%s", encodedOp(ws, m, "json", st, pre, s, ji))
							}
							for _, s := range xmls {
								emit("%s", encodedOp(ws, m, "xml", st, pre, s, xi))
							}
						}
					}
				}
			}
		}
	}
	// ---- visibility, exhaustive over short chains
	var chains []string
	var rec func(prefix string, n int)
	rec = func(prefix string, n int) {
		chains = append(chains, prefix+"F", prefix+"G")
		if n == 0 {
			return
		}
		for _, c := range chainLetters {
			rec(prefix+string(c), n-1)
		}
	}
	depth := 2
	if thorough {
		depth = 3
	}
	rec("", depth)
	emit("NEW render GET - - -")
	bs := []string{"F", "G", "RF", "PF", "RPRPF"}
	for _, a := range chains {
		for _, b := range bs {
			emit("V %s %s", a, b)
		}
	}
	// ---- random sessions
	n := 700
	if thorough {
		n = 30000
	}
	for i := 0; i < n; i++ {
		cs := renderCharsets[r.Intn(len(renderCharsets))]
		ji := renderIndents[r.Intn(len(renderIndents))]
		xi := renderIndents[r.Intn(len(renderIndents))]
		if r.Intn(8) == 0 {
			cs = oddCharsets[r.Intn(len(oddCharsets))]
		}
		if r.Intn(8) == 0 {
			ji = oddIndents[r.Intn(len(oddIndents))]
		}
		if r.Intn(8) == 0 {
			xi = oddIndents[r.Intn(len(oddIndents))]
		}
		m := renderMethods[r.Intn(len(renderMethods))]
		if r.Intn(3) > 0 {
			m = "GET"
		}
		emit("NEW render %s %s %s %s", m, hx(cs), hx(ji), hx(xi))
		ops := 1 + r.Intn(8)
		for j := 0; j < ops; j++ {
			st, pre := randStatus(r), randPre(r)
			switch k := r.Intn(20); {
			case k < 4:
				b := renderRandBytes(r)
				emit("R bin %d %s %s %d", st, pre, hx(b), ws.flag(m, "bin", st, pre, b))
			case k < 8:
				b := renderRandBytes(r)
				emit("R txt %d %s %s %d", st, pre, hx(b), ws.flag(m, "txt", st, pre, b))
			case k < 13:
				emit("%s", encodedOp(ws, m, "json", st, pre, randJSONSpec(r), ji))
			case k < 18:
				emit("%s", encodedOp(ws, m, "xml", st, pre, randXMLSpec(r), xi))
			default:
				emit("V %s %s", randChain(r), randChain(r))
			}
		}
	}
}
