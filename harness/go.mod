module verif/harness

go 1.19

require (
	github.com/alecthomas/participle/v2 v2.1.4
	github.com/charmbracelet/log v0.4.1
	github.com/flamego/flamego v0.0.0
)

require (
	github.com/aymanbagabas/go-osc52/v2 v2.0.1 // indirect
	github.com/charmbracelet/lipgloss v1.0.0 // indirect
	github.com/charmbracelet/x/ansi v0.4.2 // indirect
	github.com/go-logfmt/logfmt v0.6.0 // indirect
	github.com/lucasb-eyer/go-colorful v1.2.0 // indirect
	github.com/mattn/go-isatty v0.0.20 // indirect
	github.com/muesli/termenv v0.16.0 // indirect
	github.com/pkg/errors v0.9.1 // indirect
	github.com/rivo/uniseg v0.4.7 // indirect
	golang.org/x/sys v0.30.0 // indirect
)

replace github.com/flamego/flamego => /repo
