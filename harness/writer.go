package main

// C13 — responseWriter against a spy http.ResponseWriter.

import (
	"net/http/httptest"
	"fmt"
	"io"
	"math/rand"
	"net/http"
	"strings"

	"github.com/flamego/flamego"
)

type spyWriter struct {
	hdr    http.Header
	events []string
	fwd    int  // what the next Write will accept
	fail   bool // … and whether it reports an error on top (a connection reset mid-body)
}

func (s *spyWriter) Header() http.Header { return s.hdr }
func (s *spyWriter) WriteHeader(c int)   { s.events = append(s.events, fmt.Sprintf("hdr%d", c)) }
func (s *spyWriter) Write(b []byte) (int, error) {
	n := s.fwd
	if n > len(b) {
		n = len(b)
	}
	s.events = append(s.events, fmt.Sprintf("body%d", n))
	if s.fail {
		return n, fmt.Errorf("connection reset")
	}
	return n, nil
}
func (s *spyWriter) Flush() { s.events = append(s.events, "flush") }

// like net/http's own response the client's writer offers io.ReaderFrom (everything still arrives through Write)
func (s *spyWriter) ReadFrom(r io.Reader) (int64, error) {
	b, _ := io.ReadAll(r)
	n, err := s.Write(b)
	return int64(n), err
}

type zeroReader struct{}

func (zeroReader) Read(p []byte) (int, error) {
	for i := range p {
		p[i] = 0
	}
	return len(p), nil
}

func init() {
	execs["writer"] = execWriter
	execs["writer2"] = execWriter2
	execs["writerf"] = execWriterFlame
	gens["C13"] = genWriter
}

// execWriter2: a flamego writer whose underlying http.ResponseWriter is another flamego writer (an application
// mounted inside a handler, a sub-request served with the caller's writer).  `W o …` / `W i …` address the outer /
// the inner writer; the spy is the client underneath the outer one.
func execWriter2(args []string, lines [][]string) []string {
	om, im := "GET", "GET"
	if len(args) > 1 {
		om, im = args[0], args[1]
	}
	spy := &spyWriter{hdr: http.Header{}}
	outer := flamego.NewResponseWriter(om, spy)
	inner := flamego.NewResponseWriter(im, outer)
	outs := []string{"new"}
	b2i := func(b bool) int {
		if b {
			return 1
		}
		return 0
	}
	for _, l := range lines {
		if len(l) == 1 && l[0] == "END" {
			tr := "none"
			if len(spy.events) > 0 {
				tr = strings.Join(spy.events, ",")
			}
			outs = append(outs, "trace "+tr)
			continue
		}
		if len(l) < 3 || (l[1] != "o" && l[1] != "i") {
			outs = append(outs, "bad-op")
			continue
		}
		w, tag := outer, "hook"
		if l[1] == "i" {
			w, tag = inner, "ihook"
		}
		op := l[2:]
		obs := 0
		func() {
			defer func() {
				if r := recover(); r != nil {
					obs = -1
				}
			}()
			switch {
			case len(op) == 2 && op[0] == "wh":
				w.WriteHeader(atoi(op[1]))
			case len(op) == 3 && op[0] == "wc" && atoi(op[1]) > 0:
				spy.fail = false
				spy.fwd = atoi(op[2])
				n, _ := io.Copy(w, io.LimitReader(zeroReader{}, int64(atoi(op[1]))))
				obs = int(n)
			case len(op) == 3 && (op[0] == "w" || op[0] == "we" || op[0] == "wc"):
				spy.fail = op[0] == "we"
				spy.fwd = atoi(op[2])
				n, _ := w.Write(make([]byte, atoi(op[1])))
				obs = n
			case len(op) == 1 && op[0] == "fl":
				w.Flush()
			case len(op) == 2 && op[0] == "bf":
				id := op[1]
				w.Before(func(rw flamego.ResponseWriter) {
					spy.events = append(spy.events, fmt.Sprintf("%s%s:%d", tag, id, rw.Status()))
				})
			case len(op) == 2 && op[0] == "bfr":
				id := op[1]
				w.Before(func(rw flamego.ResponseWriter) {
					spy.events = append(spy.events, fmt.Sprintf("%s%s:%d", tag, id, rw.Status()))
					rw.Before(func(rw2 flamego.ResponseWriter) {
						spy.events = append(spy.events, fmt.Sprintf("%s9%s:%d", tag, id, rw2.Status()))
					})
				})
			case len(op) == 1 && op[0] == "st":
				obs = w.Status()
			case len(op) == 1 && op[0] == "sz":
				obs = w.Size()
			case len(op) == 1 && op[0] == "wr":
				obs = b2i(w.Written())
			default:
				obs = -2
			}
		}()
		if obs == -2 {
			outs = append(outs, "bad-op")
			continue
		}
		outs = append(outs, fmt.Sprintf("%d %d %d %d %d %d %d %d", obs, outer.Status(), outer.Size(), b2i(outer.Written()),
			inner.Status(), inner.Size(), b2i(inner.Written()), len(spy.events)))
	}
	return outs
}

func execWriter(args []string, lines [][]string) []string {
	method := "GET"
	if len(args) > 0 && args[0] == "1" {
		method = "HEAD"
	} else if len(args) > 1 {
		method = args[1]
	}
	spy := &spyWriter{hdr: http.Header{}}
	w := flamego.NewResponseWriter(method, spy)
	outs := []string{"new"}
	b2i := func(b bool) int {
		if b {
			return 1
		}
		return 0
	}
	for _, l := range lines {
		if len(l) == 1 && l[0] == "END" {
			tr := "none"
			if len(spy.events) > 0 {
				tr = strings.Join(spy.events, ",")
			}
			outs = append(outs, "trace "+tr)
			continue
		}
		obs := 0
		func() {
			defer func() {
				if r := recover(); r != nil {
					obs = -1
				}
			}()
			switch {
			case len(l) == 3 && l[1] == "wh":
				w.WriteHeader(atoi(l[2]))
			case len(l) == 4 && l[1] == "wc" && atoi(l[2]) > 0:
				// the same bytes through io.Copy from a source without WriteTo (what io.CopyN / http.ServeContent do)
				spy.fail = false
				spy.fwd = atoi(l[3])
				n, _ := io.Copy(w, io.LimitReader(zeroReader{}, int64(atoi(l[2]))))
				obs = int(n)
			case len(l) == 4 && (l[1] == "w" || l[1] == "we" || l[1] == "wc"):
				// "we": the underlying writer forwards `fwd` bytes AND returns an error
				spy.fail = l[1] == "we"
				spy.fwd = atoi(l[3])
				n, _ := w.Write(make([]byte, atoi(l[2])))
				obs = n
			case len(l) == 2 && l[1] == "fl":
				w.Flush()
			case len(l) == 3 && l[1] == "bf":
				id := l[2]
				w.Before(func(rw flamego.ResponseWriter) {
					// what the hook itself observes: nothing has been reported as written yet
					spy.events = append(spy.events, fmt.Sprintf("hook%s:%d", id, rw.Status()))
				})
			case len(l) == 3 && l[1] == "bfr":
				// a hook that registers ANOTHER hook while the commit is running: the late hook was not registered
				// before the commit, so it never runs (it would show as hook9<id>), and every hook registered
				// before still runs exactly once, newest first
				id := l[2]
				w.Before(func(rw flamego.ResponseWriter) {
					spy.events = append(spy.events, fmt.Sprintf("hook%s:%d", id, rw.Status()))
					rw.Before(func(rw2 flamego.ResponseWriter) {
						spy.events = append(spy.events, fmt.Sprintf("hook9%s:%d", id, rw2.Status()))
					})
				})
			case len(l) == 2 && l[1] == "st":
				obs = w.Status()
			case len(l) == 2 && l[1] == "sz":
				obs = w.Size()
			case len(l) == 2 && l[1] == "wr":
				obs = b2i(w.Written())
			default:
				obs = -2
			}
		}()
		if obs == -2 {
			outs = append(outs, "bad-op")
			continue
		}
		outs = append(outs, fmt.Sprintf("%d %d %d %d %d", obs, w.Status(), w.Size(), b2i(w.Written()), len(spy.events)))
	}
	return outs
}

// execWriterFlame: the response writer a handler is GIVEN (c.ResponseWriter() of a real Flame), one request per line.
//	NEW writerf <method> [rec]      rec: flamego.Recovery() is the first middleware of the instance
//	RQ <op> <op> …        op = wh:<code> | w:<len>:<fwd> | fl | bf:<id> | st | sz | wr | pn:<fwd>
// `pn:<fwd>`: the handler panics at this point (the operations behind it never happen).  Without Recovery the panic
// leaves ServeHTTP (`panic` is the request's last observation); with Recovery the error page is the next thing that
// happens to the SAME writer — a status line and a body (of which the client accepts <fwd> bytes) — whatever the
// handler had done to it before: hooks it registered and that have not run yet run now, before that status line.
// Every request starts from a writer on which nothing has happened: whatever an earlier request of the same
// instance did to ITS writer (hooks registered and never fired, a status, a size) is not there.
// out: the observation of every op (as in `writer` sessions) joined by ';', then the client's trace.
func execWriterFlame(args []string, lines [][]string) []string {
	method := "GET"
	if len(args) > 0 {
		method = args[0]
	}
	var ops []string
	var spy *spyWriter
	var res []string
	f := flamego.NewWithLogger(io.Discard)
	if len(args) > 1 && args[1] == "rec" {
		f.Use(flamego.Recovery())
	}
	f.Any("/", func(c flamego.Context) {
		w := c.ResponseWriter()
		for _, op := range ops {
			p := strings.Split(op, ":")
			obs := 0
			switch {
			case p[0] == "wh" && len(p) == 2:
				w.WriteHeader(atoi(p[1]))
			case p[0] == "w" && len(p) == 3:
				spy.fwd = atoi(p[2])
				n, _ := w.Write(make([]byte, atoi(p[1])))
				obs = n
			case p[0] == "fl":
				w.Flush()
			case p[0] == "pn" && len(p) == 2:
				spy.fail = false
				spy.fwd = atoi(p[1])
				panic("handler panics")
			case p[0] == "bf" && len(p) == 2:
				id := p[1]
				w.Before(func(rw flamego.ResponseWriter) {
					spy.events = append(spy.events, fmt.Sprintf("hook%s:%d", id, rw.Status()))
				})
			case p[0] == "bfr" && len(p) == 2:
				id := p[1]
				w.Before(func(rw flamego.ResponseWriter) {
					spy.events = append(spy.events, fmt.Sprintf("hook%s:%d", id, rw.Status()))
					rw.Before(func(rw2 flamego.ResponseWriter) {
						spy.events = append(spy.events, fmt.Sprintf("hook9%s:%d", id, rw2.Status()))
					})
				})
			case p[0] == "st":
				obs = w.Status()
			case p[0] == "sz":
				obs = w.Size()
			case p[0] == "wr":
				if w.Written() {
					obs = 1
				}
			default:
				res = append(res, "bad")
				continue
			}
			wr := 0
			if w.Written() {
				wr = 1
			}
			res = append(res, fmt.Sprintf("%d %d %d %d", obs, w.Status(), w.Size(), wr))
		}
	})
	outs := []string{"new"}
	for _, l := range lines {
		if len(l) < 1 || l[0] != "RQ" {
			outs = append(outs, "bad-op")
			continue
		}
		ops, res = l[1:], nil
		spy = &spyWriter{hdr: http.Header{}}
		func() {
			defer func() {
				if r := recover(); r != nil {
					res = append(res, "panic")
				}
			}()
			f.ServeHTTP(spy, httptest.NewRequest(method, "/", nil))
		}()
		tr := "none"
		if len(spy.events) > 0 {
			tr = strings.Join(spy.events, ",")
		}
		outs = append(outs, strings.Join(res, ";")+" | "+tr)
	}
	return outs
}

var writerCodes = []int{100, 101, 103, 199, 200, 201, 204, 301, 404, 500, 999}

func writerOp(r *rand.Rand, hook *int) string {
	switch k := r.Intn(20); {
	case k < 4:
		return fmt.Sprintf("W wh %d", writerCodes[r.Intn(len(writerCodes))])
	case k < 9:
		n := r.Intn(6)
		f := n
		if r.Intn(3) == 0 {
			f = r.Intn(n + 1)
		}
		if r.Intn(5) == 0 {
			return fmt.Sprintf("W we %d %d", n, f)
		}
		if r.Intn(4) == 0 {
			return fmt.Sprintf("W wc %d %d", n, n)
		}
		return fmt.Sprintf("W w %d %d", n, f)
	case k < 11:
		return "W fl"
	case k < 15:
		*hook++
		if r.Intn(4) == 0 {
			return fmt.Sprintf("W bfr %d", *hook)
		}
		return fmt.Sprintf("W bf %d", *hook)
	case k < 17:
		return "W st"
	case k < 18:
		return "W sz"
	default:
		return "W wr"
	}
}

func genWriter(r *rand.Rand, tier string, emit Emit) {
	// exhaustive small scope first, then random longer sequences
	alphabet := []string{"W wh 201", "W wh 404", "W w 3 3", "W w 3 1", "W we 3 2", "W w 0 0", "W fl", "W bf %d", "W st", "W wr", "W wc 3 3", "W bfr %d"}
	depth, random := 3, 3000
	if tier == "thorough" {
		depth, random = 5, 100000
	}
	var rec func(seq []string)
	rec = func(seq []string) {
		for _, head := range []string{"0", "1"} {
			emit("NEW writer %s", head)
			h := 0
			for _, op := range seq {
				if strings.Contains(op, "%d") {
					h++
					emit(op, h)
				} else {
					emit("%s", op)
				}
			}
			emit("END")
		}
		if len(seq) == depth {
			return
		}
		for _, a := range alphabet {
			rec(append(seq[:len(seq):len(seq)], a))
		}
	}
	rec(nil)
	for i := 0; i < random; i++ {
		emit("NEW writer %d", r.Intn(2))
		h := 0
		n := r.Intn(14)
		for j := 0; j < n; j++ {
			emit("%s", writerOp(r, &h))
		}
		emit("END")
	}
	// the writer a handler is given by a real Flame: several requests on one instance, each must start afresh
	tok := func(op string) string {
		f := strings.Fields(op)[1:]
		return strings.Join(f, ":")
	}
	for i := 0; i < random/4; i++ {
		// two sessions in three have Recovery in front of the handler; a request in three of every session ends in a
		// panic of the handler, at any point of its operations (nothing done yet, hooks registered, status sent, body sent)
		recArg := ""
		if i%3 != 0 {
			recArg = " rec"
		}
		emit("NEW writerf %s%s", []string{"GET", "HEAD", "POST"}[r.Intn(3)], recArg)
		for q := 2 + r.Intn(4); q > 0; q-- {
			h := 0
			var toks []string
			switch r.Intn(4) {
			case 0: // registers hooks (and reads), never commits: the hooks must die with the request
				for k := 1 + r.Intn(3); k > 0; k-- {
					h++
					toks = append(toks, fmt.Sprintf("bf:%d", 10*q+h), []string{"st", "sz", "wr"}[r.Intn(3)])
				}
			default:
				for k := r.Intn(6); k > 0; k-- {
					op := writerOp(r, &h)
					if strings.HasPrefix(op, "W we") || strings.HasPrefix(op, "W wc") {
						op = "W fl"
					}
					toks = append(toks, tok(op))
				}
			}
			if r.Intn(3) == 0 {
				cut := r.Intn(len(toks) + 1)
				toks = append(toks[:cut:cut], fmt.Sprintf("pn:%d", r.Intn(10)))
			}
			emit("RQ %s", strings.Join(toks, " "))
		}
	}
	// stacks of two writers: every sequence of up to 2 (thorough: 3) operations over both levels and all four method
	// pairs, then random longer sessions
	methods := []string{"GET", "HEAD"}
	alpha2 := []string{"wh 201", "w 3 3", "w 3 1", "fl", "bf %d", "st", "sz"}
	depth2 := 2
	if tier == "thorough" {
		depth2 = 3
	}
	var rec2 func(seq []string)
	rec2 = func(seq []string) {
		if len(seq) > 0 {
			for _, om := range methods {
				for _, im := range methods {
					emit("NEW writer2 %s %s", om, im)
					h := 0
					for _, op := range seq {
						if strings.Contains(op, "%d") {
							h++
							emit(op, h)
						} else {
							emit("%s", op)
						}
					}
					emit("END")
				}
			}
		}
		if len(seq) == depth2 {
			return
		}
		for _, lvl := range []string{"o", "i"} {
			for _, a := range alpha2 {
				rec2(append(seq[:len(seq):len(seq)], "W "+lvl+" "+a))
			}
		}
	}
	rec2(nil)
	for i := 0; i < random/3; i++ {
		emit("NEW writer2 %s %s", methods[r.Intn(2)], methods[r.Intn(2)])
		h := 0
		n := r.Intn(12)
		for j := 0; j < n; j++ {
			lvl := "i"
			if r.Intn(3) == 0 {
				lvl = "o"
			}
			emit("W %s %s", lvl, strings.TrimPrefix(writerOp(r, &h), "W "))
		}
		emit("END")
	}
}
