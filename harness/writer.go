package main

// C13 — responseWriter against a spy http.ResponseWriter.

import (
	"fmt"
	"math/rand"
	"net/http"
	"strings"

	"github.com/flamego/flamego"
)

type spyWriter struct {
	hdr    http.Header
	events []string
	fwd    int  // what the next Write will accept
	fail   bool // … and whether it reports an error on top (a connection reset mid-body)
}

func (s *spyWriter) Header() http.Header { return s.hdr }
func (s *spyWriter) WriteHeader(c int)   { s.events = append(s.events, fmt.Sprintf("hdr%d", c)) }
func (s *spyWriter) Write(b []byte) (int, error) {
	n := s.fwd
	if n > len(b) {
		n = len(b)
	}
	s.events = append(s.events, fmt.Sprintf("body%d", n))
	if s.fail {
		return n, fmt.Errorf("connection reset")
	}
	return n, nil
}
func (s *spyWriter) Flush() { s.events = append(s.events, "flush") }

func init() {
	execs["writer"] = execWriter
	gens["C13"] = genWriter
}

func execWriter(args []string, lines [][]string) []string {
	method := "GET"
	if len(args) > 0 && args[0] == "1" {
		method = "HEAD"
	} else if len(args) > 1 {
		method = args[1]
	}
	spy := &spyWriter{hdr: http.Header{}}
	w := flamego.NewResponseWriter(method, spy)
	outs := []string{"new"}
	b2i := func(b bool) int {
		if b {
			return 1
		}
		return 0
	}
	for _, l := range lines {
		if len(l) == 1 && l[0] == "END" {
			tr := "none"
			if len(spy.events) > 0 {
				tr = strings.Join(spy.events, ",")
			}
			outs = append(outs, "trace "+tr)
			continue
		}
		obs := 0
		func() {
			defer func() {
				if r := recover(); r != nil {
					obs = -1
				}
			}()
			switch {
			case len(l) == 3 && l[1] == "wh":
				w.WriteHeader(atoi(l[2]))
			case len(l) == 4 && (l[1] == "w" || l[1] == "we"):
				// "we": the underlying writer forwards `fwd` bytes AND returns an error
				spy.fail = l[1] == "we"
				spy.fwd = atoi(l[3])
				n, _ := w.Write(make([]byte, atoi(l[2])))
				obs = n
			case len(l) == 2 && l[1] == "fl":
				w.Flush()
			case len(l) == 3 && l[1] == "bf":
				id := l[2]
				w.Before(func(rw flamego.ResponseWriter) {
					// what the hook itself observes: nothing has been reported as written yet
					spy.events = append(spy.events, fmt.Sprintf("hook%s:%d", id, rw.Status()))
				})
			case len(l) == 2 && l[1] == "st":
				obs = w.Status()
			case len(l) == 2 && l[1] == "sz":
				obs = w.Size()
			case len(l) == 2 && l[1] == "wr":
				obs = b2i(w.Written())
			default:
				obs = -2
			}
		}()
		if obs == -2 {
			outs = append(outs, "bad-op")
			continue
		}
		outs = append(outs, fmt.Sprintf("%d %d %d %d %d", obs, w.Status(), w.Size(), b2i(w.Written()), len(spy.events)))
	}
	return outs
}

var writerCodes = []int{100, 200, 201, 204, 301, 404, 500, 999}

func writerOp(r *rand.Rand, hook *int) string {
	switch k := r.Intn(20); {
	case k < 4:
		return fmt.Sprintf("W wh %d", writerCodes[r.Intn(len(writerCodes))])
	case k < 9:
		n := r.Intn(6)
		f := n
		if r.Intn(3) == 0 {
			f = r.Intn(n + 1)
		}
		if r.Intn(5) == 0 {
			return fmt.Sprintf("W we %d %d", n, f)
		}
		return fmt.Sprintf("W w %d %d", n, f)
	case k < 11:
		return "W fl"
	case k < 15:
		*hook++
		return fmt.Sprintf("W bf %d", *hook)
	case k < 17:
		return "W st"
	case k < 18:
		return "W sz"
	default:
		return "W wr"
	}
}

func genWriter(r *rand.Rand, tier string, emit Emit) {
	// exhaustive small scope first, then random longer sequences
	alphabet := []string{"W wh 201", "W wh 404", "W w 3 3", "W w 3 1", "W we 3 2", "W w 0 0", "W fl", "W bf %d", "W st", "W wr"}
	depth, random := 3, 3000
	if tier == "thorough" {
		depth, random = 5, 100000
	}
	var rec func(seq []string)
	rec = func(seq []string) {
		for _, head := range []string{"0", "1"} {
			emit("NEW writer %s", head)
			h := 0
			for _, op := range seq {
				if strings.Contains(op, "%d") {
					h++
					emit(op, h)
				} else {
					emit("%s", op)
				}
			}
			emit("END")
		}
		if len(seq) == depth {
			return
		}
		for _, a := range alphabet {
			rec(append(seq[:len(seq):len(seq)], a))
		}
	}
	rec(nil)
	for i := 0; i < random; i++ {
		emit("NEW writer %d", r.Intn(2))
		h := 0
		n := r.Intn(14)
		for j := 0; j < n; j++ {
			emit("%s", writerOp(r, &h))
		}
		emit("END")
	}
}
