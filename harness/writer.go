package main

// C13 — responseWriter against a spy http.ResponseWriter.

import (
	"fmt"
	"math/rand"
	"net/http"
	"strings"

	"github.com/flamego/flamego"
)

type spyWriter struct {
	hdr    http.Header
	events []string
	fwd    int  // what the next Write will accept
	fail   bool // … and whether it reports an error on top (a connection reset mid-body)
}

func (s *spyWriter) Header() http.Header { return s.hdr }
func (s *spyWriter) WriteHeader(c int)   { s.events = append(s.events, fmt.Sprintf("hdr%d", c)) }
func (s *spyWriter) Write(b []byte) (int, error) {
	n := s.fwd
	if n > len(b) {
		n = len(b)
	}
	s.events = append(s.events, fmt.Sprintf("body%d", n))
	if s.fail {
		return n, fmt.Errorf("connection reset")
	}
	return n, nil
}
func (s *spyWriter) Flush() { s.events = append(s.events, "flush") }

func init() {
	execs["writer"] = execWriter
	execs["writer2"] = execWriter2
	gens["C13"] = genWriter
}

// execWriter2: a flamego writer whose underlying http.ResponseWriter is another flamego writer (an application
// mounted inside a handler, a sub-request served with the caller's writer).  `W o …` / `W i …` address the outer /
// the inner writer; the spy is the client underneath the outer one.
func execWriter2(args []string, lines [][]string) []string {
	om, im := "GET", "GET"
	if len(args) > 1 {
		om, im = args[0], args[1]
	}
	spy := &spyWriter{hdr: http.Header{}}
	outer := flamego.NewResponseWriter(om, spy)
	inner := flamego.NewResponseWriter(im, outer)
	outs := []string{"new"}
	b2i := func(b bool) int {
		if b {
			return 1
		}
		return 0
	}
	for _, l := range lines {
		if len(l) == 1 && l[0] == "END" {
			tr := "none"
			if len(spy.events) > 0 {
				tr = strings.Join(spy.events, ",")
			}
			outs = append(outs, "trace "+tr)
			continue
		}
		if len(l) < 3 || (l[1] != "o" && l[1] != "i") {
			outs = append(outs, "bad-op")
			continue
		}
		w, tag := outer, "hook"
		if l[1] == "i" {
			w, tag = inner, "ihook"
		}
		op := l[2:]
		obs := 0
		func() {
			defer func() {
				if r := recover(); r != nil {
					obs = -1
				}
			}()
			switch {
			case len(op) == 2 && op[0] == "wh":
				w.WriteHeader(atoi(op[1]))
			case len(op) == 3 && (op[0] == "w" || op[0] == "we"):
				spy.fail = op[0] == "we"
				spy.fwd = atoi(op[2])
				n, _ := w.Write(make([]byte, atoi(op[1])))
				obs = n
			case len(op) == 1 && op[0] == "fl":
				w.Flush()
			case len(op) == 2 && op[0] == "bf":
				id := op[1]
				w.Before(func(rw flamego.ResponseWriter) {
					spy.events = append(spy.events, fmt.Sprintf("%s%s:%d", tag, id, rw.Status()))
				})
			case len(op) == 1 && op[0] == "st":
				obs = w.Status()
			case len(op) == 1 && op[0] == "sz":
				obs = w.Size()
			case len(op) == 1 && op[0] == "wr":
				obs = b2i(w.Written())
			default:
				obs = -2
			}
		}()
		if obs == -2 {
			outs = append(outs, "bad-op")
			continue
		}
		outs = append(outs, fmt.Sprintf("%d %d %d %d %d %d %d %d", obs, outer.Status(), outer.Size(), b2i(outer.Written()),
			inner.Status(), inner.Size(), b2i(inner.Written()), len(spy.events)))
	}
	return outs
}

func execWriter(args []string, lines [][]string) []string {
	method := "GET"
	if len(args) > 0 && args[0] == "1" {
		method = "HEAD"
	} else if len(args) > 1 {
		method = args[1]
	}
	spy := &spyWriter{hdr: http.Header{}}
	w := flamego.NewResponseWriter(method, spy)
	outs := []string{"new"}
	b2i := func(b bool) int {
		if b {
			return 1
		}
		return 0
	}
	for _, l := range lines {
		if len(l) == 1 && l[0] == "END" {
			tr := "none"
			if len(spy.events) > 0 {
				tr = strings.Join(spy.events, ",")
			}
			outs = append(outs, "trace "+tr)
			continue
		}
		obs := 0
		func() {
			defer func() {
				if r := recover(); r != nil {
					obs = -1
				}
			}()
			switch {
			case len(l) == 3 && l[1] == "wh":
				w.WriteHeader(atoi(l[2]))
			case len(l) == 4 && (l[1] == "w" || l[1] == "we"):
				// "we": the underlying writer forwards `fwd` bytes AND returns an error
				spy.fail = l[1] == "we"
				spy.fwd = atoi(l[3])
				n, _ := w.Write(make([]byte, atoi(l[2])))
				obs = n
			case len(l) == 2 && l[1] == "fl":
				w.Flush()
			case len(l) == 3 && l[1] == "bf":
				id := l[2]
				w.Before(func(rw flamego.ResponseWriter) {
					// what the hook itself observes: nothing has been reported as written yet
					spy.events = append(spy.events, fmt.Sprintf("hook%s:%d", id, rw.Status()))
				})
			case len(l) == 2 && l[1] == "st":
				obs = w.Status()
			case len(l) == 2 && l[1] == "sz":
				obs = w.Size()
			case len(l) == 2 && l[1] == "wr":
				obs = b2i(w.Written())
			default:
				obs = -2
			}
		}()
		if obs == -2 {
			outs = append(outs, "bad-op")
			continue
		}
		outs = append(outs, fmt.Sprintf("%d %d %d %d %d", obs, w.Status(), w.Size(), b2i(w.Written()), len(spy.events)))
	}
	return outs
}

var writerCodes = []int{100, 200, 201, 204, 301, 404, 500, 999}

func writerOp(r *rand.Rand, hook *int) string {
	switch k := r.Intn(20); {
	case k < 4:
		return fmt.Sprintf("W wh %d", writerCodes[r.Intn(len(writerCodes))])
	case k < 9:
		n := r.Intn(6)
		f := n
		if r.Intn(3) == 0 {
			f = r.Intn(n + 1)
		}
		if r.Intn(5) == 0 {
			return fmt.Sprintf("W we %d %d", n, f)
		}
		return fmt.Sprintf("W w %d %d", n, f)
	case k < 11:
		return "W fl"
	case k < 15:
		*hook++
		return fmt.Sprintf("W bf %d", *hook)
	case k < 17:
		return "W st"
	case k < 18:
		return "W sz"
	default:
		return "W wr"
	}
}

func genWriter(r *rand.Rand, tier string, emit Emit) {
	// exhaustive small scope first, then random longer sequences
	alphabet := []string{"W wh 201", "W wh 404", "W w 3 3", "W w 3 1", "W we 3 2", "W w 0 0", "W fl", "W bf %d", "W st", "W wr"}
	depth, random := 3, 3000
	if tier == "thorough" {
		depth, random = 5, 100000
	}
	var rec func(seq []string)
	rec = func(seq []string) {
		for _, head := range []string{"0", "1"} {
			emit("NEW writer %s", head)
			h := 0
			for _, op := range seq {
				if strings.Contains(op, "%d") {
					h++
					emit(op, h)
				} else {
					emit("%s", op)
				}
			}
			emit("END")
		}
		if len(seq) == depth {
			return
		}
		for _, a := range alphabet {
			rec(append(seq[:len(seq):len(seq)], a))
		}
	}
	rec(nil)
	for i := 0; i < random; i++ {
		emit("NEW writer %d", r.Intn(2))
		h := 0
		n := r.Intn(14)
		for j := 0; j < n; j++ {
			emit("%s", writerOp(r, &h))
		}
		emit("END")
	}
	// stacks of two writers: every sequence of up to 2 (thorough: 3) operations over both levels and all four method
	// pairs, then random longer sessions
	methods := []string{"GET", "HEAD"}
	alpha2 := []string{"wh 201", "w 3 3", "w 3 1", "fl", "bf %d", "st", "sz"}
	depth2 := 2
	if tier == "thorough" {
		depth2 = 3
	}
	var rec2 func(seq []string)
	rec2 = func(seq []string) {
		if len(seq) > 0 {
			for _, om := range methods {
				for _, im := range methods {
					emit("NEW writer2 %s %s", om, im)
					h := 0
					for _, op := range seq {
						if strings.Contains(op, "%d") {
							h++
							emit(op, h)
						} else {
							emit("%s", op)
						}
					}
					emit("END")
				}
			}
		}
		if len(seq) == depth2 {
			return
		}
		for _, lvl := range []string{"o", "i"} {
			for _, a := range alpha2 {
				rec2(append(seq[:len(seq):len(seq)], "W "+lvl+" "+a))
			}
		}
	}
	rec2(nil)
	for i := 0; i < random/3; i++ {
		emit("NEW writer2 %s %s", methods[r.Intn(2)], methods[r.Intn(2)])
		h := 0
		n := r.Intn(12)
		for j := 0; j < n; j++ {
			lvl := "i"
			if r.Intn(3) == 0 {
				lvl = "o"
			}
			emit("W %s %s", lvl, strings.TrimPrefix(writerOp(r, &h), "W "))
		}
		emit("END")
	}
}
