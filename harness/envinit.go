package main

// `NEW envinit <FLAMEGO_ENV hex>` sessions (C15: "panic detail … only in development mode" — which mode a process is in):
// the session is run by a FRESH PROCESS of this binary started with that FLAMEGO_ENV (the package's init reads it), ops
//
//	SET <value hex>     flamego.SetEnv(value)
//	ENV                 flamego.Env()
//
// out, after every op: `<Env() hex> dev=<0|1>`   (dev: Env() == flamego.EnvTypeDev, the test Recovery and the renderer make).
// Model: lean/Flamego/Model/Env.lean, theorems lean/Flamego/Props/C15Env.lean.

import (
	"fmt"
	"math/rand"
	"os"
	"os/exec"
	"strings"

	"github.com/flamego/flamego"
)

func init() {
	execs["envinit"] = execEnvInit
	cmds["envprobe"] = envProbeMain
}

func envLine() string {
	d := 0
	if flamego.Env() == flamego.EnvTypeDev {
		d = 1
	}
	return fmt.Sprintf("%s dev=%d", hx(string(flamego.Env())), d)
}

// envProbeMain: `harness envprobe <op>…` with op = ENV | SET:<hex>; one output line per op
func envProbeMain(args []string) {
	for _, a := range args {
		switch {
		case a == "ENV":
			fmt.Println(envLine())
		case strings.HasPrefix(a, "SET:"):
			flamego.SetEnv(flamego.EnvType(unhx(a[4:])))
			fmt.Println(envLine())
		default:
			fmt.Println("bad-op")
		}
	}
}

func execEnvInit(args []string, lines [][]string) []string {
	bad := func(s string) []string {
		out := []string{s}
		for range lines {
			out = append(out, s)
		}
		return out
	}
	if len(args) != 1 {
		return bad("bad-args")
	}
	v := ""
	if args[0] != "unset" { // "unset": the variable is not in the environment at all
		v = unhx(args[0])
	}
	if strings.ContainsRune(v, 0) {
		return bad("bad-args")
	}
	var ops []string
	for _, l := range lines {
		switch {
		case len(l) == 1 && l[0] == "ENV":
			ops = append(ops, "ENV")
		case len(l) == 2 && l[0] == "SET":
			ops = append(ops, "SET:"+l[1])
		default:
			ops = append(ops, "BAD")
		}
	}
	cmd := exec.Command(os.Args[0], append([]string{"envprobe"}, ops...)...)
	var env []string
	for _, e := range os.Environ() {
		if !strings.HasPrefix(e, "FLAMEGO_ENV=") {
			env = append(env, e)
		}
	}
	if args[0] != "unset" {
		env = append(env, "FLAMEGO_ENV="+v)
	}
	cmd.Env = env
	outb, err := cmd.Output()
	got := strings.Split(strings.TrimRight(string(outb), "\n"), "\n")
	if err != nil || len(got) != len(lines) {
		return bad("probe-failed")
	}
	return append([]string{"new"}, got...)
}

var envValues = []string{"development", "production", "test", "", "Production", "prod", "dev", "TEST", "test ", " development", "developmen", "productionx", "0", "true"}

func genEnvInit(r *rand.Rand, emit Emit, n int) {
	// every value alone, then random call sequences
	emit("NEW envinit unset")
	emit("ENV")
	for _, v := range envValues {
		emit("NEW envinit %s", hx(v))
		emit("ENV")
	}
	for i := 0; i < n; i++ {
		emit("NEW envinit %s", hx(envValues[r.Intn(len(envValues))]))
		for k := r.Intn(5); k >= 0; k-- {
			if r.Intn(3) == 0 {
				emit("ENV")
			} else {
				emit("SET %s", hx(envValues[r.Intn(len(envValues))]))
			}
		}
	}
}
