package main

// C16 — flamego.Static against a real temporary directory tree.
//
// Session:  NEW static <prefix> <index> <etag 0|1> <spy 0|1> <expires 0|1> <cachecontrol 0|1>
//   FS <rel> d | FS <rel> f <id>     entry of the tree under the served directory `pub/` (rel "2e" = pub itself)
//   OUT <rel> <id>                   a file NEXT TO pub/ (rel is relative to pub's parent); must never be served
//   REQ <method> <path> <inm>        one request; URL.Path is set to exactly these bytes
//   BURST <k> (<method> <path> <inm>)+   k copies of each listed request, all served AT THE SAME TIME by the one
//                                    instance: with spy=1 the file system holds every request that reaches Open until
//                                    all k*n of them are either inside Open or finished (a slow disk, slow clients), then
//                                    lets them go.  What one request gets depends on that request alone — the outcome of
//                                    every copy is the outcome the request has when it is served alone, however many
//                                    others are in flight — and the instance is the same afterwards (the REQ lines behind
//                                    a BURST are served one at a time again).   out: `burst <outcome>;<outcome>;…`
//   CLEAN <s>  /  JOIN <a> <b>       path.Clean("/"+s), path.Clean(s), does http.Dir refuse s  /  path.Join(a,b)
//
// The tree is created per session in a fresh temporary directory outside /repo and /verif and removed
// at the end of the session. With spy=1 the middleware gets `FileSystem: spy{http.Dir(pub)}` so that the
// names it passes to Open are observable (printed cleaned: path.Clean("/"+name)); with spy=0 it gets
// `Directory: pub` and only status/body/Location/next-handler are compared.
//
// Output of REQ, in the model's vocabulary:
//   silent              the next handler ran and the response is exactly what it alone produces
//   redirect <loc|*>    302, Location (hex) — `*` when net/http rewrites the target (unrooted path or `?`)
//   notmodified         304, no body
//   serve <id>          200 and the body is byte-for-byte the on-disk content of file <id>, which is a regular
//                       file inside pub/ (checked here, against the disk); HEAD: no body, Content-Length = its size
//   anything else is spelled out (LEAK…, serve-unknown…, other…) and can never equal a model line.

import (
	"bytes"
	"context"
	"sync"
	"sync/atomic"
	"crypto/sha1"
	"fmt"
	"io"
	"math/rand"
	"net/http"
	"net/http/httptest"
	"net/url"
	"os"
	"path"
	"path/filepath"
	"sort"
	"strings"
	"time"

	"github.com/flamego/flamego"
)

func init() {
	execs["static"] = execStatic
	gens["C16"] = genStatic
}

type spyFS struct {
	fs    http.FileSystem
	names *[]string
	mu    *sync.Mutex
	gate  *atomic.Pointer[burstGate]
}

func (s spyFS) Open(name string) (http.File, error) {
	s.mu.Lock()
	*s.names = append(*s.names, name)
	s.mu.Unlock()
	if g := s.gate.Load(); g != nil {
		g.enter()
	}
	return s.fs.Open(name)
}

// burstGate holds the requests of a burst inside FileSystem.Open until every request of the burst is either held there
// or has finished without getting that far (other method, other prefix, answered before Open): the moment at which as
// many requests as possible are inside the middleware at once.  Requests held cannot finish, so before the release the
// finished ones are exactly those that were never held.
type burstGate struct {
	mu                    sync.Mutex
	total, held, finished int
	released              bool
	open                  chan struct{}
}

func (g *burstGate) release() {
	if !g.released {
		g.released = true
		close(g.open)
	}
}

func (g *burstGate) enter() {
	g.mu.Lock()
	if g.released {
		g.mu.Unlock()
		return
	}
	g.held++
	if g.held+g.finished >= g.total {
		g.release()
	}
	g.mu.Unlock()
	<-g.open
}

func (g *burstGate) finish() {
	g.mu.Lock()
	if !g.released {
		g.finished++
		if g.held+g.finished >= g.total {
			g.release()
		}
	}
	g.mu.Unlock()
}

// the next handler of a request marks the flag the request carries (requests of a burst run side by side)
type staticNextKey struct{}

func staticContent(id int) []byte {
	return []byte(fmt.Sprintf("<<file %d>>", id) + strings.Repeat("x", id))
}

func staticScratchBase() string {
	for _, d := range []string{"/root/scratch", os.TempDir()} {
		if st, err := os.Stat(d); err == nil && st.IsDir() {
			return d
		}
	}
	return os.TempDir()
}

// pickExistingDir: some sub-directory of the served tree (relative name), "sub" when there is none
func pickExistingDir(t *staticTree) string {
	best := ""
	for _, rel := range t.relOfID {
		if i := strings.Index(rel, "/"); i > 0 && (best == "" || rel[:i] < best) {
			best = rel[:i]
		}
	}
	if best == "" {
		return "sub"
	}
	return best
}

// staticTwinContent: a file of the same SIZE as file `of` (and given the same modification time and base name by the
// tree builder) but other bytes — two files a cache keyed by name, size and time cannot tell apart
func staticTwinContent(of int) []byte {
	return []byte(fmt.Sprintf("<<twin %d>>", of) + strings.Repeat("x", of))
}

type staticTree struct {
	base, pub string
	relOfID   map[int]string // files inside pub
	outOfID   map[int]string // files outside pub (relative to base)
	idOfSize  map[int64]int
	twinOf    map[int]int // id of a twin file -> id of the file it mimics
}

func (t *staticTree) content(id int) []byte {
	if of, ok := t.twinOf[id]; ok {
		return staticTwinContent(of)
	}
	return staticContent(id)
}

func buildStaticTree(lines [][]string) *staticTree {
	base, err := os.MkdirTemp(staticScratchBase(), "c16-tree-")
	if err != nil {
		panic("mkdirtemp")
	}
	abs, _ := filepath.Abs(base)
	if strings.HasPrefix(abs, "/repo") || strings.HasPrefix(abs, "/verif") {
		os.RemoveAll(base)
		panic("temp-dir-inside-protected-tree")
	}
	t := &staticTree{base: abs, pub: filepath.Join(abs, "pub"), relOfID: map[int]string{}, outOfID: map[int]string{}, idOfSize: map[int64]int{}, twinOf: map[int]int{}}
	must := func(err error) {
		if err != nil {
			os.RemoveAll(base)
			panic("tree-build: " + err.Error())
		}
	}
	must(os.MkdirAll(t.pub, 0o755))
	writeFile := func(full string, id int) {
		must(os.MkdirAll(filepath.Dir(full), 0o755))
		must(os.WriteFile(full, staticContent(id), 0o644))
		mt := time.Date(2021, 1, 1, 0, 0, 0, 0, time.UTC).Add(time.Duration(id) * time.Second)
		must(os.Chtimes(full, mt, mt))
	}
	for _, l := range lines {
		switch {
		case len(l) == 3 && l[0] == "FS" && l[2] == "d":
			must(os.MkdirAll(t.pub+"/"+unhx(l[1]), 0o755))
		case len(l) == 4 && l[0] == "FS" && l[2] == "f":
			id := atoi(l[3])
			writeFile(t.pub+"/"+unhx(l[1]), id)
			t.relOfID[id] = unhx(l[1])
			t.idOfSize[int64(len(staticContent(id)))] = id
		case len(l) == 5 && l[0] == "FS" && l[2] == "f":
			// FS <rel> f <id> <of>: a twin of file <of> — same size, same modification time, other content
			id, of := atoi(l[3]), atoi(l[4])
			full := t.pub + "/" + unhx(l[1])
			must(os.MkdirAll(filepath.Dir(full), 0o755))
			must(os.WriteFile(full, staticTwinContent(of), 0o644))
			mt := time.Date(2021, 1, 1, 0, 0, 0, 0, time.UTC).Add(time.Duration(of) * time.Second)
			must(os.Chtimes(full, mt, mt))
			t.relOfID[id] = unhx(l[1])
			t.twinOf[id] = of
		case len(l) == 3 && l[0] == "OUT":
			id := atoi(l[2])
			writeFile(t.base+"/"+unhx(l[1]), id)
			t.outOfID[id] = unhx(l[1])
		}
	}
	return t
}

// insidePub: the path is a regular file (not a link) lexically and physically below pub.
func (t *staticTree) insidePub(rel string) bool {
	full := t.pub + "/" + rel
	r, err := filepath.Rel(t.pub, filepath.Clean(full))
	if err != nil || r == ".." || strings.HasPrefix(r, "../") {
		return false
	}
	st, err := os.Lstat(full)
	return err == nil && st.Mode().IsRegular()
}

func execStatic(args []string, lines [][]string) (outs []string) {
	arg := func(i int) string {
		if i < len(args) {
			return args[i]
		}
		return "-"
	}
	needTree := false
	for _, l := range lines {
		if len(l) > 0 && (l[0] == "REQ" || l[0] == "BURST") {
			needTree = true
		}
	}
	var (
		tree    *staticTree
		f       *flamego.Flame
		probe   *flamego.Flame
		opened  []string
		nextRan bool
		etags   = map[int]string{}
		fsMu    sync.Mutex
		gate    atomic.Pointer[burstGate]
	)
	spy := arg(3) == "1" || arg(3) == "3"
	if needTree {
		tree = buildStaticTree(lines)
		defer os.RemoveAll(tree.base)
		opts := flamego.StaticOptions{Prefix: unhx(arg(0)), Index: unhx(arg(1)), SetETag: arg(2) == "1"}
		switch {
		case spy:
			opts.FileSystem = spyFS{fs: http.Dir(tree.pub), names: &opened, mu: &fsMu, gate: &gate}
			// a directory called like the documented default ("public") sits in the working directory and holds a file
			// the configured file system does not have: with a FileSystem given, nothing on disk is Static's business
			if cwd, err := os.Getwd(); err == nil {
				pubDefault := filepath.Join(tree.base, "public")
				if os.MkdirAll(pubDefault, 0o755) == nil && os.WriteFile(filepath.Join(pubDefault, "only-on-disk.txt"), []byte("ON DISK ONLY"), 0o644) == nil &&
					os.Chdir(tree.base) == nil {
					defer func() { _ = os.Chdir(cwd) }()
				}
			}
			if arg(3) == "3" {
				// FileSystem AND Directory: the file system given is what is served, as it is (Directory only names the
				// directory of the default file system)
				opts.Directory = pickExistingDir(tree)
			}
		case arg(3) == "2":
			// the documented default: no Directory, no FileSystem — "public" under the working directory
			// (a link to the tree, the working directory moved next to it for the length of the session)
			if cwd, err := os.Getwd(); err == nil {
				if os.Symlink(tree.pub, filepath.Join(tree.base, "public")) == nil && os.Chdir(tree.base) == nil {
					defer func() { _ = os.Chdir(cwd) }()
				} else {
					opts.Directory = tree.pub
				}
			} else {
				opts.Directory = tree.pub
			}
		default:
			opts.Directory = tree.pub
		}
		if arg(4) == "1" {
			opts.Expires = func() string { return "Thu, 01 Jan 2037 00:00:00 GMT" }
		}
		if arg(5) == "1" {
			opts.CacheControl = func() string { return "max-age=60" }
		}
		f = flamego.NewWithLogger(io.Discard)
		// the options travel in a slice the caller goes on using (the next mount is configured in the same element):
		// what the middleware serves must be what it was constructed with
		optSlice := []flamego.StaticOptions{opts}
		mw := flamego.Static(optSlice...)
		optSlice[0] = flamego.StaticOptions{Directory: filepath.Join(tree.base, "elsewhere"), Prefix: "/scribbled", Index: "nope.html",
			FileSystem: http.Dir(filepath.Join(tree.base, "elsewhere"))}
		f.Use(mw)
		next := func(c flamego.Context) {
			if p, ok := c.Request().Context().Value(staticNextKey{}).(*bool); ok {
				*p = true
			} else {
				nextRan = true
			}
			c.ResponseWriter().WriteHeader(http.StatusNotFound)
			_, _ = c.ResponseWriter().Write([]byte("NEXT"))
		}
		f.NotFound(next)
		// an application route with the anonymous glob next to the global Static: "the rest of the chain" for requests
		// under /api is this route's handler — it answers exactly like the not-found chain, so the expectations are
		// the same; what bind parameters the matched route has is none of Static's business
		f.Get("/api/{**}", next)
		probe = flamego.NewWithLogger(io.Discard)
		probe.Use(flamego.Static(flamego.StaticOptions{Directory: tree.pub, SetETag: true}))
	}
	// the ETag the server advertises for file id (what a client would send back)
	etagOf := func(id int) string {
		if e, ok := etags[id]; ok {
			return e
		}
		e := fmt.Sprintf("\"no-etag-%d\"", id)
		if rel, ok := tree.relOfID[id]; ok {
			rec := httptest.NewRecorder()
			req := httptest.NewRequest("GET", "/", nil)
			req.URL = &url.URL{Path: "/" + rel}
			probe.ServeHTTP(rec, req)
			if v := rec.Header().Get("ETag"); v != "" && rec.Code == 200 {
				e = v
			}
		}
		etags[id] = e
		return e
	}
	nxdir := http.Dir("/nonexistent-verif-c16-root")

	outs = append(outs, "new")
	for _, l := range lines {
		switch {
		case len(l) >= 3 && l[0] == "FS":
			outs = append(outs, "fs")
		case len(l) == 3 && l[0] == "OUT":
			outs = append(outs, "out")
		case len(l) == 2 && l[0] == "CLEAN":
			s := unhx(l[1])
			verdict := "ok"
			if fh, err := nxdir.Open(s); err != nil {
				if strings.HasPrefix(err.Error(), "http: invalid") { // http.Dir refused the name before touching the OS
					verdict = "rej"
				}
			} else {
				fh.Close()
			}
			outs = append(outs, fmt.Sprintf("clean %s %s %s", hx(path.Clean("/"+s)), hx(path.Clean(s)), verdict))
		case len(l) == 3 && l[0] == "JOIN":
			outs = append(outs, "join "+hx(path.Join(unhx(l[1]), unhx(l[2]))))
		case len(l) == 4 && l[0] == "REQ":
			outs = append(outs, staticRequest(tree, f, spy, &opened, &nextRan, etagOf, unhx(l[1]), unhx(l[2]), l[3]))
		case len(l) >= 5 && l[0] == "BURST" && (len(l)-2)%3 == 0 && atoi(l[1]) > 0 && f != nil:
			k, n := atoi(l[1]), (len(l)-2)/3
			for i := 0; i < n; i++ { // the ETags are looked up beforehand, one at a time
				if inm := l[4+3*i]; inm != "-" && inm != "j" {
					etagOf(atoi(inm))
				}
			}
			g := &burstGate{total: k * n, open: make(chan struct{})}
			watchdog := time.AfterFunc(20*time.Second, func() { g.mu.Lock(); g.release(); g.mu.Unlock() })
			gate.Store(g)
			res := make([]string, k*n)
			var wg sync.WaitGroup
			for j := 0; j < k*n; j++ {
				wg.Add(1)
				go func(j int) {
					defer wg.Done()
					defer g.finish()
					i := j % n
					var noOpens []string
					var ran bool
					res[j] = staticRequest(tree, f, false, &noOpens, &ran, etagOf, unhx(l[2+3*i]), unhx(l[3+3*i]), l[4+3*i])
				}(j)
			}
			wg.Wait()
			watchdog.Stop()
			gate.Store(nil)
			parts := make([]string, n)
			for i := 0; i < n; i++ {
				count := map[string]int{}
				for j := i; j < k*n; j += n {
					count[res[j]]++
				}
				if len(count) == 1 {
					parts[i] = res[i]
					continue
				}
				var ds []string
				for o, c := range count {
					ds = append(ds, fmt.Sprintf("%s x%d", o, c))
				}
				sort.Strings(ds)
				parts[i] = "COPIES-DIFFER[" + strings.Join(ds, " | ") + "]"
			}
			outs = append(outs, "burst "+strings.Join(parts, ";"))
		default:
			outs = append(outs, "bad-op")
		}
	}
	return outs
}

func staticRequest(t *staticTree, f *flamego.Flame, spy bool, opened *[]string, nextRan *bool,
	etagOf func(int) string, method, p, inm string) (out string) {
	*opened = (*opened)[:0]
	*nextRan = false
	req := httptest.NewRequest("GET", "/", nil)
	req = req.WithContext(context.WithValue(req.Context(), staticNextKey{}, nextRan))
	req.Method = method
	req.URL = &url.URL{Path: p}
	req.RequestURI = ""
	switch inm {
	case "-":
	case "j":
		req.Header.Set("If-None-Match", "junk")
	default:
		req.Header.Set("If-None-Match", etagOf(atoi(inm)))
	}
	rec := httptest.NewRecorder()
	panicked := false
	func() {
		defer func() {
			if r := recover(); r != nil {
				panicked = true
			}
		}()
		f.ServeHTTP(rec, req)
	}()
	suffix := ""
	if spy {
		if len(*opened) == 0 {
			suffix = " opens=none"
		} else {
			hs := make([]string, len(*opened))
			for i, n := range *opened {
				// canonical spelling: the cleaned rooted name (so that a respelling of the same file is no alarm)
				hs[i] = hx(path.Clean("/" + n))
			}
			suffix = " opens=" + strings.Join(hs, ",")
		}
	}
	if panicked {
		return "panic" + suffix
	}
	body := rec.Body.Bytes()
	b2i := func(b bool) int {
		if b {
			return 1
		}
		return 0
	}
	switch {
	case *nextRan:
		var extra []string
		for k := range rec.Header() {
			extra = append(extra, k)
		}
		sort.Strings(extra)
		want := "NEXT"
		if method == "HEAD" {
			want = "" // flamego's response writer drops bodies of HEAD requests (C13)
		}
		if rec.Code == http.StatusNotFound && string(body) == want && len(extra) == 0 {
			return "silent" + suffix
		}
		return fmt.Sprintf("next-ran-but-static-wrote code=%d hdr=%s", rec.Code, strings.Join(extra, "+")) + suffix
	case rec.Code == http.StatusFound:
		loc := rec.Header().Get("Location")
		if strings.HasPrefix(p, "/") && !strings.Contains(loc, "?") {
			return "redirect " + hx(loc) + suffix
		}
		return "redirect *" + suffix
	case rec.Code == http.StatusNotModified:
		if len(body) != 0 {
			return "notmodified-with-body" + suffix
		}
		return "notmodified" + suffix
	case rec.Code == http.StatusOK:
		if method == "HEAD" {
			if len(body) != 0 {
				return "head-with-body" + suffix
			}
			var n int64 = -1
			fmt.Sscanf(rec.Header().Get("Content-Length"), "%d", &n)
			id, ok := t.idOfSize[n]
			if !ok || !t.insidePub(t.relOfID[id]) {
				return fmt.Sprintf("serve-unknown-length %d", n) + suffix
			}
			return fmt.Sprintf("serve %d", id) + suffix
		}
		// the containment oracle: the body must be the on-disk content of a regular file inside pub/
		for id, rel := range t.relOfID {
			disk, err := os.ReadFile(t.pub + "/" + rel)
			if err == nil && bytes.Equal(disk, body) && bytes.Equal(body, t.content(id)) {
				if !t.insidePub(rel) {
					return fmt.Sprintf("CONTAINMENT-BROKEN %d", id) + suffix
				}
				return fmt.Sprintf("serve %d", id) + suffix
			}
		}
		for id := range t.outOfID {
			if bytes.Equal(body, staticContent(id)) {
				return fmt.Sprintf("LEAK-outside-file %d", id) + suffix
			}
		}
		return fmt.Sprintf("serve-unknown-body %x", sha1.Sum(body)) + suffix
	}
	return fmt.Sprintf("other code=%d next=%d", rec.Code, b2i(*nextRan)) + suffix
}

// ------------------------------------------------------------------------------ generator

type staticEntry struct {
	rel string
	id  int // 0 = directory
}

// genStaticTree returns FS entries (parents first) and OUT entries.
func genStaticTree(r *rand.Rand, small bool) (fs []staticEntry, out []staticEntry) {
	kind := map[string]int{".": 0}
	next := 1
	var addDir func(rel string) bool
	addDir = func(rel string) bool {
		if k, ok := kind[rel]; ok {
			return k == 0
		}
		if d := path.Dir(rel); d != "." && !addDir(d) {
			return false
		}
		kind[rel] = 0
		return true
	}
	addFile := func(rel string) {
		if _, ok := kind[rel]; ok {
			return
		}
		if d := path.Dir(rel); d != "." && !addDir(d) {
			return
		}
		kind[rel] = next
		next++
	}
	if small {
		for _, e := range []string{"index.html", "a/a", "a/index.html", "a/aa/.a"} {
			if r.Intn(5) > 0 {
				addFile(e)
			}
		}
		addDir("a")
		addDir("aa")
		addFile(".a")
		addFile("a.")
	} else {
		files := []string{
			"index.html", "a.txt", "secret.txt", "main.htm", "staticfoo", "static.txt", "pub", "st",
			"static/index.html", "static/in.txt", "static/static/deep.txt", "static/main.htm", "static/secret.txt",
			"staticfoo2/index.html", "staticfoo2/x.txt",
			"sub/index.html", "sub/b.txt", "sub/main.htm", "sub/sub/idx.html", "sub/deep/c.txt", "sub/deep/index.html",
			"sub/idx.html", "sub/secret.txt",
			"noindex/d.txt", "noindex/inner/e.txt",
			"idxdir/index.html/x.txt", "idxdir/main.htm/y.txt",
			".../index.html", ".../f.txt", "..a", "a..b", ".hidden", "..a./index.html",
			"sp ace.txt", "a\\b.txt", "..\\secret.txt", "%2e%2e/secret.txt", "%2e%2e/index.html", "%2f", "q?x/index.html", "h#y.txt",
			"\xff.txt", "bad\xc3/index.html", "\xc3\xa9.txt", "\xc3\xa9/index.html", "ctl\x01.txt",
			"a/b/index.html", "a/b/c/d.txt", "a/b/c/index.html",
		}
		for _, e := range files {
			if r.Intn(6) > 0 {
				addFile(e)
			}
		}
		for _, d := range []string{"empty", "sub/emptier", "noindex", "static"} {
			if r.Intn(4) > 0 {
				addDir(d)
			}
		}
	}
	var rels []string
	for k := range kind {
		rels = append(rels, k)
	}
	sort.Slice(rels, func(i, j int) bool {
		if len(rels[i]) != len(rels[j]) {
			return len(rels[i]) < len(rels[j])
		}
		return rels[i] < rels[j]
	})
	for _, k := range rels {
		fs = append(fs, staticEntry{k, kind[k]})
	}
	for _, o := range []string{"secret.txt", "index.html", "pubx/leak.txt", "pub.txt", "a.txt", "etc/passwd", "static/index.html", "main.htm"} {
		out = append(out, staticEntry{o, next})
		next++
	}
	return fs, out
}

var (
	staticPrefixes = []string{"", "static", "/static", "/static/", "static/", "//static//", "/", "//", "/a/b", "st", "/sub", "/pub", "/...", "/static/../sub", "/\xc3\xa9"}
	staticIndexes  = []string{"", "index.html", "main.htm", "sub/idx.html", "../secret.txt", "..", "/", ".", "idx.html", "../../secret.txt", "/index.html/"}
	staticMethods  = []string{"GET", "GET", "GET", "HEAD", "POST", "PUT", "get", "GETX", "OPTIONS", "DELETE", "HEAD"}
)

func staticNormPrefix(p string) string {
	if p == "" {
		return ""
	}
	return "/" + strings.Trim(p, "/")
}

// staticMutate applies one adversarial rewrite.
func staticMutate(r *rand.Rand, p string) string {
	segs := strings.Split(p, "/")
	pos := r.Intn(len(segs) + 1)
	ins := func(s string) string {
		out := append([]string{}, segs[:pos]...)
		out = append(out, s)
		out = append(out, segs[pos:]...)
		return strings.Join(out, "/")
	}
	switch r.Intn(16) {
	case 0:
		return ins("..")
	case 1:
		return ins(".")
	case 2:
		return ins("")
	case 3:
		return ins("../..")
	case 4:
		return p + "/"
	case 5:
		return p + "//"
	case 6:
		return p + "/.."
	case 7:
		return p + "/."
	case 8:
		return ins("%2e%2e")
	case 9:
		return ins("..\\")
	case 10:
		i := r.Intn(len(p) + 1)
		return p[:i] + "\x00" + p[i:]
	case 11:
		return strings.TrimPrefix(p, "/")
	case 12:
		return ins("..%2f..")
	case 13:
		i := r.Intn(len(p) + 1)
		return p[:i] + string([]byte{byte(r.Intn(256))}) + p[i:]
	case 14:
		return strings.Replace(p, "/", "\\", 1)
	default:
		return ins("...")
	}
}

func genStaticSession(r *rand.Rand, emit Emit, pfx, index string, nreq int, small bool) {
	fs, out := genStaticTree(r, small)
	spy := 1
	switch r.Intn(10) {
	case 0:
		spy = 0
	case 1:
		spy = 2 // StaticOptions without Directory and FileSystem: the documented default directory
	case 2:
		spy = 3 // FileSystem and Directory both given
	}
	emit("NEW static %s %s %d %d %d %d", hx(pfx), hx(index), r.Intn(2), spy, r.Intn(2), r.Intn(2))
	for _, e := range fs {
		if e.id == 0 {
			emit("FS %s d", hx(e.rel))
		} else {
			emit("FS %s f %d", hx(e.rel), e.id)
		}
	}
	// twins: two files with the same base name, size and modification time in two directories, different content
	twinA, twinB := 0, 0
	if !small && r.Intn(2) == 0 {
		maxID := 0
		for _, e := range append(append([]staticEntry(nil), fs...), out...) {
			if e.id > maxID {
				maxID = e.id
			}
		}
		twinA, twinB = maxID+1, maxID+2
		emit("FS %s d", hx("tw1"))
		emit("FS %s d", hx("tw2"))
		emit("FS %s f %d", hx("tw1/t.txt"), twinA)
		emit("FS %s f %d %d", hx("tw2/t.txt"), twinB, twinA)
	}
	for _, e := range out {
		emit("OUT %s %d", hx(e.rel), e.id)
	}
	np := staticNormPrefix(pfx)
	nfiles := len(fs) + len(out)
	idOf := map[string]int{}
	for _, e := range fs {
		idOf[e.rel] = e.id
	}
	hint := 0 // id of the file the next request is aimed at (0 = unknown)
	req := func(m, p string) {
		inm := "-"
		if hint != 0 && r.Intn(3) == 0 {
			inm = fmt.Sprint(hint)
			hint = 0
			emit("REQ %s %s %s", hx(m), hx(p), inm)
			return
		}
		hint = 0
		switch r.Intn(8) {
		case 0:
			inm = "j"
		case 1, 2:
			inm = fmt.Sprint(1 + r.Intn(nfiles))
		}
		emit("REQ %s %s %s", hx(m), hx(p), inm)
	}
	if small {
		// every path of length <= nreq over {'/', '.', 'a'}, below the prefix and bare
		var rec func(s string)
		rec = func(s string) {
			req("GET", np+s)
			if np != "" {
				req("GET", s)
			}
			if len(s) == nreq {
				return
			}
			for _, c := range []string{"/", ".", "a"} {
				rec(s + c)
			}
		}
		rec("")
		return
	}
	// below an application route with the anonymous glob (GET /api/{**}): existing files and directories named by the glob
	for k := 0; k < 4 && len(fs) > 0; k++ {
		e := fs[r.Intn(len(fs))]
		if e.rel == "." {
			continue
		}
		emit("REQ %s %s -", hx(pick(r, []string{"GET", "GET", "HEAD"})), hx("/api/"+e.rel))
	}
	if twinA != 0 {
		for _, p := range []string{"/tw1/t.txt", "/tw2/t.txt", "/tw1/t.txt", "/tw2/t.txt"} {
			emit("REQ %s %s -", hx("GET"), hx(np+p))
		}
	}
	// fixed adversarial battery
	battery := []string{
		"", "/", "//", "/.", "/..", "/../", "/../..", "/../../etc/passwd", "/../secret.txt", "/../../secret.txt",
		"/../pubx/leak.txt", "/../pub.txt", "/../pub/a.txt", "/..\\secret.txt", "/%2e%2e/secret.txt", "/%2e%2e/", "/%2e%2e",
		"/static/../secret", "/static/../secret.txt", "/static/../sub", "/static/../sub/", "/static/..", "/static/../",
		"//a//b/", "//a//b", "/a/b/../b/", "/a/./b", "/sub", "/sub/", "/sub//", "/sub/.", "/sub/..", "/sub/../sub",
		"/noindex", "/noindex/", "/idxdir", "/idxdir/", "/empty", "/empty/", "/...", "/.../", "/..a", "/..a./",
		"/a.txt", "/a.txt/", "/a.txt//", "/a.txt/x", "/index.html", "/index.html/", "/\xff.txt", "/bad\xc3/", "/\xc3\xa9.txt",
		"/\xc3\xa9", "/ctl\x01.txt", "/a\x00.txt", "/a.txt\x00", "/\x00", "/q?x", "/q?x/", "/h#y.txt", "/sp ace.txt", "/a\\b.txt",
		"/staticfoo", "/staticfoo2", "/staticfoo2/", "/staticfoo2/x.txt", "/static.txt", "/static", "/static/", "/static/in.txt",
		"/static/static/deep.txt", "/public/x", "/pub", "/pub/", "/pubx/leak.txt", "/st", "/sta", "static", "static/in.txt", "a.txt", "sub", "sub/", ".", "..", "../secret.txt",
		"/" + strings.Repeat("a/../", 300) + "a.txt", "/" + strings.Repeat("../", 300) + "secret.txt",
		"/" + strings.Repeat("sub/../", 200) + "sub", "/" + strings.Repeat("x", 5000),
	}
	// a file that exists only in a directory named like the documented default, next to the served tree
	battery = append(battery, "/only-on-disk.txt", "/public/only-on-disk.txt")
	if np != "" {
		// paths OUTSIDE the prefix that only lexical cleaning would bring under it
		for _, f := range []string{"/a.txt", "/index.html", "/sub/", "/"} {
			battery = append(battery, "/zz/.."+np+f, "/."+np+f, "/"+np+f, np+"x/.."+np+f)
		}
	}
	for _, b := range battery {
		m := staticMethods[r.Intn(len(staticMethods))]
		req(m, b)
		req("GET", np+b)
		if np != "" {
			// look-alikes of the prefix
			req("GET", np+"foo"+b)
			req("GET", np[:len(np)-1]+b)
			req("HEAD", "/x"+np+b)
		}
	}
	// tree-directed requests with mutations; in sessions whose file system is observable one BURST somewhere among them:
	// 2..6 different requests of the same kind (files, directories, missing names, other methods, outside the prefix),
	// k copies each, all inside the instance at once — a handful, or several hundred — and sequential requests behind it
	burstAt := -1
	if spy == 1 || spy == 3 {
		burstAt = r.Intn(nreq/2 + 1)
	}
	var burst []string
	burstLeft := 0
	for i := 0; i < nreq; i++ {
		if i == burstAt {
			burstLeft = 2 + r.Intn(5)
		}
		e := fs[r.Intn(len(fs))]
		p := "/" + e.rel
		if e.rel == "." {
			p = "/"
		}
		if r.Intn(3) == 0 {
			p += "/"
		}
		for k := r.Intn(3); k > 0; k-- {
			p = staticMutate(r, p)
		}
		switch r.Intn(10) {
		case 0: // no prefix at all
		case 1:
			if np != "" {
				p = np + "x" + p // look-alike
			}
		case 2:
			p = strings.ToUpper(np) + p
		default:
			p = np + p
		}
		if r.Intn(12) == 0 {
			p = staticMutate(r, p)
		}
		hint = e.id
		if e.id == 0 {
			ix := index
			if ix == "" {
				ix = "index.html"
			}
			hint = idOf[path.Join(e.rel, ix)]
		}
		if burstLeft > 0 {
			m := pick(r, []string{"GET", "GET", "GET", "GET", "HEAD", "HEAD", "POST", "get"})
			inm := "-"
			switch r.Intn(8) {
			case 0:
				inm = "j"
			case 1:
				if hint != 0 {
					inm = fmt.Sprint(hint)
				}
			}
			hint = 0
			burst = append(burst, fmt.Sprintf("%s %s %s", hx(m), hx(p), inm))
			burstLeft--
			if burstLeft == 0 {
				total := []int{2, 8, 30, 130, 160, 200, 260, 300, 400, 520}[r.Intn(10)]
				emit("BURST %d %s", (total+len(burst)-1)/len(burst), strings.Join(burst, " "))
			}
			continue
		}
		req(staticMethods[r.Intn(len(staticMethods))], p)
	}
}

func randBytesFrom(r *rand.Rand, alphabet []byte, maxLen int) string {
	n := r.Intn(maxLen + 1)
	b := make([]byte, n)
	for i := range b {
		b[i] = alphabet[r.Intn(len(alphabet))]
	}
	return string(b)
}

func genStatic(r *rand.Rand, tier string, emit Emit) {
	thorough := tier == "thorough"
	// 1. path.Clean / path.Join / http.Dir name check: exhaustive small scope, then random adversarial
	emit("NEW static - - 0 0 0 0")
	depth, pairs := 7, 3
	nrand := 6000
	if thorough {
		depth, pairs, nrand = 9, 4, 150000
	}
	var all []string
	var rec func(s string)
	rec = func(s string) {
		all = append(all, s)
		emit("CLEAN %s", hx(s))
		if len(s) == depth {
			return
		}
		for _, c := range []string{"/", ".", "a"} {
			rec(s + c)
		}
	}
	rec("")
	for _, a := range all {
		if len(a) > pairs {
			continue
		}
		for _, b := range all {
			if len(b) <= pairs {
				emit("JOIN %s %s", hx(a), hx(b))
			}
		}
	}
	pathAlpha := []byte{'/', '/', '/', '.', '.', '.', 'a', 'b', 0, 0xff, 0xc3, 0xa9, '\\', '%', '2', 'e', ' ', '?'}
	utfAlpha := []byte{'a', '/', 0x7f, 0x80, 0x8f, 0x90, 0x9f, 0xa0, 0xbf, 0xc0, 0xc1, 0xc2, 0xdf, 0xe0, 0xe1, 0xec, 0xed, 0xee, 0xef, 0xf0, 0xf1, 0xf3, 0xf4, 0xf5, 0xff}
	for i := 0; i < nrand; i++ {
		switch i % 4 {
		case 0, 1:
			emit("CLEAN %s", hx(randBytesFrom(r, pathAlpha, 14)))
		case 2:
			emit("CLEAN %s", hx(randBytesFrom(r, utfAlpha, 6)))
		default:
			emit("JOIN %s %s", hx(randBytesFrom(r, pathAlpha, 8)), hx(randBytesFrom(r, pathAlpha, 8)))
		}
	}
	// 2. exhaustive small scope on a tiny tree
	d := 5
	if thorough {
		d = 7
	}
	for _, pfx := range []string{"", "/a", "a/", "/"} {
		for _, idx := range []string{"", "a", "../a"} {
			genStaticSession(r, emit, pfx, idx, d, true)
		}
	}
	// 3. every spelling of the prefix × a few index settings, on the big tree
	nreq, extra := 200, 12
	if thorough {
		nreq, extra = 800, 400
	}
	for _, pfx := range staticPrefixes {
		genStaticSession(r, emit, pfx, staticIndexes[r.Intn(3)], nreq, false)
	}
	for _, idx := range staticIndexes {
		genStaticSession(r, emit, staticPrefixes[r.Intn(5)], idx, nreq, false)
	}
	for i := 0; i < extra; i++ {
		genStaticSession(r, emit, staticPrefixes[r.Intn(len(staticPrefixes))], staticIndexes[r.Intn(len(staticIndexes))], nreq, false)
	}
}
