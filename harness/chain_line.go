package main

// A function compiled with a //line directive that names a source file which does not exist: a panic
// raised here puts a frame with an unreadable source file on the stack (as in a deployed binary without
// its source tree, a -trimpath build, or generated code).

//line /nonexistent/generated/handlers.go:10
func panicFromUnreadableSource() {
	panic("a string value")
}
