package main

// C05 — the per-request OBSERVATIONS of concurrently served requests, against the request machine of
// lean/Flamego/Model/ConcReq.lean (theorems: lean/Flamego/Props/C05Req.lean).
//
//	NEW concreq <n> <isInterface bits> <implements rows>       the universe of harness/inject.go
//	    A  <ty> <vid>                 f.Map(value of concrete type ty, id vid) on the Flame   (set-up)   -> ok
//	    AT <ity> <cty> <vid>          f.MapTo(value of cty, (*ity)(nil)) on the Flame        (set-up)   -> ok
//	    R  <name hex> <route hex>     f.Any(route, handler).Name(name)                        (set-up)   -> ok | err
//	    B  <path hex> p | s - | s <code>:<n>   f.Before(h) on the Flame (set-up), hooks in line order; h looks at requests whose URL
//	                                  path is exactly <path> (it returns false for every other request): `p` returns false for
//	                                  them too, `s -` returns true having written nothing, `s code:n` returns true after
//	                                  WriteHeader(code) and Write(n bytes) on the CLIENT's writer                           -> ok
//	                                  A request some hook answers never gets a context: none of its operations is performed
//	                                  (`not-run`), its E line shows what the hook sent (`end 0 0 0 <events>`).
//	    Q  <rid> <route idx> <head 0|1> <path hex> <split> <k=v,…|->   declare request rid: the route it hits, its path,
//	                                  how many of its operations its MIDDLEWARE performs (the rest: the route's handler),
//	                                  the bind parameters the router will hand it (by construction of the path)      -> ok
//	    O  <rid> <op…>                the next micro-operation of request rid (program order = line order)  -> its observation
//	         m <ty> <vid>             c.Map(value)                         -> mapped
//	         mt <ity> <cty> <vid>     c.MapTo(value, (*ity)(nil))          -> mapped
//	         v <ty>                   c.Value(ty)                          -> val <id> | none
//	         wh <code> | w <len> | fl | bf <id> | st | sz | wr   on c.ResponseWriter()   -> w <obs> <status> <size>
//	         p <name hex>             c.Param(name)                        -> p <hex>
//	         sp <name hex> <val hex>  c.Params()[name] = val               -> stored
//	         rs                       c.Param("route")  (leaf.Route() = Route.String() under sync.Once)   -> rs <hex>
//	         u <name hex> <pairs hex…>  c.URLPath(name, pairs…)            -> u <hex> | u panic
//	    E  <rid>                      after the request returned           -> end <status> <size> <written> <events of the spy>
//
// The order of the O lines of a session is a SCHEDULE.  The executor serves all requests of the session on one
// Flame, in up to four passes (each of the first three on a fresh Flame):
//   pass 0  lock-step (always): a coordinator runs exactly one request goroutine at a time and switches between them at
//           micro-operation boundaries, in the order of the schedule — the interleaving of the model, deterministic,
//           and free of Go-level parallelism (so a framework mutation that shares a map shows up as a divergent
//           observation here instead of killing the process with "concurrent map writes");
//   pass 1… free-running (only in a -race build or with VERIF_CONCREQ_FREE=1; lib/props.py `_c05_concreq_race` runs
//           the -race build over the same sessions): all goroutines start at a barrier and yield between
//           micro-operations — true concurrency, this is where the race detector can see something;
//   last    free-running again on the Flame of the previous pass (warm once-caches).
// Every pass must make the same observations (a lookup with several admissible answers may differ: then all answers
// seen are printed, joined by `&`, and each must be admissible in the model).  The model's answer is `Conc.solo` of the
// request machine, i.e. the request served alone — whatever else is in flight.

import (
	"fmt"
	"hash/fnv"
	"io"
	"math/rand"
	"net/http"
	"net/http/httptest"
	"os"
	"regexp"
	"runtime"
	"sort"
	"strconv"
	"strings"
	"sync"

	"github.com/flamego/flamego"
)

// set by race_on.go when the harness is built with -race
var raceBuild = false

func init() {
	execs["concreq"] = execConcReq
}

func crFreePasses() int {
	switch os.Getenv("VERIF_CONCREQ_FREE") {
	case "0":
		return 0
	case "":
		if !raceBuild {
			return 0
		}
	}
	return 2
}

type crSpy struct {
	hdr    http.Header
	events []string
}

func (s *crSpy) Header() http.Header { return s.hdr }
func (s *crSpy) WriteHeader(c int)   { s.events = append(s.events, fmt.Sprintf("hdr%d", c)) }
func (s *crSpy) Write(b []byte) (int, error) {
	s.events = append(s.events, fmt.Sprintf("body%d", len(b)))
	return len(b), nil
}
func (s *crSpy) Flush() { s.events = append(s.events, "flush") }

type crReq struct {
	rid, route, split int
	head              bool
	path              string
	ops               [][]string // the fields after "O <rid>"
	lines             []int      // index of each op in the session body
	endLine           int
}

// one pass's view of one request
type crRun struct {
	q    *crReq
	spy  *crSpy
	w    flamego.ResponseWriter // the request's own writer, once a handler saw it
	obs  []string
	next   int           // next op to perform
	parked chan struct{} // lock-step: the goroutine is about to wait for its turn
	turn   chan struct{} // lock-step: permission to perform one op (and to run on until it parks again or returns)
	fin    chan struct{} // closed when ServeHTTP returned
}

// lock-step: wait until the request goroutine parks before its next operation (true) or has returned (false)
func (run *crRun) waitPark() bool {
	select {
	case <-run.parked:
		return true
	case <-run.fin:
		return false
	}
}

func (run *crRun) perform(c flamego.Context, upto int, lockstep bool, ids *injSession) {
	run.w = c.ResponseWriter()
	for run.next < upto && run.next < len(run.q.ops) {
		if lockstep {
			run.parked <- struct{}{}
			<-run.turn
		} else {
			runtime.Gosched()
		}
		op := run.q.ops[run.next]
		out := "op-panic"
		func() {
			defer func() {
				if r := recover(); r != nil {
					if len(op) > 0 && op[0] == "u" {
						out = "u panic"
					} else {
						out = "op-panic"
					}
				}
			}()
			out = crDo(c, run, op, ids)
		}()
		run.obs = append(run.obs, out)
		run.next++
	}
}

func crDo(c flamego.Context, run *crRun, op []string, ids *injSession) string {
	w := c.ResponseWriter()
	wobs := func(n int) string { return fmt.Sprintf("w %d %d %d", n, w.Status(), w.Size()) }
	switch {
	case len(op) == 3 && op[0] == "m":
		c.Map(mkVal(atoi(op[1]), atoi(op[2])))
		return "mapped"
	case len(op) == 4 && op[0] == "mt":
		c.MapTo(mkVal(atoi(op[2]), atoi(op[3])), ifacePtrs[atoi(op[1])])
		return "mapped"
	case len(op) == 2 && op[0] == "v":
		v := c.Value(injTypes[atoi(op[1])])
		if !v.IsValid() {
			return "none"
		}
		return "val " + strconv.Itoa(ids.idOf(v.Interface()))
	case len(op) == 2 && op[0] == "wh":
		w.WriteHeader(atoi(op[1]))
		return wobs(0)
	case len(op) == 2 && op[0] == "w":
		n, _ := w.Write(make([]byte, atoi(op[1])))
		return wobs(n)
	case len(op) == 1 && op[0] == "fl":
		w.Flush()
		return wobs(0)
	case len(op) == 2 && op[0] == "bf":
		id := op[1]
		w.Before(func(flamego.ResponseWriter) { run.spy.events = append(run.spy.events, "hook"+id) })
		return wobs(0)
	case len(op) == 1 && op[0] == "st":
		return wobs(w.Status())
	case len(op) == 1 && op[0] == "sz":
		return wobs(w.Size())
	case len(op) == 1 && op[0] == "wr":
		if w.Written() {
			return wobs(1)
		}
		return wobs(0)
	case len(op) == 2 && op[0] == "p":
		return "p " + hx(c.Param(unhx(op[1])))
	case len(op) == 3 && op[0] == "sp":
		c.Params()[unhx(op[1])] = unhx(op[2])
		return "stored"
	case len(op) == 1 && op[0] == "rs":
		return "rs " + hx(c.Param("route"))
	case len(op) >= 2 && op[0] == "u":
		pairs := make([]string, 0, len(op)-2)
		for _, p := range op[2:] {
			pairs = append(pairs, unhx(p))
		}
		return "u " + hx(c.URLPath(unhx(op[1]), pairs...))
	}
	return "bad-op"
}

func execConcReq(args []string, lines [][]string) []string {
	outs := make([]string, len(lines)+1)
	outs[0] = "new"
	// ---- parse
	type appMap struct{ ity, cty, vid int }
	var appMaps []appMap
	type routeDef struct{ name, text string }
	var routes []routeDef
	type hookDef struct {
		path    string
		stop    bool
		code, n int // code < 0: the hook writes nothing
	}
	var hooks []hookDef
	reqs := map[int]*crReq{}
	var order []int    // rids in declaration order
	var schedule []int // rid of every O line, in line order
	for i, l := range lines {
		switch {
		case len(l) == 3 && l[0] == "A":
			appMaps = append(appMaps, appMap{-1, atoi(l[1]), atoi(l[2])})
			outs[i+1] = "ok"
		case len(l) == 4 && l[0] == "AT":
			appMaps = append(appMaps, appMap{atoi(l[1]), atoi(l[2]), atoi(l[3])})
			outs[i+1] = "ok"
		case len(l) == 3 && l[0] == "R":
			routes = append(routes, routeDef{unhx(l[1]), unhx(l[2])})
			outs[i+1] = "ok" // set below to err if the registration panics
		case len(l) >= 3 && l[0] == "B":
			h := hookDef{path: unhx(l[1]), code: -1}
			switch {
			case len(l) == 3 && l[2] == "p":
			case len(l) == 4 && l[2] == "s" && l[3] == "-":
				h.stop = true
			case len(l) == 4 && l[2] == "s":
				p := strings.Split(l[3], ":")
				if len(p) != 2 {
					outs[i+1] = "bad-op"
					continue
				}
				code, ok1 := natField(p[0])
				n, ok2 := natField(p[1])
				if !ok1 || !ok2 {
					outs[i+1] = "bad-op"
					continue
				}
				h.stop, h.code, h.n = true, code, n
			default:
				outs[i+1] = "bad-op"
				continue
			}
			hooks = append(hooks, h)
			outs[i+1] = "ok"
		case len(l) == 7 && l[0] == "Q":
			q := &crReq{rid: atoi(l[1]), route: atoi(l[2]), head: l[3] == "1", path: unhx(l[4]), split: atoi(l[5]), endLine: -1}
			reqs[q.rid] = q
			order = append(order, q.rid)
			outs[i+1] = "ok"
		case len(l) >= 3 && l[0] == "O" && reqs[atoi(l[1])] != nil:
			q := reqs[atoi(l[1])]
			q.ops = append(q.ops, l[2:])
			q.lines = append(q.lines, i)
			schedule = append(schedule, q.rid)
		case len(l) == 2 && l[0] == "E" && reqs[atoi(l[1])] != nil:
			reqs[atoi(l[1])].endLine = i
		default:
			outs[i+1] = "bad-op"
		}
	}
	ids := &injSession{}
	// ---- one pass
	type passResult struct {
		obs map[int][]string
		end map[int]string
	}
	var routeErr map[int]bool
	build := func() (*flamego.Flame, map[int]*crRun, *bool) {
		flamego.SetEnv(flamego.EnvTypeProd)
		f := flamego.NewWithLogger(io.Discard)
		for _, m := range appMaps {
			if m.ity < 0 {
				f.Map(mkVal(m.cty, m.vid))
			} else {
				f.MapTo(mkVal(m.cty, m.vid), ifacePtrs[m.ity])
			}
		}
		for _, h := range hooks {
			h := h
			f.Before(func(w http.ResponseWriter, r *http.Request) bool {
				if r.URL.Path != h.path || !h.stop {
					return false
				}
				if h.code >= 0 {
					w.WriteHeader(h.code)
					_, _ = w.Write([]byte(strings.Repeat("x", h.n)))
				}
				return true
			})
		}
		runs := map[int]*crRun{}
		lockstep := new(bool)
		find := func(c flamego.Context) *crRun {
			rid, err := strconv.Atoi(c.Request().Header.Get("X-Rid"))
			if err != nil {
				return nil
			}
			return runs[rid] // read-only while serving
		}
		f.Use(func(c flamego.Context) {
			if run := find(c); run != nil {
				run.perform(c, run.q.split, *lockstep, ids)
			}
		})
		routeErr = map[int]bool{}
		for k, rd := range routes {
			func() {
				defer func() {
					if r := recover(); r != nil {
						routeErr[k] = true
					}
				}()
				f.Any(rd.text, func(c flamego.Context) {
					if run := find(c); run != nil {
						run.perform(c, len(run.q.ops), *lockstep, ids)
					}
				}).Name(rd.name)
			}()
		}
		return f, runs, lockstep
	}
	serve := func(f *flamego.Flame, runs map[int]*crRun, lockstep *bool, ls bool) passResult {
		*lockstep = ls
		for k := range runs {
			delete(runs, k)
		}
		for _, rid := range order {
			runs[rid] = &crRun{q: reqs[rid], spy: &crSpy{hdr: http.Header{}},
				parked: make(chan struct{}), turn: make(chan struct{}), fin: make(chan struct{})}
		}
		var wg sync.WaitGroup
		start := make(chan struct{})
		launch := func(run *crRun) {
			wg.Add(1)
			go func() {
				defer wg.Done()
				defer close(run.fin)
				defer func() { _ = recover() }()
				method := "GET"
				if run.q.head {
					method = "HEAD"
				}
				req := httptest.NewRequest(method, run.q.path, nil)
				req.Header.Set("X-Rid", strconv.Itoa(run.q.rid))
				<-start
				f.ServeHTTP(run.spy, req)
			}()
		}
		if ls {
			close(start)
			isParked := map[int]bool{}
			for _, rid := range order { // one at a time: routing and context creation, up to the first operation
				launch(runs[rid])
				isParked[rid] = runs[rid].waitPark()
			}
			step := func(rid int) {
				if isParked[rid] {
					runs[rid].turn <- struct{}{}
					isParked[rid] = runs[rid].waitPark()
				}
			}
			for _, rid := range schedule {
				step(rid)
			}
			for _, rid := range order { // not reached when every operation was scheduled
				for isParked[rid] {
					step(rid)
				}
			}
		} else {
			for _, rid := range order {
				launch(runs[rid])
			}
			close(start)
		}
		wg.Wait()
		res := passResult{obs: map[int][]string{}, end: map[int]string{}}
		for _, rid := range order {
			run := runs[rid]
			res.obs[rid] = run.obs
			tr := "none"
			if len(run.spy.events) > 0 {
				tr = strings.Join(run.spy.events, ",")
			}
			st, sz, wr := 0, 0, 0
			if run.w != nil {
				st, sz = run.w.Status(), run.w.Size()
				if run.w.Written() {
					wr = 1
				}
			}
			res.end[rid] = fmt.Sprintf("end %d %d %d %s", st, sz, wr, tr)
		}
		return res
	}
	freePasses := crFreePasses()
	var results []passResult
	f, runs, ls := build()
	results = append(results, serve(f, runs, ls, true))
	for k := 0; k < freePasses; k++ {
		f, runs, ls = build()
		results = append(results, serve(f, runs, ls, false))
	}
	if freePasses > 0 {
		results = append(results, serve(f, runs, ls, false)) // warm instance
	}
	for k := range routes {
		if routeErr[k] {
			n := 0
			for i, l := range lines {
				if len(l) == 3 && l[0] == "R" {
					if n == k {
						outs[i+1] = "err"
					}
					n++
				}
			}
		}
	}
	// ---- merge the passes
	merge := func(vals []string) string {
		set := map[string]bool{}
		for _, v := range vals {
			set[v] = true
		}
		if len(set) == 1 {
			return vals[0]
		}
		var ds []string
		allVal := true
		for v := range set {
			ds = append(ds, v)
			if !strings.HasPrefix(v, "val ") {
				allVal = false
			}
		}
		sort.Strings(ds)
		if allVal {
			for i := range ds {
				ds[i] = strings.TrimPrefix(ds[i], "val ")
			}
			return "val " + strings.Join(ds, "&")
		}
		return "passes-diverge " + strings.Join(ds, " // ")
	}
	for _, rid := range order {
		q := reqs[rid]
		for k, li := range q.lines {
			var vals []string
			for _, res := range results {
				if k < len(res.obs[rid]) {
					vals = append(vals, res.obs[rid][k])
				} else {
					vals = append(vals, "not-run")
				}
			}
			outs[li+1] = merge(vals)
		}
		if q.endLine >= 0 {
			var vals []string
			for _, res := range results {
				vals = append(vals, res.end[rid])
			}
			outs[q.endLine+1] = merge(vals)
		}
	}
	for i := range outs {
		if outs[i] == "" {
			outs[i] = "bad-op"
		}
	}
	return outs
}

// ------------------------------------------------------------------------------------ generator

type crRoute struct {
	name, text string
	// path and bind parameters for two words
	mk func(a, b string) (string, map[string]string)
	// the names of the route's bind parameters
	binds []string
}

// ---- the family of regex segments with SEVERAL bind parameters: every bind has an expression of its own, some of
// them with capturing groups of their own (the framework then has to map sub-matches to names by position); literals
// between the binds; the segment last in the route (a regex leaf) or followed by further segments (a regex subtree).
type rxExpr struct {
	expr string
	vals []string // strings the expression accepts in full; none contains a separator
}

var rxPlain = []rxExpr{
	{`[0-9]+`, []string{"7", "2024", "11", "305"}},
	{`[a-z]+`, []string{"news", "misc", "blog", "q"}},
}

var rxGrouped = []rxExpr{
	{`(x|y)z`, []string{"xz", "yz"}},
	{`(a|b)(c|d)`, []string{"ac", "bd", "ad"}},
	{`k(l)?`, []string{"k", "kl"}},
	{`((u|v)w)+`, []string{"uw", "vwuw", "vw"}},
}

// how many binds the segment has, which of them is the FIRST whose expression has groups of its own (-1: none; later
// ones may have groups too), and whether the segment is the last of the route
type rxShape struct {
	nb, gpos int
	final    bool
}

func rxShapes() []rxShape {
	var out []rxShape
	for nb := 1; nb <= 4; nb++ {
		for g := -1; g < nb; g++ {
			out = append(out, rxShape{nb, g, false}, rxShape{nb, g, true})
		}
	}
	return out
}

func crRegexRoute(r *rand.Rand, k int, sh rxShape) crRoute {
	names := []string{"a", "b", "c", "d"}[:sh.nb]
	exprs := make([]rxExpr, sh.nb)
	seps := make([]string, sh.nb) // seps[0]: a literal in front of the first bind
	for i := range exprs {
		switch {
		case i == sh.gpos, i > sh.gpos && sh.gpos >= 0 && r.Intn(4) == 0:
			exprs[i] = rxGrouped[r.Intn(len(rxGrouped))]
		default:
			exprs[i] = rxPlain[r.Intn(len(rxPlain))]
		}
		seps[i] = []string{"-", ".", "_"}[r.Intn(3)]
	}
	seps[0] = []string{"", "", "v"}[r.Intn(3)]
	seg, pat := "", "^"
	for i := range exprs {
		seg += seps[i] + "{" + names[i] + ": /" + exprs[i].expr + "/}"
		pat += regexp.QuoteMeta(seps[i]) + "(" + exprs[i].expr + ")"
	}
	re := regexp.MustCompile(pat + "$")
	tail := 0 // final
	if !sh.final {
		tail = 1 + r.Intn(3)
	}
	text := fmt.Sprintf("/x%d/%s%s", k, seg, []string{"", "/show", "/{t}", "/{t: /[a-z]+/}"}[tail])
	binds := append([]string{}, names...)
	if tail >= 2 {
		binds = append(binds, "t")
	}
	return crRoute{text: text, binds: binds, mk: func(a, b string) (string, map[string]string) {
		h := fnv.New32a()
		_, _ = h.Write([]byte(a + "|" + b))
		x := h.Sum32()
		ps := map[string]string{}
		inst := ""
		for i := range exprs {
			v := exprs[i].vals[int(x>>(4*uint(i)))%len(exprs[i].vals)]
			ps[names[i]] = v
			inst += seps[i] + v
		}
		// the values are the generator's claim about what the router hands over: Go's regexp has the last word
		m, gi := re.FindStringSubmatch(inst), 1
		for i := range exprs {
			if m == nil || m[gi] != ps[names[i]] {
				fatal("concreq generator: " + text + " does not split " + inst + " the way the generator thinks")
			}
			gi += 1 + regexp.MustCompile(exprs[i].expr).NumSubexp()
		}
		path := fmt.Sprintf("/x%d/%s", k, inst)
		switch tail {
		case 1:
			path += "/show"
		case 2:
			ps["t"] = b
			path += "/" + b
		case 3:
			ps["t"] = rxPlain[1].vals[int(x>>20)%len(rxPlain[1].vals)]
			path += "/" + ps["t"]
		}
		return path, ps
	}}
}

func crRoutes(r *rand.Rand) []crRoute {
	all := []func(k int) crRoute{
		func(k int) crRoute {
			t := fmt.Sprintf("/s%d/fixed", k)
			return crRoute{text: t, mk: func(a, b string) (string, map[string]string) { return t, map[string]string{} }}
		},
		func(k int) crRoute {
			return crRoute{text: fmt.Sprintf("/p%d/{a}", k), binds: []string{"a"}, mk: func(a, b string) (string, map[string]string) {
				return fmt.Sprintf("/p%d/%s", k, a), map[string]string{"a": a}
			}}
		},
		func(k int) crRoute {
			return crRoute{text: fmt.Sprintf("/q%d/{a}/{b}", k), binds: []string{"a", "b"}, mk: func(a, b string) (string, map[string]string) {
				return fmt.Sprintf("/q%d/%s/%s", k, a, b), map[string]string{"a": a, "b": b}
			}}
		},
		func(k int) crRoute {
			return crRoute{text: fmt.Sprintf("/o%d/{a}/?{b}", k), binds: []string{"a", "b"}, mk: func(a, b string) (string, map[string]string) {
				if len(b)%2 == 0 {
					return fmt.Sprintf("/o%d/%s", k, a), map[string]string{"a": a}
				}
				return fmt.Sprintf("/o%d/%s/%s", k, a, b), map[string]string{"a": a, "b": b}
			}}
		},
		func(k int) crRoute {
			return crRoute{text: fmt.Sprintf("/g%d/{a: /[a-z0-9]+/}/x", k), binds: []string{"a"}, mk: func(a, b string) (string, map[string]string) {
				return fmt.Sprintf("/g%d/%s/x", k, a), map[string]string{"a": a}
			}}
		},
		func(k int) crRoute {
			return crRoute{text: fmt.Sprintf("/m%d/{b: **}", k), binds: []string{"b"}, mk: func(a, b string) (string, map[string]string) {
				return fmt.Sprintf("/m%d/%s/%s", k, a, b), map[string]string{"b": a + "/" + b}
			}}
		},
		func(k int) crRoute { // a regex segment with several binds, of any shape
			shapes := rxShapes()
			return crRegexRoute(r, k, shapes[r.Intn(len(shapes))])
		},
		func(k int) crRoute {
			shapes := rxShapes()
			return crRegexRoute(r, k, shapes[r.Intn(len(shapes))])
		},
	}
	n := 2 + r.Intn(3)
	var out []crRoute
	for k := 0; k < n; k++ {
		rt := all[r.Intn(len(all))](k)
		rt.name = fmt.Sprintf("n%d", k)
		out = append(out, rt)
	}
	return out
}

var crConcrete = []int{tyS, tyPS, tyN, tyStr, tyPO, tyO}
var crIfaces = []int{tyIfA, tyIfB, tyIfAB, tyIfN}

func crParamsField(ps map[string]string) string {
	if len(ps) == 0 {
		return "-"
	}
	var ks []string
	for k := range ps {
		ks = append(ks, k)
	}
	sort.Strings(ks)
	for i, k := range ks {
		ks[i] = hx(k) + "=" + hx(ps[k])
	}
	return strings.Join(ks, ",")
}

// a random micro-operation of request rid (k-th), biased towards the session's hot types
func crOp(r *rand.Rand, rid, k int, hot []int, routes []crRoute, vid *int) string {
	words := []string{"alice", "bob", "x1", "42", "zed"}
	ty := func() int {
		if r.Intn(4) > 0 {
			return hot[r.Intn(len(hot))]
		}
		return r.Intn(nInjTypes)
	}
	switch c := r.Intn(20); {
	case c < 4:
		t := ty()
		for isIfaceIdx(t) || t == tyChan || t == tyFunc {
			t = crConcrete[r.Intn(len(crConcrete))]
		}
		*vid++
		return fmt.Sprintf("m %d %d", t, *vid)
	case c < 5:
		it := crIfaces[r.Intn(3)]
		var cs []int
		for _, ct := range crConcrete {
			if implementsIdx(ct, it) {
				cs = append(cs, ct)
			}
		}
		*vid++
		return fmt.Sprintf("mt %d %d %d", it, cs[r.Intn(len(cs))], *vid)
	case c < 10:
		return fmt.Sprintf("v %d", ty())
	case c < 11:
		return fmt.Sprintf("wh %d", []int{200, 201, 404, 500, 302}[r.Intn(5)])
	case c < 12:
		return fmt.Sprintf("w %d", r.Intn(6))
	case c < 13:
		return []string{"fl", fmt.Sprintf("bf %d", 10*rid+k), "wr"}[r.Intn(3)]
	case c < 14:
		return []string{"st", "sz"}[r.Intn(2)]
	case c < 16:
		return "p " + hx([]string{"a", "b", "tenant", "nope", "c", "d", "t"}[r.Intn(7)])
	case c < 17:
		return fmt.Sprintf("sp %s %s", hx([]string{"a", "b", "tenant"}[r.Intn(3)]), hx(fmt.Sprintf("%s-%d", words[r.Intn(len(words))], rid)))
	case c < 18:
		return "rs"
	default:
		name := fmt.Sprintf("n%d", r.Intn(len(routes)+1)) // the last one does not exist
		if r.Intn(8) > 0 {
			name = routes[r.Intn(len(routes))].name
		}
		pairs := []string{hx("a"), hx(words[r.Intn(len(words))] + strconv.Itoa(rid))}
		if r.Intn(2) == 0 {
			pairs = append(pairs, hx("b"), hx(words[r.Intn(len(words))]))
		}
		if r.Intn(3) == 0 {
			pairs = append(pairs, hx("withOptional"), hx("true"))
		}
		return "u " + hx(name) + " " + strings.Join(pairs, " ")
	}
}

func crIsTrigger(op string) bool {
	return strings.HasPrefix(op, "wh ") || strings.HasPrefix(op, "w ") || op == "fl"
}

// a Before hook of a session: it looks at the requests whose path is that of request `rid` (rid < 0: at a path no
// request of the session has); act as on the B line
type crHook struct {
	rid int
	act string
}

// what a session looks like beyond its programs: Before hooks of the Flame, and (optionally) for every request how many
// of its operations its middleware performs (nil: drawn)
type crShape struct {
	hooks  []crHook
	splits []int
}

func crEmitSession(r *rand.Rand, emit Emit, appMaps []string, routes []crRoute, progs [][]string, heads []bool, routeOf []int, sched []int, shape ...crShape) {
	var sh crShape
	if len(shape) > 0 {
		sh = shape[0]
	}
	emit("NEW concreq %s", universeArgs(nInjTypes))
	for _, a := range appMaps {
		emit("%s", a)
	}
	for _, rt := range routes {
		emit("R %s %s", hx(rt.name), hx(rt.text))
	}
	words := []string{"alice", "bob", "x1", "42", "zed", "q"}
	paths := make([]string, len(progs))
	params := make([]map[string]string, len(progs))
	for rid := range progs {
		rt := routes[routeOf[rid]]
		paths[rid], params[rid] = rt.mk(words[r.Intn(len(words))]+strconv.Itoa(rid), words[r.Intn(len(words))])
	}
	for _, h := range sh.hooks {
		path := "/healthz"
		if h.rid >= 0 && h.rid < len(paths) {
			path = paths[h.rid]
		}
		emit("B %s %s", hx(path), h.act)
	}
	for rid, prog := range progs {
		// the middleware performs a prefix that contains no operation that sends the status (the chain stops once written)
		firstTrig := len(prog)
		for k, op := range prog {
			if crIsTrigger(op) {
				firstTrig = k
				break
			}
		}
		split := r.Intn(firstTrig + 1)
		if sh.splits != nil && sh.splits[rid] <= firstTrig {
			split = sh.splits[rid]
		}
		h := 0
		if heads[rid] {
			h = 1
		}
		emit("Q %d %d %d %s %d %s", rid, routeOf[rid], h, hx(paths[rid]), split, crParamsField(params[rid]))
	}
	next := make([]int, len(progs))
	for _, rid := range sched {
		emit("O %d %s", rid, progs[rid][next[rid]])
		next[rid]++
	}
	for rid := range progs {
		emit("E %d", rid)
	}
}

// all interleavings of sequences of the given lengths (as lists of sequence numbers)
func crInterleavingsN(lens []int) [][]int {
	done := true
	for _, n := range lens {
		if n > 0 {
			done = false
		}
	}
	if done {
		return [][]int{nil}
	}
	var out [][]int
	for i, n := range lens {
		if n > 0 {
			rest := append([]int{}, lens...)
			rest[i]--
			for _, t := range crInterleavingsN(rest) {
				out = append(out, append([]int{i}, t...))
			}
		}
	}
	return out
}

func crHookAct(r *rand.Rand, stop bool) string {
	if !stop {
		return "p"
	}
	return []string{"s -", "s 200:2", "s 204:0", "s 403:5"}[r.Intn(4)]
}

// all interleavings of two sequences of lengths a and b (as lists of 0/1)
func crInterleavings(a, b int) [][]int {
	if a == 0 && b == 0 {
		return [][]int{nil}
	}
	var out [][]int
	if a > 0 {
		for _, t := range crInterleavings(a-1, b) {
			out = append(out, append([]int{0}, t...))
		}
	}
	if b > 0 {
		for _, t := range crInterleavings(a, b-1) {
			out = append(out, append([]int{1}, t...))
		}
	}
	return out
}

func genConcReq(r *rand.Rand, tier string, emit Emit) {
	// ---- small scope, exhaustive: two requests, two operations each over a 5-letter alphabet on ONE type that the
	// application scope also holds; every pair of programs; every interleaving (quick: one drawn per pair)
	rt := []crRoute{{name: "n0", text: "/p0/{a}", mk: func(a, b string) (string, map[string]string) {
		return "/p0/" + a, map[string]string{"a": a}
	}}}
	alpha := func(rid int) []string {
		return []string{fmt.Sprintf("m %d %d", tyStr, 1000+rid), fmt.Sprintf("v %d", tyStr), "w 3", "st", "p " + hx("a")}
	}
	inter := crInterleavings(2, 2)
	for _, a1 := range alpha(0) {
		for _, a2 := range alpha(0) {
			for _, b1 := range alpha(1) {
				for _, b2 := range alpha(1) {
					progs := [][]string{{a1, a2}, {b1, b2}}
					if tier == "thorough" {
						for _, s := range inter {
							crEmitSession(r, emit, []string{fmt.Sprintf("A %d 77", tyStr)}, rt, progs, []bool{false, false}, []int{0, 0}, s)
						}
					} else {
						crEmitSession(r, emit, []string{fmt.Sprintf("A %d 77", tyStr)}, rt, progs, []bool{false, false}, []int{0, 0}, inter[r.Intn(len(inter))])
					}
				}
			}
		}
	}
	// ---- the same on a fully STATIC route (served by the router's static shortcut): stores into and reads from the
	// request's own Params, the once-guarded route text, the status
	rs := []crRoute{{name: "n0", text: "/s0/fixed", mk: func(a, b string) (string, map[string]string) {
		return "/s0/fixed", map[string]string{}
	}}}
	beta := func(rid int) []string {
		return []string{fmt.Sprintf("sp %s %s", hx("tenant"), hx(fmt.Sprintf("t%d", rid))), "p " + hx("tenant"), "rs", "wh 201"}
	}
	for _, a1 := range beta(0) {
		for _, a2 := range beta(0) {
			for _, b1 := range beta(1) {
				for _, b2 := range beta(1) {
					progs := [][]string{{a1, a2}, {b1, b2}}
					if tier == "thorough" {
						for _, s := range inter {
							crEmitSession(r, emit, nil, rs, progs, []bool{false, true}, []int{0, 0}, s)
						}
					} else {
						crEmitSession(r, emit, nil, rs, progs, []bool{false, r.Intn(2) == 0}, []int{0, 0}, inter[r.Intn(len(inter))])
					}
				}
			}
		}
	}
	// ---- every bind parameter of a route read by every request, while / after other requests went through the same
	// nodes of the route tree: one session (thorough: six) for every shape of the family of regex segments with several
	// binds, and as many on routes of the other kinds
	perShape := 1
	if tier == "thorough" {
		perShape = 6
	}
	for _, shp := range rxShapes() {
		for rep := 0; rep < 2*perShape; rep++ {
			var routes []crRoute
			if rep%2 == 0 {
				routes = []crRoute{crRegexRoute(r, 0, shp)}
				if r.Intn(3) == 0 {
					routes = append(routes, crRegexRoute(r, 1, shp))
				}
			} else {
				routes = crRoutes(r)
			}
			for k := range routes {
				routes[k].name = fmt.Sprintf("n%d", k)
			}
			nreq := 2 + r.Intn(3)
			progs := make([][]string, nreq)
			routeOf := make([]int, nreq)
			var sched []int
			for rid := range progs {
				routeOf[rid] = r.Intn(len(routes))
				if rid == 1 {
					routeOf[rid] = routeOf[0] // at least two requests on one route
				}
				for _, b := range routes[routeOf[rid]].binds {
					progs[rid] = append(progs[rid], "p "+hx(b))
				}
				progs[rid] = append(progs[rid], "rs")
				r.Shuffle(len(progs[rid]), func(i, j int) { progs[rid][i], progs[rid][j] = progs[rid][j], progs[rid][i] })
				for range progs[rid] {
					sched = append(sched, rid)
				}
			}
			r.Shuffle(len(sched), func(i, j int) { sched[i], sched[j] = sched[j], sched[i] })
			crEmitSession(r, emit, nil, routes, progs, make([]bool, nreq), routeOf, sched)
		}
	}
	// ---- histories with requests that a Before hook of the Flame answers (they never reach the router), small scope:
	// three requests on one route, one of them answered by a hook (declared first, second or last), the other two with
	// two operations each, one / both / none of them performed by the middleware; every interleaving of the two
	{
		gamma := func(rid int) []string {
			return []string{"p " + hx("a"), "st", fmt.Sprintf("m %d %d", tyStr, 1000+rid), fmt.Sprintf("v %d", tyStr), "w 2", "rs"}
		}
		inter3 := crInterleavingsN([]int{2, 2})
		for hooked := 0; hooked < 3; hooked++ {
			var others []int
			for rid := 0; rid < 3; rid++ {
				if rid != hooked {
					others = append(others, rid)
				}
			}
			for s1 := 0; s1 <= 2; s1++ {
				for s2 := 0; s2 <= 2; s2++ {
					for _, il := range inter3 {
						progs := make([][]string, 3)
						splits := make([]int, 3)
						for rid := range progs {
							g := gamma(rid)
							progs[rid] = []string{g[r.Intn(4)], g[r.Intn(len(g))]}
						}
						splits[others[0]], splits[others[1]] = s1, s2
						var sched []int
						for _, w := range il {
							sched = append(sched, others[w])
						}
						// the operations of the answered request are lines of the session too (never performed)
						at := r.Intn(len(sched) + 1)
						sched = append(sched[:at:at], append([]int{hooked, hooked}, sched[at:]...)...)
						hooks := []crHook{{hooked, crHookAct(r, true)}}
						if r.Intn(3) == 0 {
							hooks = append([]crHook{{others[r.Intn(2)], "p"}}, hooks...)
						}
						if r.Intn(4) == 0 {
							hooks = append(hooks, crHook{-1, crHookAct(r, true)})
						}
						crEmitSession(r, emit, []string{fmt.Sprintf("A %d 77", tyStr)}, rt, progs, []bool{false, false, r.Intn(4) == 0}, []int{0, 0, 0}, sched,
							crShape{hooks: hooks, splits: splits})
					}
				}
			}
		}
	}
	// ---- random sessions
	n := 120
	if tier == "thorough" {
		n = 1500
	}
	for s := 0; s < n; s++ {
		routes := crRoutes(r)
		hot := []int{crConcrete[r.Intn(len(crConcrete))], crConcrete[r.Intn(len(crConcrete))], crIfaces[r.Intn(len(crIfaces))]}
		vid := 100
		var appMaps []string
		for k := r.Intn(4); k > 0; k-- {
			vid++
			if r.Intn(4) == 0 {
				it := crIfaces[r.Intn(3)]
				var cs []int
				for _, ct := range crConcrete {
					if implementsIdx(ct, it) {
						cs = append(cs, ct)
					}
				}
				appMaps = append(appMaps, fmt.Sprintf("AT %d %d %d", it, cs[r.Intn(len(cs))], vid))
			} else {
				t := hot[r.Intn(2)]
				if r.Intn(3) == 0 {
					t = crConcrete[r.Intn(len(crConcrete))]
				}
				appMaps = append(appMaps, fmt.Sprintf("A %d %d", t, vid))
			}
		}
		nreq := 2 + r.Intn(4)
		if tier == "thorough" && r.Intn(6) == 0 {
			nreq = 6 + r.Intn(10)
		}
		progs := make([][]string, nreq)
		heads := make([]bool, nreq)
		routeOf := make([]int, nreq)
		var sched []int
		for rid := 0; rid < nreq; rid++ {
			v := 1000 * (rid + 1)
			for k, m := 0, 2+r.Intn(9); k < m; k++ {
				progs[rid] = append(progs[rid], crOp(r, rid, k, hot, routes, &v))
				sched = append(sched, rid)
			}
			heads[rid] = r.Intn(5) == 0
			routeOf[rid] = r.Intn(len(routes))
		}
		r.Shuffle(len(sched), func(i, j int) { sched[i], sched[j] = sched[j], sched[i] })
		// every other session: Before hooks on the Flame — some answer one of the session's requests (and every request
		// with the same path), some look at a request and pass it on, some wait for a path nobody asks for
		var hooks []crHook
		if r.Intn(2) == 0 {
			for k := 1 + r.Intn(3); k > 0; k-- {
				h := crHook{rid: r.Intn(nreq), act: crHookAct(r, r.Intn(3) > 0)}
				if r.Intn(4) == 0 {
					h.rid = -1
				}
				hooks = append(hooks, h)
			}
		}
		crEmitSession(r, emit, appMaps, routes, progs, heads, routeOf, sched, crShape{hooks: hooks})
	}
}
