package main

// C04 — a second, tiny type universe for the injector: channel types of one element type in the three directions
// (`chan int`, `<-chan int`, `chan<- int`) and `string`.  They are three DIFFERENT types — a value registered for one
// of them is the answer for exactly that type, in its own scope — although Go lets a bidirectional channel be
// assigned to either directional type.  Session kind `injectc`, same line protocol and the same model driver as
// `inject` (the universe travels on the NEW line: no interfaces, nobody implements anything).
//
//	NEW injectc 4 0000 0000,0000,0000,0000 <nScopes>
//	M <scope> <ty> <vid> | S <scope> <ty> <ty> <vid> | V <scope> <ty> | I <scope> p <sig> <results>

import (
	"fmt"
	"math/rand"
	"reflect"
	"strconv"
	"strings"

	"github.com/flamego/flamego/inject"
)

var chanTypes = []reflect.Type{
	reflect.TypeOf((chan int)(nil)),
	reflect.TypeOf((<-chan int)(nil)),
	reflect.TypeOf((chan<- int)(nil)),
	reflect.TypeOf(""),
}

const chanUniverse = "4 0000 0000,0000,0000,0000"

func init() { execs["injectc"] = execInjectChan }

func chanVal(ty, id int) interface{} {
	switch ty {
	case 0:
		return make(chan int, id)
	case 1:
		return (<-chan int)(make(chan int, id))
	case 2:
		return (chan<- int)(make(chan int, id))
	}
	return strconv.Itoa(id)
}

func chanID(v reflect.Value) int {
	if v.Kind() == reflect.Chan {
		return v.Cap()
	}
	n, _ := strconv.Atoi(v.String())
	return n
}

func execInjectChan(args []string, lines [][]string) []string {
	if len(args) != 4 || strings.Join(args[:3], " ") != chanUniverse {
		outs := []string{"bad-universe"}
		for range lines {
			outs = append(outs, "bad-universe")
		}
		return outs
	}
	n := atoi(args[3])
	scopes := make([]inject.Injector, n)
	for i := n - 1; i >= 0; i-- {
		scopes[i] = inject.New()
		if i+1 < n {
			scopes[i].SetParent(scopes[i+1])
		}
	}
	outs := []string{"new"}
	for _, l := range lines {
		outs = append(outs, func() (out string) {
			defer func() {
				if r := recover(); r != nil {
					out = "panic"
				}
			}()
			ok := func(ty string) bool { t := atoi(ty); return t >= 0 && t < len(chanTypes) }
			switch {
			case len(l) == 4 && l[0] == "M" && atoi(l[1]) < n && ok(l[2]):
				scopes[atoi(l[1])].Map(chanVal(atoi(l[2]), atoi(l[3])))
				return "ok"
			case len(l) == 5 && l[0] == "S" && atoi(l[1]) < n && ok(l[2]) && l[2] == l[3]:
				scopes[atoi(l[1])].Set(chanTypes[atoi(l[2])], reflect.ValueOf(chanVal(atoi(l[3]), atoi(l[4]))))
				return "ok"
			case len(l) == 3 && l[0] == "V" && atoi(l[1]) < n && ok(l[2]):
				v := scopes[atoi(l[1])].Value(chanTypes[atoi(l[2])])
				if !v.IsValid() {
					return "none"
				}
				return fmt.Sprintf("val %d", chanID(v))
			case len(l) == 5 && l[0] == "I" && l[2] == "p" && atoi(l[1]) < n:
				sig, res := parseInts(l[3]), parseInts(l[4])
				in := make([]reflect.Type, len(sig))
				for i, t := range sig {
					if t < 0 || t >= len(chanTypes) {
						return "bad-op"
					}
					in[i] = chanTypes[t]
				}
				outT := make([]reflect.Type, len(res))
				for i := range outT {
					outT[i] = reflect.TypeOf(0)
				}
				calls, seen := 0, "-"
				fn := reflect.MakeFunc(reflect.FuncOf(in, outT, false), func(a []reflect.Value) []reflect.Value {
					calls++
					ids := make([]string, len(a))
					for i, v := range a {
						ids[i] = strconv.Itoa(chanID(v))
					}
					if len(ids) > 0 {
						seen = strings.Join(ids, ",")
					}
					rs := make([]reflect.Value, len(res))
					for i, x := range res {
						rs[i] = reflect.ValueOf(x)
					}
					return rs
				})
				vals, err := scopes[atoi(l[1])].Invoke(fn.Interface())
				if err != nil {
					t := -1
					for i, ct := range chanTypes {
						if strings.HasSuffix(err.Error(), ": "+ct.String()) || strings.Contains(err.Error(), "type "+ct.String()) {
							t = i
						}
					}
					// the longest matching type name wins ("chan int" is a suffix of "<-chan int")
					best := -1
					for i, ct := range chanTypes {
						if strings.HasSuffix(err.Error(), ct.String()) && (best < 0 || len(ct.String()) > len(chanTypes[best].String())) {
							best = i
						}
					}
					if best >= 0 {
						t = best
					}
					return fmt.Sprintf("err notfound %d calls=%d", t, calls)
				}
				got := make([]int, len(vals))
				for i, v := range vals {
					got[i] = int(v.Int())
				}
				return fmt.Sprintf("ran %s calls=%d res=%s", seen, calls, joinInts(got))
			}
			return "bad-op"
		}())
	}
	return outs
}

// genInjectChan: every pair of registrations over the three channel types in one or two scopes, every lookup and a few
// invocations afterwards, then random sessions
func genInjectChan(r *rand.Rand, emit Emit, random int) {
	regs := []string{"M %d 0 %d", "M %d 1 %d", "M %d 2 %d", "S %d 1 1 %d", "S %d 2 2 %d", "M %d 3 %d"}
	probe := func(ns int) {
		for s := 0; s < ns; s++ {
			for t := 0; t < 4; t++ {
				emit("V %d %d", s, t)
			}
			emit("I %d p 0,1,2 5", s)
			emit("I %d p 2,1 -", s)
			emit("I %d p 1 7,8", s)
		}
	}
	for ns := 1; ns <= 2; ns++ {
		for a := range regs {
			for b := range regs {
				for sa := 0; sa < ns; sa++ {
					for sb := 0; sb < ns; sb++ {
						emit("NEW injectc %s %d", chanUniverse, ns)
						emit(regs[a], sa, 11)
						emit(regs[b], sb, 22)
						probe(ns)
					}
				}
			}
		}
	}
	for i := 0; i < random; i++ {
		ns := 1 + r.Intn(3)
		emit("NEW injectc %s %d", chanUniverse, ns)
		vid := 0
		for k := 1 + r.Intn(5); k > 0; k-- {
			vid++
			emit(regs[r.Intn(len(regs))], r.Intn(ns), vid)
			if r.Intn(2) == 0 {
				emit("V %d %d", r.Intn(ns), r.Intn(4))
			}
		}
		probe(ns)
	}
}
