package main

// C03 / C15 — the handler chain and Recovery, against a REAL *flamego.Flame.
//
// Session:  NEW chain <dev> <nmw> <ngrp> <nrt> <action> [GET|HEAD|POST]   then `H …` lines (chain order) and `REQ` lines
// (format: lean/Flamego/Driver/Chain.lean).  Each REQ serves one request on the same instance and prints
//     <enter/exit/abort events> | <what the client's http.ResponseWriter received> | esc=<recovered panic kind>

import (
	"bufio"
	gocontext "context"
	"errors"
	"fmt"
	"io"
	"math/rand"
	"net"
	"net/http"
	"net/http/httptest"
	"os"
	"runtime"
	"strings"
	"syscall"
	"time"

	"github.com/flamego/flamego"
)

func init() {
	execs["chain"] = execChain
	gens["C03"] = func(r *rand.Rand, tier string, emit Emit) { genChain(r, tier, emit, false) }
	gens["C15"] = func(r *rand.Rand, tier string, emit Emit) {
		genChain(r, tier, emit, true)
		// which mode a process is in: FLAMEGO_ENV at start, SetEnv afterwards (harness/envinit.go)
		n := 25
		if tier == "thorough" {
			n = 300
		}
		genEnvInit(r, emit, n)
		// whole applications (harness/appfull.go, Model/AppFull): Recovery next to a custom ReturnHandler, the injector's
		// scopes, Static and the Renderer — a panic is answered by Recovery itself, whatever else the application has mapped
		m := 120
		if tier == "thorough" {
			m = 2500
		}
		for i := 0; i < m; i++ {
			afRandomSession(r, emit)
		}
	}
}

// ---------------------------------------------------------------------------- programs

type chainAct struct {
	op   byte // w b n c m h p
	n    int  // code / length
	kind byte // panic kind S E R T A
}

type chainHandler struct {
	kind byte // p r u
	acts []chainAct
	ret  byte // '-' 'N' 'W' 'B'
	code int
	blen int
	// sig: the Go signature that delivers the return effect (`<ret>/<sig>` on the H line); "" = the default carrier
	// (func(Context), func(Context) string, func(Context) (int, string)).  See chainSigOK.
	sig string
}

// ---------------------------------------------------------------------------- signatures
//
// A handler's return effect (nothing / a body / a status and a body) can be delivered by many Go function types: the
// parameter list decides HOW the framework invokes the function (validateAndWrapHandler special-cases some complete
// signatures with a FastInvoker, everything else goes through reflect), the result list decides which row of the
// return-value table renders it.  sig = <params><results>:
//     params   c (Context) | 0 () | w (http.ResponseWriter, *http.Request) | q (Context, *http.Request) | r (*http.Request)
//     results  - | s string | b []byte | e error | is (int, string) | ib (int, []byte) | ie (int, error)
//              | se (string, error) | be ([]byte, error)
// and the values returned are the ones that make the documented table produce the effect:
//     N            "" / nil / nil error / ("", nil) / (nil, nil)
//     B<len>       the body as string / []byte, the error (if any) nil
//     W<code>:<len> (code, body) for is / ib; for ie: (code, nil) when len = 0, else (code, error whose text is the body);
//                  for e / se / be only W500:<len>0>: a non-nil error whose text is the body (the table answers 500 + text)
var chainSigParams = "c0wqr"
var chainSigResults = []string{"-", "s", "b", "e", "is", "ib", "ie", "se", "be"}

func chainSigOK(h *chainHandler) bool {
	if h.sig == "" {
		return true
	}
	if len(h.sig) < 2 || !strings.ContainsRune(chainSigParams, rune(h.sig[0])) {
		return false
	}
	res := h.sig[1:]
	in := func(xs ...string) bool {
		for _, x := range xs {
			if x == res {
				return true
			}
		}
		return false
	}
	switch h.ret {
	case '-':
		return res == "-"
	case 'N':
		return in("s", "b", "e", "se", "be")
	case 'B':
		return in("s", "b", "se", "be")
	case 'W':
		return in("is", "ib", "ie") || (in("e", "se", "be") && h.code == http.StatusInternalServerError && h.blen > 0)
	}
	return false
}

// error values whose text is n times 'x', of several concrete kinds (struct, pointer, string, byte slice)
type chainRetErr struct{ n int }

func (e chainRetErr) Error() string { return strings.Repeat("x", e.n) }

type chainRetPtrErr struct{ n int }

func (e *chainRetPtrErr) Error() string { return strings.Repeat("x", e.n) }

type chainRetStrErr string // the `const ErrX = constError("…")` idiom; the text is NOT the plain conversion

func (e chainRetStrErr) Error() string { return strings.Repeat("x", len(e)-3) }

type chainRetBytesErr []byte

func (e chainRetBytesErr) Error() string { return strings.Repeat("x", len(e)-3) }

func chainRetError(i, n int) error {
	switch (i + n) % 4 {
	case 1:
		return &chainRetPtrErr{n}
	case 2:
		return chainRetStrErr("E: " + strings.Repeat("y", n))
	case 3:
		return chainRetBytesErr("E: " + strings.Repeat("y", n))
	}
	return chainRetErr{n}
}

func chainWith0(p byte, ctx func() flamego.Context, body func(flamego.Context)) flamego.Handler {
	switch p {
	case '0':
		return func() { body(ctx()) }
	case 'w':
		return func(http.ResponseWriter, *http.Request) { body(ctx()) }
	case 'q':
		return func(c flamego.Context, _ *http.Request) { body(c) }
	case 'r':
		return func(*http.Request) { body(ctx()) }
	}
	return func(c flamego.Context) { body(c) }
}

func chainWith1[R any](p byte, ctx func() flamego.Context, body func(flamego.Context) R) flamego.Handler {
	switch p {
	case '0':
		return func() R { return body(ctx()) }
	case 'w':
		return func(http.ResponseWriter, *http.Request) R { return body(ctx()) }
	case 'q':
		return func(c flamego.Context, _ *http.Request) R { return body(c) }
	case 'r':
		return func(*http.Request) R { return body(ctx()) }
	}
	return func(c flamego.Context) R { return body(c) }
}

func chainWith2[R1, R2 any](p byte, ctx func() flamego.Context, body func(flamego.Context) (R1, R2)) flamego.Handler {
	switch p {
	case '0':
		return func() (R1, R2) { return body(ctx()) }
	case 'w':
		return func(http.ResponseWriter, *http.Request) (R1, R2) { return body(ctx()) }
	case 'q':
		return func(c flamego.Context, _ *http.Request) (R1, R2) { return body(c) }
	case 'r':
		return func(*http.Request) (R1, R2) { return body(ctx()) }
	}
	return func(c flamego.Context) (R1, R2) { return body(c) }
}

// sigHandler builds the Go func of signature h.sig for position i (chainSigOK holds).
func (h *chainHandler) sigHandler(i int, cur **chainRun) flamego.Handler {
	p, res := h.sig[0], h.sig[1:]
	ctx := func() flamego.Context { return (*cur).ctx }
	str := func() string {
		if h.ret == 'N' {
			return ""
		}
		return strings.Repeat("x", h.blen)
	}
	byt := func() []byte {
		if h.ret == 'N' {
			return nil
		}
		return []byte(strings.Repeat("x", h.blen))
	}
	errv := func() error { // the error of e / se / be / ie: non-nil only for W<code>:<len>0>
		if h.ret == 'W' && h.blen > 0 {
			return chainRetError(i, h.blen)
		}
		return nil
	}
	failing := h.ret == 'W' // for se / be: the first value is then one the table must ignore
	switch res {
	case "-":
		return chainWith0(p, ctx, func(c flamego.Context) { h.interpret(i, cur, c) })
	case "s":
		return chainWith1(p, ctx, func(c flamego.Context) string { h.interpret(i, cur, c); return str() })
	case "b":
		return chainWith1(p, ctx, func(c flamego.Context) []byte { h.interpret(i, cur, c); return byt() })
	case "e":
		return chainWith1(p, ctx, func(c flamego.Context) error { h.interpret(i, cur, c); return errv() })
	case "is":
		return chainWith2(p, ctx, func(c flamego.Context) (int, string) { h.interpret(i, cur, c); return h.code, str() })
	case "ib":
		return chainWith2(p, ctx, func(c flamego.Context) (int, []byte) { h.interpret(i, cur, c); return h.code, byt() })
	case "ie":
		return chainWith2(p, ctx, func(c flamego.Context) (int, error) { h.interpret(i, cur, c); return h.code, errv() })
	case "se":
		return chainWith2(p, ctx, func(c flamego.Context) (string, error) {
			h.interpret(i, cur, c)
			if failing {
				return "xx", errv()
			}
			return str(), nil
		})
	case "be":
		return chainWith2(p, ctx, func(c flamego.Context) ([]byte, error) {
			h.interpret(i, cur, c)
			if failing {
				return []byte("xx"), errv()
			}
			return byt(), nil
		})
	}
	panic("chain: bad signature " + h.sig)
}

type chainErr struct{}

func (chainErr) Error() string { return "chain error value" }

// chainStatusErr: what HTTP / API client libraries return — an error with a StatusCode() of the UPSTREAM answer
type chainStatusErr struct{ code int }

func (e chainStatusErr) Error() string   { return fmt.Sprintf("upstream answered %d", e.code) }
func (e chainStatusErr) StatusCode() int { return e.code }

type chainPtrErr struct{ msg string }

func (e *chainPtrErr) Error() string { return e.msg }

type chainValRecv struct{ n int }

func (v chainValRecv) String() string { return fmt.Sprint(v.n) }

var chainStringers = map[string]fmt.Stringer{"nil0": (*chainValRecv)(nil), "seven": chainValRecv{7}}

type chainBadStringer struct{}

func (chainBadStringer) String() string { panic("String() of the panic value panics") }

// xReader yields 'x' bytes for ever (no WriterTo: io.Copy has to push it through the destination)
type xReader struct{}

func (xReader) Read(p []byte) (int, error) {
	for i := range p {
		p[i] = 'x'
	}
	return len(p), nil
}

// an UNHASHABLE value (it holds a slice): recovering code must not use a panic value as a map key or compare it
type chainStruct struct {
	A, B  int
	Items []string
}

type chainUnmapped struct{ _ int }

// chainMapped: a value a handler maps BY ITS CONCRETE TYPE. It happens to implement http.ResponseWriter (a capture
// buffer): the services of the request are registered under their interface types, so looking one of them up
// (Recovery asks for the http.ResponseWriter) must keep finding the request's own writer, never this object.
type chainMapped struct {
	v   int
	hdr http.Header
}

func (m *chainMapped) Header() http.Header {
	if m.hdr == nil {
		m.hdr = http.Header{}
	}
	return m.hdr
}
func (m *chainMapped) Write(b []byte) (int, error) { return len(b), nil }
func (m *chainMapped) WriteHeader(int)             {}

func parseChainHandler(l []string) (chainHandler, bool) {
	if len(l) == 2 && l[0] == "H" && (l[1] == "r" || l[1] == "u") {
		return chainHandler{kind: l[1][0]}, true
	}
	if len(l) != 4 || l[0] != "H" || l[1] != "p" {
		return chainHandler{}, false
	}
	h := chainHandler{kind: 'p', ret: '-'}
	if l[2] != "-" {
		for _, a := range strings.Split(l[2], ",") {
			if a == "" {
				return h, false
			}
			switch a[0] {
			case 'n', 'c', 'm', 'h', 'j':
				if len(a) != 1 {
					return h, false
				}
				h.acts = append(h.acts, chainAct{op: a[0]})
			case 'p':
				if len(a) != 2 || !strings.ContainsRune("SERTA", rune(a[1])) {
					return h, false
				}
				h.acts = append(h.acts, chainAct{op: 'p', kind: a[1]})
			case 'w', 'b':
				h.acts = append(h.acts, chainAct{op: a[0], n: atoi(a[1:])})
			default:
				return h, false
			}
		}
	}
	rs := l[3]
	if k := strings.IndexByte(rs, '/'); k >= 0 {
		rs, h.sig = rs[:k], rs[k+1:]
		if h.sig == "" {
			return h, false
		}
	}
	switch {
	case rs == "-":
	case rs == "N":
		h.ret = 'N'
	case strings.HasPrefix(rs, "B"):
		h.ret, h.blen = 'B', atoi(rs[1:])
	case strings.HasPrefix(rs, "W"):
		p := strings.Split(rs[1:], ":")
		if len(p) != 2 {
			return h, false
		}
		h.ret, h.code, h.blen = 'W', atoi(p[0]), atoi(p[1])
	default:
		return h, false
	}
	return h, chainSigOK(&h)
}

// per-request recording; a fresh one is installed before every ServeHTTP
type chainRun struct {
	events []string
	cancel gocontext.CancelFunc
	ctx    flamego.Context // the request's Context (for handlers whose parameter list has none), set by the harness's first middleware
}

// interpret runs the actions of handler i against the real Context.
func (h *chainHandler) interpret(i int, cur **chainRun, c flamego.Context) {
	run := *cur
	run.events = append(run.events, fmt.Sprintf(">%d", i))
	done := false
	defer func() {
		// no recover here: the panic keeps travelling with its original value and stack
		if !done {
			run.events = append(run.events, fmt.Sprintf("!%d", i))
		}
	}()
	for _, a := range h.acts {
		switch a.op {
		case 'w':
			c.ResponseWriter().WriteHeader(a.n)
		case 'b':
			// the same bytes through the different ways Go code writes a body (the client's writer underneath
			// offers io.ReaderFrom like net/http's own, so io.Copy may be tempted to bypass Write)
			switch {
			case a.n > 0 && (i+a.n)%3 == 1:
				_, _ = io.WriteString(c.ResponseWriter(), strings.Repeat("x", a.n))
			case a.n > 0 && (i+a.n)%3 == 2:
				_, _ = io.Copy(c.ResponseWriter(), io.LimitReader(xReader{}, int64(a.n)))
			default:
				_, _ = c.ResponseWriter().Write([]byte(strings.Repeat("x", a.n)))
			}
		case 'j':
			// a failed take-over of the connection (the client's writer refuses): nothing has been sent
			if hj, ok := c.ResponseWriter().(http.Hijacker); ok {
				if conn, _, err := hj.Hijack(); err == nil && conn != nil {
					_ = conn.Close()
				}
			}
			if ps, ok := c.ResponseWriter().(http.Pusher); ok {
				_ = ps.Push("/pushed", nil)
			}
		case 'n':
			c.Next()
		case 'c':
			if i%3 == 2 {
				// the request context ends by DEADLINE, not by cancel(): a derived context whose deadline has passed
				ctx, cancel := gocontext.WithDeadline(c.Request().Context(), time.Now().Add(-time.Second))
				defer cancel()
				c.Request().Request = c.Request().Request.WithContext(ctx)
			} else if i%2 == 0 {
				run.cancel()
			} else {
				// the timeout-middleware pattern: the request is replaced by one carrying a derived
				// context, and it is that derived context which gets cancelled
				ctx, cancel := gocontext.WithCancel(c.Request().Context())
				c.Request().Request = c.Request().Request.WithContext(ctx)
				cancel()
			}
		case 'm':
			c.Map(&chainMapped{v: i})
		case 'h':
			c.ResponseWriter().Before(func(flamego.ResponseWriter) { panic("hook") })
		case 'p':
			switch a.kind {
			case 'S':
				if i%2 == 1 {
					panicFromUnreadableSource() // same value, raised from a frame whose source file does not exist
				}
				if (i+a.n)%5 == 4 {
					// a long message whose byte 1024 falls inside a multi-byte character (whatever is done with the text
					// of a panic value, it is the panicking handler's text, of any length)
					panic("a string value" + strings.Repeat("x", 1009) + "é and more text after it")
				}
				if (i+a.n)%3 == 2 {
					// a panic raised INSIDE the framework while it is busy with the request's injector: MapTo with a pointer
					// to a non-interface type (inject.InterfaceOf refuses it) — whatever the injector was holding at that
					// moment must not stand in Recovery's way
					func() {
						defer func() {
							if r := recover(); r != nil {
								panic("a string value") // re-raised under the value the classification knows
							}
						}()
						c.MapTo(&chainMapped{v: i}, (*chainMapped)(nil))
					}()
				}
				panic("a string value")
			case 'E':
				if (i+a.n)%4 == 3 {
					// an error value of a foreign library that happens to carry an HTTP status of its own
					panic(chainStatusErr{code: 404})
				}
				if (i+a.n)%7 == 5 {
					// a write error of some BACKEND connection (database, upstream API): nothing is known about the client's
					panic(fmt.Errorf("upstream: %w", &net.OpError{Op: "write", Net: "tcp", Err: syscall.EPIPE}))
				}
				switch i % 3 {
				case 1:
					// the classic typed-nil error: non-nil as an interface, its Error method dereferences nil
					var e *chainPtrErr
					var err error = e
					panic(err)
				case 2:
					panic(chainBadStringer{}) // a value whose String method itself panics
				}
				panic(chainErr{})
			case 'R':
				switch i % 3 {
				case 1:
					// a runtime error raised inside a compiler-generated method wrapper (a value-receiver method called
					// through an interface holding a nil pointer): its stack frame's file is "<autogenerated>", no slash
					// (looked up at run time, so that the compiler cannot devirtualise the call)
					_ = chainStringers[fmt.Sprint("nil", i%1)].String()
				case 2:
					var xs []int
					_ = xs[len(os.Args)+3] // index out of range
				}
				var m map[string]int
				m["x"] = 1 // runtime error: assignment to entry in nil map
			case 'T':
				panic(chainStruct{1, 2, []string{"x"}})
			case 'A':
				panic(http.ErrAbortHandler)
			}
		}
	}
	done = true
	run.events = append(run.events, fmt.Sprintf("<%d", i))
}

// handler builds the Go func registered with flamego for position i.
func (h *chainHandler) handler(i int, cur **chainRun) flamego.Handler {
	switch h.kind {
	case 'r':
		return flamego.Recovery()
	case 'u':
		return func(*chainUnmapped) {}
	}
	if h.sig != "" {
		return h.sigHandler(i, cur)
	}
	switch h.ret {
	case 'N':
		return func(c flamego.Context) string { h.interpret(i, cur, c); return "" }
	case 'B': // a body without a status: the return handler only calls Write (implicit 200)
		return func(c flamego.Context) string { h.interpret(i, cur, c); return strings.Repeat("x", h.blen) }
	case 'W':
		return func(c flamego.Context) (int, string) {
			h.interpret(i, cur, c)
			return h.code, strings.Repeat("x", h.blen)
		}
	}
	return func(c flamego.Context) { h.interpret(i, cur, c) }
}

// ---------------------------------------------------------------------------- executor

// chainSpy is the client's side: an httptest.ResponseRecorder that also lists every call it received.
type chainSpy struct {
	*httptest.ResponseRecorder
	events []string
}

func (s *chainSpy) WriteHeader(c int) {
	s.events = append(s.events, fmt.Sprintf("h%d", c))
	s.ResponseRecorder.WriteHeader(c)
}

func (s *chainSpy) Write(b []byte) (int, error) {
	str := string(b)
	switch {
	case strings.Trim(str, "x") == "":
		s.events = append(s.events, fmt.Sprintf("x%d", len(b)))
	case str == http.StatusText(http.StatusInternalServerError):
		// Recovery's plain answer: the token stands for body AND Content-Type (text/plain)
		if ct := s.Header().Get("Content-Type"); ct != "text/plain" {
			s.events = append(s.events, "P?ct="+hx(ct))
		} else {
			s.events = append(s.events, "P")
		}
	case strings.HasPrefix(str, "<html>") && strings.Contains(str, "<h1>PANIC</h1>"):
		// the development page: body AND Content-Type (text/html)
		if ct := s.Header().Get("Content-Type"); ct != "text/html" {
			s.events = append(s.events, "D?ct="+hx(ct))
		} else {
			s.events = append(s.events, "D")
		}
	default:
		s.events = append(s.events, fmt.Sprintf("?%d", len(b)))
	}
	return s.ResponseRecorder.Write(b)
}

// like net/http's *response: offers io.ReaderFrom (everything still goes through Write here) …
func (s *chainSpy) ReadFrom(r io.Reader) (int64, error) {
	b, err := io.ReadAll(r)
	if len(b) > 0 {
		_, _ = s.Write(b)
	}
	return int64(len(b)), err
}

// … and http.Hijacker / http.Pusher, which this client refuses
func (s *chainSpy) Hijack() (net.Conn, *bufio.ReadWriter, error) {
	return nil, nil, fmt.Errorf("hijack refused")
}

func (s *chainSpy) Push(string, *http.PushOptions) error { return http.ErrNotSupported }

func classifyPanic(r interface{}) string {
	switch v := r.(type) {
	case nil:
		return "-"
	case string:
		switch {
		case strings.HasPrefix(v, "a string value"):
			return "str"
		case v == "hook":
			return "hook"
		case strings.HasPrefix(v, "unable to invoke"):
			return "inject"
		}
		return "otherstring"
	case chainStruct:
		return "struct"
	case chainErr, *chainPtrErr, chainBadStringer, chainStatusErr:
		return "err"
	case runtime.Error:
		return "rt"
	case error:
		if errors.Is(v, http.ErrAbortHandler) {
			return "abort"
		}
		if errors.Is(v, syscall.EPIPE) {
			return "err"
		}
		return "othererror"
	}
	return "other"
}

// parseChainHist: `hist=<item>,<item>,…` — an item is a position (t g a) and a kind:
//
//	s  a sibling group with handlers of its own that declares a route and returns
//	p  … that declares a route and then panics (the caller recovers)
//	q  … that panics before declaring anything (the caller recovers)
//	e  … whose second declaration is refused by the router (a duplicate; the caller recovers the router's own panic)
//	n  two nested sibling groups, each declaring a route; the inner one panics, the caller of the OUTER one recovers
//	r  a sibling route with a handler of its own
//
// an upper-case kind is the same with the path "" for the sibling group (it only shares handlers).
func parseChainHist(s string) ([]string, bool) {
	if s == "" {
		return nil, false
	}
	items := strings.Split(s, ",")
	for _, it := range items {
		if len(it) != 2 || !strings.ContainsRune("tga", rune(it[0])) || !strings.ContainsRune("spqenrSPQEN", rune(it[1])) {
			return nil, false
		}
	}
	return items, true
}

// chainDecoys makes the declarations of the history items standing at position pos.  A decoy handler that ever runs
// shows as a DECOY event of the request.
func chainDecoys(f *flamego.Flame, cur **chainRun, hist []string, pos byte) {
	for k, it := range hist {
		if it[0] != pos {
			continue
		}
		k := k
		decoy := func(tag string) flamego.Handler {
			return func() { (*cur).events = append((*cur).events, fmt.Sprintf("DECOY%d%s", k, tag)) }
		}
		kind := it[1]
		gp := fmt.Sprintf("/d%d", k)
		if kind >= 'A' && kind <= 'Z' {
			kind, gp = kind+'a'-'A', ""
		}
		rp := fmt.Sprintf("/x%d", k)
		recovered := func(fn func()) {
			defer func() { _ = recover() }()
			fn()
		}
		switch kind {
		case 's':
			f.Group(gp, func() { f.Get(rp, decoy("h")) }, decoy("g"))
		case 'p':
			recovered(func() {
				f.Group(gp, func() { f.Get(rp, decoy("h")); panic("set-up failed") }, decoy("g"))
			})
		case 'q':
			recovered(func() {
				f.Group(gp, func() { panic("set-up failed") }, decoy("g"))
			})
		case 'e':
			recovered(func() {
				f.Group(gp, func() { f.Get(rp, decoy("h")); f.Get(rp, decoy("i")) }, decoy("g"))
			})
		case 'n':
			recovered(func() {
				f.Group(gp, func() {
					f.Get(rp, decoy("h"))
					f.Group("/e", func() { f.Get(rp, decoy("i")); panic("set-up failed") }, decoy("f"))
				}, decoy("g"))
			})
		case 'r':
			f.Get(rp, decoy("h"))
		}
	}
}

func execChain(args []string, lines [][]string) []string {
	outs := []string{"new"}
	if len(args) < 5 {
		outs[0] = "bad-session"
		for range lines {
			outs = append(outs, "bad-session")
		}
		return outs
	}
	dev := args[0] == "1"
	nmw, ngrp, nrt, hasAction := atoi(args[1]), atoi(args[2]), atoi(args[3]), args[4] == "1"
	method := http.MethodGet
	var hist []string
	for _, a := range args[5:] {
		if a == http.MethodHead || a == http.MethodPost || a == http.MethodGet {
			method = a
		}
		if strings.HasPrefix(a, "hist=") {
			var ok bool
			if hist, ok = parseChainHist(a[5:]); !ok {
				outs[0] = "bad-session"
				for range lines {
					outs = append(outs, "bad-session")
				}
				return outs
			}
		}
	}
	want := nmw + ngrp + nrt
	if hasAction {
		want++
	}

	prevEnv := flamego.Env()
	defer flamego.SetEnv(prevEnv)
	// The instance (and its Recovery middleware) is BUILT under the opposite environment and the
	// session's environment is set just before the first request is served: what the client sees
	// must depend on the environment at the time of the panic, not at construction time.
	testEnv := args[0] == "2" // the third environment: like production, nothing of the panic may reach the client
	setEnv := func(d bool) {
		switch {
		case d:
			flamego.SetEnv(flamego.EnvTypeDev)
		case testEnv:
			flamego.SetEnv(flamego.EnvTypeTest)
		default:
			flamego.SetEnv(flamego.EnvTypeProd)
		}
	}
	setEnv(!dev)

	var hs []chainHandler
	bad := false
	var f *flamego.Flame
	var preMw []flamego.Handler // the harness's own middleware in front of the session's
	swapped := false
	path := "/r"
	cur := new(*chainRun)

	build := func() {
		f = flamego.NewWithLogger(io.Discard)
		if (nmw+2*ngrp+nrt)%3 == 0 {
			// a HandlerWrapper is configured (it applies to the group's and the route's handlers that have no built-in
			// fast shape, e.g. the value-returning ones): the identity — every handler is still the one registered,
			// although many of them are closures of one and the same function
			f.HandlerWrapper(func(h flamego.Handler) flamego.Handler { return h })
		}
		var fns []flamego.Handler
		for i := range hs {
			fns = append(fns, hs[i].handler(i, cur))
		}
		// Two harness middleware stand in front of the session's: they log nothing and write nothing for
		// the session's request, so the chain of the model is unchanged.  The first one serves a NESTED
		// request for another route through the same instance before the session's chain goes on (a
		// sub-request, as an internal redirect does): the chain of the outer request must not be touched
		// by the creation of another request's chain.  Every middleware is registered by its own Use
		// call, and a transparent one is added when needed, so that the middleware slice has spare
		// capacity — the configuration in which sharing it between requests shows.
		probe := "/zz-probe"
		useMw := func(h flamego.Handler) {
			f.Use(h)
			preMw = append(preMw, h)
		}
		useMw(func(c flamego.Context) {
			if c.Request().URL.Path == probe {
				c.ResponseWriter().WriteHeader(http.StatusNoContent) // the nested chain stops here
				return
			}
			(*cur).ctx = c
			f.ServeHTTP(httptest.NewRecorder(), httptest.NewRequest(http.MethodGet, probe, nil))
		})
		for t := 1 + nmw; t&(t-1) == 0; t++ { // single-element appends: full exactly at the powers of two
			useMw(func() {})
		}
		// the session's LAST middleware may be registered from inside the (outermost) group callback: Use is
		// application-wide wherever it is called from, and it is called here before the route is declared
		lateUse := nmw > 0 && ngrp > 0 && (nmw+ngrp+2*nrt)%2 == 0
		inGroup := func() {}
		for k, fn := range fns[:nmw] {
			if lateUse && k == nmw-1 {
				fn := fn
				inGroup = func() { f.Use(fn) }
				continue
			}
			f.Use(fn)
		}
		f.Get(probe, func() { (*cur).events = append((*cur).events, "PROBE") }, func() { (*cur).events = append((*cur).events, "PROBE2") })
		grp := fns[nmw : nmw+ngrp]
		rt := fns[nmw+ngrp : nmw+ngrp+nrt]
		// the registration history AROUND the session's route (`hist=`): other declarations made at the top level before
		// the session's group / route ('t'), at the beginning of the session's outermost group callback ('g'; at the top
		// level when the session has no group) and at the top level afterwards ('a').  None of their handlers belongs to
		// the chain of the session's route.
		chainDecoys(f, cur, hist, 't')
		if ngrp == 0 {
			chainDecoys(f, cur, hist, 'g')
		} else {
			late := inGroup
			inGroup = func() { chainDecoys(f, cur, hist, 'g'); late() }
		}
		defer chainDecoys(f, cur, hist, 'a')
		switch {
		case ngrp == 0:
			f.Route(method, "/r", rt)
		case ngrp == 1 && (nmw+nrt)%2 == 1:
			// a group that exists only to share handlers: no path of its own
			f.Group("", func() { inGroup(); f.Route(method, "/r", rt) }, grp...)
			path = "/r"
		case ngrp == 1:
			f.Group("/a", func() { inGroup(); f.Route(method, "/r", rt) }, grp...)
			path = "/a/r"
		case (nmw+nrt)%3 == 1: // two nested groups, the inner one without a path
			k := (ngrp + 1) / 2
			f.Group("/a", func() {
				inGroup()
				f.Group("", func() { f.Route(method, "/r", rt) }, grp[k:]...)
			}, grp[:k]...)
			path = "/a/r"
		case (nmw+nrt)%3 == 2: // … the outer one without a path
			k := (ngrp + 1) / 2
			f.Group("", func() {
				inGroup()
				f.Group("/b", func() { f.Route(method, "/r", rt) }, grp[k:]...)
			}, grp[:k]...)
			path = "/b/r"
		default: // two nested groups, the outer one holding the first half
			k := (ngrp + 1) / 2
			f.Group("/a", func() {
				if len(hist) > 0 {
					inGroup()
					inGroup = func() {}
				}
				f.Group("/b", func() { inGroup(); f.Route(method, "/r", rt) }, grp[k:]...)
			}, grp[:k]...)
			path = "/a/b/r"
		}
		if hasAction {
			f.Action(fns[nmw+ngrp+nrt])
		}
	}

	for _, l := range lines {
		switch {
		case len(l) > 0 && l[0] == "H":
			h, ok := parseChainHandler(l)
			if !ok {
				bad = true
				outs = append(outs, "bad-op")
				continue
			}
			hs = append(hs, h)
			outs = append(outs, "h")
		case len(l) == 1 && l[0] == "REQ":
			if bad || len(hs) != want {
				outs = append(outs, "bad-session")
				continue
			}
			if f == nil {
				build()
				setEnv(dev)
			}
			outs = append(outs, serveChain(f, method, path, cur))
		case len(l) == 1 && l[0] == "SWAPMW":
			if bad || len(hs) != want || f == nil {
				outs = append(outs, "bad-op")
				continue
			}
			// Flame.Handlers replaces the whole stack: the session's middleware in the opposite order (position j now
			// runs the program that was at position nmw-1-j, or back), behind the same harness middleware
			swapped = !swapped
			stack := append([]flamego.Handler(nil), preMw...)
			for j := 0; j < nmw; j++ {
				src := j
				if swapped {
					src = nmw - 1 - j
				}
				stack = append(stack, hs[src].handler(j, cur))
			}
			f.Handlers(stack...)
			outs = append(outs, "swapped")
		default:
			outs = append(outs, "bad-op")
		}
	}
	return outs
}

// set once ServeHTTP has failed to return: later requests are not attempted
var chainHung bool

// serveChain serves one request with the session's method on the instance and renders the observation line.
func serveChain(f *flamego.Flame, method, path string, cur **chainRun) string {
	ctx, cancel := gocontext.WithCancel(gocontext.Background())
	defer cancel()
	run := &chainRun{cancel: cancel}
	*cur = run
	spy := &chainSpy{ResponseRecorder: httptest.NewRecorder()}
	req := httptest.NewRequest(method, path, nil).WithContext(ctx)
	if chainHung {
		return "skipped-after-hang"
	}
	var esc interface{}
	done := make(chan struct{})
	go func() {
		defer close(done)
		defer func() { esc = recover() }()
		f.ServeHTTP(spy, req)
	}()
	select {
	case <-done:
	case <-time.After(8 * time.Second):
		// one hang is a verdict already; do not wait again for every later request of the run
		chainHung = true
		return "hang (ServeHTTP did not return within 8s)"
	}
	dash := func(xs []string) string {
		if len(xs) == 0 {
			return "-"
		}
		return strings.Join(xs, ",")
	}
	return fmt.Sprintf("%s | %s c%d | esc=%s", dash(run.events), dash(spy.events), spy.Code, classifyPanic(esc))
}

// --------------------------------------------------------------------------- generators

type chainLayout struct{ nmw, ngrp, nrt, act int }

// all ways to spread d handlers over middleware / group / route / action
func chainLayouts(d int) []chainLayout {
	var out []chainLayout
	for act := 0; act <= 1 && act <= d; act++ {
		for nmw := 0; nmw+act <= d; nmw++ {
			for ngrp := 0; nmw+ngrp+act <= d; ngrp++ {
				out = append(out, chainLayout{nmw, ngrp, d - act - nmw - ngrp, act})
			}
		}
	}
	return out
}

func emitChain(emit Emit, dev int, lay chainLayout, hs []string, nreq int) {
	emitChainM(emit, dev, lay, hs, nreq, "GET")
}

func emitChainM(emit Emit, dev int, lay chainLayout, hs []string, nreq int, method string) {
	emitChainH(emit, dev, lay, hs, nreq, method, "")
}

// emitChainH: … with a registration history around the session's route (`hist=`, see parseChainHist)
func emitChainH(emit Emit, dev int, lay chainLayout, hs []string, nreq int, method, hist string) {
	if hist != "" {
		method += " hist=" + hist
	}
	emit("NEW chain %d %d %d %d %d %s", dev, lay.nmw, lay.ngrp, lay.nrt, lay.act, method)
	for _, h := range hs {
		emit("H %s", h)
	}
	for i := 0; i < nreq; i++ {
		emit("REQ")
		// between two requests the application replaces its middleware stack by one of the same size (the same
		// handlers in reverse order): the next request runs the NEW stack
		if i+1 < nreq && lay.nmw >= 2 && (len(hs)+nreq+i)%2 == 0 {
			emit("SWAPMW")
		}
	}
}

// the small-scope alphabets: one letter = one whole handler
var chainPoolC03 = []string{
	"p - -", "p n -", "p n,n -", "p w201 -", "p n,b2 -", "p c -", "p c,n -", "p w200,n -",
	"p - W202:1", "p n N", "p pS -", "r", "u", "p b2 -", "p - B3",
}

// handlers that matter for HEAD: answers given only through Write / a returned body (no explicit status)
var chainPoolHead = []string{
	"p b2 -", "p - B3", "p n,b2 -", "p - -", "p n -", "p w201 -", "r", "p pS -",
}

var chainMethodCycle = []string{"GET", "HEAD", "GET", "POST", "HEAD"}

var chainPoolC15 = []string{
	"p - -", "p n -", "p n,n -", "p w201,n -", "p n,b2 -", "p pS -", "p b1,pR -", "p n,pE -",
	"p c,pT -", "p - W404:0", "u", "p pA -", "p j,pE -",
}

var chainCodes = []int{200, 201, 204, 302, 404, 500, 101, 103, 100}

// every signature that can deliver the return effect `ret` (chainSigOK)
func chainSigsFor(ret string) []string {
	var out []string
	for _, p := range chainSigParams {
		for _, res := range chainSigResults {
			sig := string(p) + res
			if _, ok := parseChainHandler([]string{"H", "p", "-", ret + "/" + sig}); ok {
				out = append(out, sig)
			}
		}
	}
	return out
}

// the rows of the return-value table each result list can produce (small scope)
var chainSigRows = map[string][]string{
	"-":  {"-"},
	"s":  {"N", "B2"},
	"b":  {"N", "B3"},
	"e":  {"N", "W500:2"},
	"is": {"W201:0", "W202:1"},
	"ib": {"W203:0", "W404:2"},
	"ie": {"W204:0", "W404:1", "W500:2"},
	"se": {"N", "B1", "W500:3"},
	"be": {"N", "B2", "W500:1"},
}

func randChainProg(r *rand.Rand, hooks bool, panicky bool) string {
	n := r.Intn(6)
	var acts []string
	for j := 0; j < n; j++ {
		k := r.Intn(100)
		switch {
		case k < 30:
			acts = append(acts, "n")
		case k < 42:
			acts = append(acts, fmt.Sprintf("w%d", chainCodes[r.Intn(len(chainCodes))]))
		case k < 54:
			acts = append(acts, fmt.Sprintf("b%d", r.Intn(4)))
		case k < 62:
			acts = append(acts, "c")
		case k < 66:
			acts = append(acts, "m")
		case k < 68:
			acts = append(acts, "j")
		case k < 68+map[bool]int{false: 8, true: 22}[panicky]:
			acts = append(acts, "p"+string("SERTA"[r.Intn(5)]))
		default:
			acts = append(acts, "n")
		}
	}
	if hooks {
		// a panicking Before hook, usually followed (somewhere) by a write that fires it
		at := r.Intn(len(acts) + 1)
		acts = append(acts[:at:at], append([]string{"h"}, acts[at:]...)...)
		if r.Intn(3) > 0 {
			acts = append(acts, fmt.Sprintf("w%d", chainCodes[r.Intn(len(chainCodes))]))
		}
	}
	a := "-"
	if len(acts) > 0 {
		a = strings.Join(acts, ",")
	}
	ret := "-"
	switch k := r.Intn(10); {
	case k == 0:
		ret = "N"
	case k <= 2:
		ret = fmt.Sprintf("W%d:%d", chainCodes[r.Intn(len(chainCodes))], r.Intn(3))
	case k == 3:
		ret = fmt.Sprintf("B%d", r.Intn(4))
	}
	if !panicky && r.Intn(2) == 0 {
		// the same effect through another Go signature (parameter list × result list)
		sigs := chainSigsFor(ret)
		ret += "/" + sigs[r.Intn(len(sigs))]
	}
	return fmt.Sprintf("p %s %s", a, ret)
}

func genChain(r *rand.Rand, tier string, emit Emit, c15 bool) {
	depth, random, maxDeep := 3, 2500, 7
	if tier == "thorough" {
		depth, random, maxDeep = 4, 40000, 10
	}
	count := 0
	next := func(d int) (int, chainLayout) {
		ls := chainLayouts(d)
		count++
		env := count % 2
		if env == 0 && count%6 == 0 {
			env = 2 // EnvTypeTest
		}
		return env, ls[(count/2)%len(ls)]
	}
	mcount := 0
	nextMethod := func() string {
		mcount++
		return chainMethodCycle[mcount%len(chainMethodCycle)]
	}

	// fixed sessions: the recorded replays (F10, F15, and the double-Next escape) always run
	if c15 {
		emitChain(emit, 0, chainLayout{1, 0, 1, 0}, []string{"r", "p h,w201 -"}, 2)
		emitChain(emit, 1, chainLayout{2, 0, 2, 0}, []string{"p n,n -", "r", "p w200 -", "p pS -"}, 2)
	} else {
		emitChain(emit, 0, chainLayout{1, 0, 3, 0}, []string{"p n,n -", "p w200 -", "p - -", "p - -"}, 1)
	}

	// exhaustive small scope
	if !c15 {
		pool := chainPoolC03
		var rec func(seq []string)
		rec = func(seq []string) {
			if len(seq) > 0 {
				dev, lay := next(len(seq))
				if len(seq) <= 2 { // every method for the smallest stacks, one (cycling) for the others
					for _, m := range []string{"GET", "HEAD", "POST"} {
						emitChainM(emit, dev, lay, seq, 1, m)
					}
				} else {
					emitChainM(emit, dev, lay, seq, 1, nextMethod())
				}
			}
			if len(seq) == depth {
				return
			}
			for _, a := range pool {
				rec(append(seq[:len(seq):len(seq)], a))
			}
		}
		rec(nil)
	} else {
		// Recovery at every position r of every stack, the other slots over the C15 pool
		pool := chainPoolC15
		for d := 1; d <= depth; d++ {
			for rpos := 0; rpos < d; rpos++ {
				idx := make([]int, d)
				for {
					seq := make([]string, d)
					for i := range seq {
						if i == rpos {
							seq[i] = "r"
						} else {
							seq[i] = pool[idx[i]]
						}
					}
					dev, lay := next(d)
					emitChainM(emit, dev, lay, seq, 2, nextMethod())
					// odometer over the non-recovery slots
					i := d - 1
					for ; i >= 0; i-- {
						if i == rpos {
							continue
						}
						idx[i]++
						if idx[i] < len(pool) {
							break
						}
						idx[i] = 0
					}
					if i < 0 {
						break
					}
				}
			}
		}
	}

	// signatures, exhaustive: every parameter list × every result list × every row of the return-value table that result
	// list can produce, the handler first / in the middle (inside a Next()) / last of a short stack, silent or calling
	// Next() itself before it returns — whether the chain goes on after a handler depends on what its results made the
	// return handler write, whatever way the framework invoked the function
	if !c15 {
		for _, p := range chainSigParams {
			for _, res := range chainSigResults {
				for _, row := range chainSigRows[res] {
					for _, acts := range []string{"-", "n"} {
						x := fmt.Sprintf("p %s %s/%c%s", acts, row, p, res)
						for _, seq := range [][]string{{x, "p - -"}, {"p n -", x, "p b2 -"}, {"p - -", x}} {
							dev, lay := next(len(seq))
							emitChainM(emit, dev, lay, seq, 1, nextMethod())
						}
					}
				}
			}
		}
	}

	// HEAD, exhaustive to depth 3 over the handlers that answer without an explicit status
	{
		var rec func(seq []string)
		rec = func(seq []string) {
			if len(seq) > 0 {
				dev, lay := next(len(seq))
				emitChainM(emit, dev, lay, seq, 1, "HEAD")
			}
			if len(seq) == 3 {
				return
			}
			for _, a := range chainPoolHead {
				rec(append(seq[:len(seq):len(seq)], a))
			}
		}
		rec(nil)
	}

	// the registration history around the route: every kind of sibling declaration (groups that return, that panic
	// after / before declaring a route and are recovered, whose declaration is refused, nested ones, plain routes) at
	// every position (before the route at the top level, at the beginning of the route's outermost group, afterwards),
	// for every layout of stacks of depth <= 3; then pairs of items at random
	if !c15 {
		kinds, poss := "spqenrSPQEN", "tga"
		simple := []string{"p n -", "p - -", "p n -"}
		for d := 1; d <= 3; d++ {
			for _, lay := range chainLayouts(d) {
				for _, k := range kinds {
					for _, p := range poss {
						emitChainH(emit, 0, lay, simple[:d], 1, "GET", string(p)+string(k))
					}
				}
			}
		}
	}
	randHist := func() string {
		kinds, poss := "spqenrSPQEN", "tga"
		n := 1 + r.Intn(3)
		items := make([]string, n)
		for i := range items {
			items[i] = string(poss[r.Intn(len(poss))]) + string(kinds[r.Intn(len(kinds))])
		}
		return strings.Join(items, ",")
	}

	// random deeper stacks
	for s := 0; s < random; s++ {
		d := 1 + r.Intn(maxDeep)
		hookSession := c15 && r.Intn(30) == 0 // keep hook panics a small fraction (finding F15)
		hookAt := r.Intn(d)
		seq := make([]string, d)
		for i := range seq {
			k := r.Intn(100)
			switch {
			case k < map[bool]int{false: 8, true: 4}[c15]:
				seq[i] = "r"
			case k < 12:
				seq[i] = "u"
			default:
				seq[i] = randChainProg(r, hookSession && i == hookAt, c15)
			}
		}
		if c15 {
			seq[r.Intn(d)] = "r" // C15 is about chains with Recovery installed
			if hookSession && seq[hookAt] == "r" {
				hookSession = false
			}
		}
		ls := chainLayouts(d)
		method := "GET"
		switch k := r.Intn(10); {
		case k >= 8:
			method = "POST"
		case k >= 5:
			method = "HEAD"
		}
		hist := ""
		if !c15 && r.Intn(4) == 0 {
			hist = randHist()
		}
		emitChainH(emit, r.Intn(2), ls[r.Intn(len(ls))], seq, 1+r.Intn(3), method, hist)
	}

	// malformed stream: the executor and the driver must agree on rejecting these too
	for _, bad := range [][]string{{"p n"}, {"p x9 -"}, {"q"}, {"p n W1"},
		{"p - N/c-"}, {"p - W404:1/ce"}, {"p - W500:0/0se"}, {"p - -/zs"}, {"p - B1/cs/"}, {"p - B1/"}} {
		emitChain(emit, 0, chainLayout{0, 0, 1, 0}, bad, 1)
	}
	emit("NEW chain 0 1 0 1 0")
	emit("H p n -")
	emit("REQ")
}
