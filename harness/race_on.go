//go:build race

package main

// built with -race: the concreq executor also runs its free-running (truly concurrent) passes
func init() { raceBuild = true }
