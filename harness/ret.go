package main

// C14 — what a handler returns determines the response (return_handler.go, context.go run(),
// handler.go teapotInvoker).  One real Flame per session; every op line is one request whose
// returning handler yields the values written on the line.  See lean/Flamego/Driver/Ret.lean
// for the line protocol.

import (
	"context"
	"encoding/json"
	"errors"
	"fmt"
	"io"
	"math/rand"
	"net/http"
	"net/http/httptest"
	"reflect"
	"strconv"
	"strings"

	"github.com/flamego/flamego"
)

// ---- error types used as payloads

type retPtrErr struct{ s string }

// nil-safe: a typed-nil *retPtrErr returned as `error` is a non-nil error whose text is this
func (e *retPtrErr) Error() string {
	if e == nil {
		return "nil-receiver"
	}
	return e.s
}

type retDerefErr struct{ s string }

func (e *retDerefErr) Error() string { return e.s } // panics on a nil receiver

type retStatusErr struct {
	s    string
	code int
}

func (e retStatusErr) Error() string       { return e.s }
func (e retStatusErr) StatusCode() int     { return e.code }
func (e retStatusErr) HTTPStatusCode() int { return e.code }

type retValErr struct{ s string }

func (e retValErr) Error() string { return e.s }

// errors whose concrete type has a kind the return-value table looks at for OTHER purposes (String, byte slice, Int) or
// an unusual one (Func): behind the static type `error` / interface{} they are errors like any other.  The text is
// deliberately NOT the plain conversion of the value.
type retStrErr string // the `const ErrX = constError("…")` idiom, url.EscapeError, net.UnknownNetworkError …

func (e retStrErr) Error() string { return string(e)[len("raw:"):] }

type retBytesErr []byte

func (e retBytesErr) Error() string { return string(e)[len("raw:"):] }

type retIntErr int // syscall.Errno-like: the text comes from a table

var retIntErrText []string

func (e retIntErr) Error() string { return retIntErrText[int(e)] }

type retFuncErr func() string

func (e retFuncErr) Error() string { return e() }

type (
	retMyInt    int
	retMyStr    string
	retMyBytes  []byte
	retHiddenIS func() (int, string) // not identical to func() (int, string): invoked reflectively
	retUserFast func() (int, string) // a user-written FastInvoker
)

func (invoke retUserFast) Invoke([]interface{}) ([]reflect.Value, error) {
	a, b := invoke()
	return []reflect.Value{reflect.ValueOf(a), reflect.ValueOf(b)}, nil
}

// ---- the wrapped http.ResponseWriter: a recorder that also tells whether a status was sent

type retSpy struct {
	*httptest.ResponseRecorder
	codes []int
}

func (s *retSpy) WriteHeader(c int) {
	s.ResponseRecorder.WriteHeader(c) // panics on codes outside 100..999, like a real server
	s.codes = append(s.codes, c)
}

// ---- values

// static result types: S string, B []byte, E error, I int, PS *string, PB *[]byte, PPS **string,
// A interface{}, O64 int64, OB bool, CE *retPtrErr, MI retMyInt, MS retMyStr
type retShapeDef struct {
	static []string
	build  func(s *retSess) flamego.Handler
}

type retSess struct {
	cur     []interface{}
	nextRan bool
	// pre = cx: cancels the request's context; called by the returning handler while it computes its results,
	// i.e. the context becomes done WHILE the handler runs, before it returns
	cancel func()
}

func (s *retSess) touch() {
	if s.cancel != nil {
		s.cancel()
	}
}

func (s *retSess) str(i int) string { s.touch(); return s.cur[i].(string) }
func (s *retSess) byt(i int) []byte { s.touch(); return s.cur[i].([]byte) }
func (s *retSess) num(i int) int    { s.touch(); return s.cur[i].(int) }
func (s *retSess) err(i int) error {
	s.touch()
	e, _ := s.cur[i].(error)
	return e
}
func (s *retSess) ps(i int) *string {
	s.touch()
	p, _ := s.cur[i].(*string)
	return p
}

var retShapes = map[string]retShapeDef{
	"v":  {nil, func(s *retSess) flamego.Handler { return func() {} }},
	"s":  {[]string{"S"}, func(s *retSess) flamego.Handler { return func() string { return s.str(0) } }},
	"b":  {[]string{"B"}, func(s *retSess) flamego.Handler { return func() []byte { return s.byt(0) } }},
	"e":  {[]string{"E"}, func(s *retSess) flamego.Handler { return func() error { return s.err(0) } }},
	"is": {[]string{"I", "S"}, func(s *retSess) flamego.Handler { return func() (int, string) { return s.num(0), s.str(1) } }},
	"isr": {[]string{"I", "S"}, func(s *retSess) flamego.Handler {
		return retHiddenIS(func() (int, string) { return s.num(0), s.str(1) })
	}},
	"isu": {[]string{"I", "S"}, func(s *retSess) flamego.Handler {
		return retUserFast(func() (int, string) { return s.num(0), s.str(1) })
	}},
	"cis": {[]string{"I", "S"}, func(s *retSess) flamego.Handler {
		return func(c flamego.Context, r *http.Request) (int, string) { return s.num(0), s.str(1) }
	}},
	"ib": {[]string{"I", "B"}, func(s *retSess) flamego.Handler { return func() (int, []byte) { return s.num(0), s.byt(1) } }},
	"ie": {[]string{"I", "E"}, func(s *retSess) flamego.Handler { return func() (int, error) { return s.num(0), s.err(1) } }},
	"se": {[]string{"S", "E"}, func(s *retSess) flamego.Handler { return func() (string, error) { return s.str(0), s.err(1) } }},
	"be": {[]string{"B", "E"}, func(s *retSess) flamego.Handler { return func() ([]byte, error) { return s.byt(0), s.err(1) } }},
	"ps": {[]string{"PS"}, func(s *retSess) flamego.Handler { return func() *string { return s.ps(0) } }},
	"pb": {[]string{"PB"}, func(s *retSess) flamego.Handler {
		return func() *[]byte { p, _ := s.cur[0].(*[]byte); return p }
	}},
	"pps": {[]string{"PPS"}, func(s *retSess) flamego.Handler {
		return func() **string { p, _ := s.cur[0].(**string); return p }
	}},
	"any":  {[]string{"A"}, func(s *retSess) flamego.Handler { return func() interface{} { return s.cur[0] } }},
	"iany": {[]string{"I", "A"}, func(s *retSess) flamego.Handler { return func() (int, interface{}) { return s.num(0), s.cur[1] } }},
	"n":    {[]string{"I"}, func(s *retSess) flamego.Handler { return func() int { return s.num(0) } }},
	"i64":  {[]string{"O64"}, func(s *retSess) flamego.Handler { return func() int64 { return s.cur[0].(int64) } }},
	"bool": {[]string{"OB"}, func(s *retSess) flamego.Handler { return func() bool { return s.cur[0].(bool) } }},
	"ii":   {[]string{"I", "I"}, func(s *retSess) flamego.Handler { return func() (int, int) { return s.num(0), s.num(1) } }},
	"i64s": {[]string{"O64", "S"}, func(s *retSess) flamego.Handler {
		return func() (int64, string) { return s.cur[0].(int64), s.str(1) }
	}},
	"es": {[]string{"E", "S"}, func(s *retSess) flamego.Handler { return func() (error, string) { return s.err(0), s.str(1) } }},
	"ss": {[]string{"S", "S"}, func(s *retSess) flamego.Handler { return func() (string, string) { return s.str(0), s.str(1) } }},
	"si": {[]string{"S", "I"}, func(s *retSess) flamego.Handler { return func() (string, int) { return s.str(0), s.num(1) } }},
	"ise": {[]string{"I", "S", "E"}, func(s *retSess) flamego.Handler {
		return func() (int, string, error) { return s.num(0), s.str(1), s.err(2) }
	}},
	"ips": {[]string{"I", "PS"}, func(s *retSess) flamego.Handler { return func() (int, *string) { return s.num(0), s.ps(1) } }},
	"pse": {[]string{"PS", "E"}, func(s *retSess) flamego.Handler { return func() (*string, error) { return s.ps(0), s.err(1) } }},
	"nis": {[]string{"MI", "MS"}, func(s *retSess) flamego.Handler {
		return func() (retMyInt, retMyStr) { return retMyInt(s.num(0)), retMyStr(s.str(1)) }
	}},
	// byte slices of a DEFINED type (Kind is still Slice of uint8: the table treats them as a body)
	"nb": {[]string{"MB"}, func(s *retSess) flamego.Handler { return func() retMyBytes { return retMyBytes(s.byt(0)) } }},
	"raw": {[]string{"MB"}, func(s *retSess) flamego.Handler {
		return func() json.RawMessage { return json.RawMessage(s.byt(0)) }
	}},
	"inb": {[]string{"I", "MB"}, func(s *retSess) flamego.Handler {
		return func() (int, retMyBytes) { return s.num(0), retMyBytes(s.byt(1)) }
	}},
	"nbe": {[]string{"MB", "E"}, func(s *retSess) flamego.Handler {
		return func() (json.RawMessage, error) { return json.RawMessage(s.byt(0)), s.err(1) }
	}},
	"anb": {[]string{"MB"}, func(s *retSess) flamego.Handler {
		return func() interface{} { return retMyBytes(s.byt(0)) } // the defined type behind an interface{}
	}},
	"ce": {[]string{"CE"}, func(s *retSess) flamego.Handler {
		return func() *retPtrErr { p, _ := s.cur[0].(*retPtrErr); return p }
	}},
	"sce": {[]string{"S", "CE"}, func(s *retSess) flamego.Handler {
		return func() (string, *retPtrErr) { p, _ := s.cur[1].(*retPtrErr); return s.str(0), p }
	}},
}

// ---- parameter lists.  `<P>.<base>`: the result list (and the values) of the shape <base>, the parameter list P:
//     C (flamego.Context) | W (http.ResponseWriter, *http.Request) | Q (flamego.Context, *http.Request) | R (*http.Request)
// The complete signature decides how the framework invokes the function (validateAndWrapHandler knows some signatures
// and calls them through a FastInvoker, all others through reflect); the table must not care.  The function is made
// with reflect.MakeFunc, its type is the plain unnamed func type.
var retParamLists = map[string][]reflect.Type{
	"C": {reflect.TypeOf((*flamego.Context)(nil)).Elem()},
	"W": {reflect.TypeOf((*http.ResponseWriter)(nil)).Elem(), reflect.TypeOf((*http.Request)(nil))},
	"Q": {reflect.TypeOf((*flamego.Context)(nil)).Elem(), reflect.TypeOf((*http.Request)(nil))},
	"R": {reflect.TypeOf((*http.Request)(nil))},
}

var retParamOrder = []string{"C", "W", "Q", "R"}

// the shapes that are plain `func() …` (a defined func type would lose its name by the lift)
var retLiftable = []string{"v", "s", "b", "e", "is", "ib", "ie", "se", "be", "ps", "pb", "pps", "any", "iany", "n", "i64", "bool",
	"ii", "i64s", "es", "ss", "si", "ise", "ips", "pse", "nis", "ce", "sce", "nb", "raw", "inb", "nbe", "anb"}

// the rows of the table proper
var retLiftCore = []string{"v", "s", "b", "e", "is", "ib", "ie", "se", "be", "any", "ce", "ps"}

func retBaseOf(shape string) string {
	if k := strings.IndexByte(shape, '.'); k >= 0 {
		return shape[k+1:]
	}
	return shape
}

func retShapeOf(shape string) (retShapeDef, bool) {
	k := strings.IndexByte(shape, '.')
	if k < 0 {
		def, ok := retShapes[shape]
		return def, ok
	}
	params, ok1 := retParamLists[shape[:k]]
	base, ok2 := retShapes[shape[k+1:]]
	if !ok1 || !ok2 {
		return retShapeDef{}, false
	}
	return retShapeDef{base.static, func(s *retSess) flamego.Handler {
		bv := reflect.ValueOf(base.build(s))
		bt := bv.Type()
		outs := make([]reflect.Type, bt.NumOut())
		for i := range outs {
			outs[i] = bt.Out(i)
		}
		ft := reflect.FuncOf(params, outs, false)
		return reflect.MakeFunc(ft, func([]reflect.Value) []reflect.Value { return bv.Call(nil) }).Interface()
	}}, true
}

func retRandShape(r *rand.Rand) string {
	if r.Intn(3) == 0 {
		return retParamOrder[r.Intn(len(retParamOrder))] + "." + retLiftable[r.Intn(len(retLiftable))]
	}
	return retShapeOrder[r.Intn(len(retShapeOrder))]
}

// first token field each static type must carry (a generator bug shows as bad-op, never silently)
var retStaticHead = map[string]string{"S": "s", "B": "b", "E": "a", "I": "i", "PS": "p", "PB": "p", "PPS": "p",
	"A": "a", "O64": "o", "OB": "o", "CE": "e", "MI": "i", "MS": "s", "MB": "b"}

// retToGo builds the dynamic Go value a token describes. `static` types nil pointers and `o`.
func retToGo(f []string, static string) interface{} {
	switch f[0] {
	case "s":
		return unhx(f[1])
	case "b":
		if f[1] == "nil" {
			return []byte(nil)
		}
		return append(make([]byte, 0, 4), unhx(f[1])...)
	case "e":
		msg := unhx(f[2])
		switch f[1] {
		case "n":
			return errors.New(msg)
		case "w":
			return fmt.Errorf("%w", errors.New(msg))
		case "p":
			return &retPtrErr{msg}
		case "v":
			return retValErr{msg}
		case "c":
			// an error of a foreign client library that carries an HTTP status of the UPSTREAM answer (possibly wrapped)
			if len(msg)%2 == 0 {
				return fmt.Errorf("%w", retStatusErr{msg, 404})
			}
			return retStatusErr{msg, 403}
		case "t":
			return (*retPtrErr)(nil)
		case "s":
			return retStrErr("raw:" + msg)
		case "y":
			return retBytesErr("raw:" + msg)
		case "i":
			retIntErrText = append(retIntErrText, msg)
			return retIntErr(len(retIntErrText) - 1)
		case "f":
			return retFuncErr(func() string { return msg })
		}
		panic("bad error kind")
	case "ep":
		return (*retDerefErr)(nil)
	case "i":
		return atoi(f[1])
	case "o":
		if static == "OB" {
			return f[1] != "1"
		}
		if f[1] == "1" {
			return int64(0)
		}
		return int64(7)
	case "a":
		if f[1] == "nil" {
			return nil
		}
		return retToGo(f[1:], "")
	case "p":
		if f[1] == "nil" {
			switch static {
			case "PB":
				return (*[]byte)(nil)
			case "PPS":
				return (**string)(nil)
			}
			return (*string)(nil)
		}
		inner := ""
		if static == "PPS" {
			inner = "PS"
		}
		switch v := retToGo(f[1:], inner).(type) {
		case string:
			return &v
		case []byte:
			return &v
		case *string:
			return &v
		}
		panic("bad pointer target")
	}
	panic("bad value token")
}

// retPlaceholder: the text reflect prints for the value the table may stringify — the deciding
// value (second of an (int, x) pair, else the first) after one Elem().  `-` when it is a string
// or byte slice (then it is never used).
func retPlaceholder(toks []string, static []string) string {
	if len(toks) == 0 || len(toks) > 2 {
		return "-"
	}
	k := 0
	if len(toks) == 2 && strings.HasPrefix(toks[0], "i:") {
		k = 1
	}
	f := strings.Split(toks[k], ":")
	st := static[k]
	if (f[0] == "a" || f[0] == "p") && f[1] != "nil" {
		f = f[1:]
		if st == "PPS" {
			st = "PS"
		} else {
			st = ""
		}
	}
	if f[0] == "s" || f[0] == "b" {
		return "-"
	}
	v := retToGo(f, st)
	if v == nil {
		return "-"
	}
	return hx("<" + reflect.TypeOf(v).String() + " Value>")
}

func init() {
	execs["ret"] = execRet
	execs["retseq"] = execRetSeq
	execs["retnest"] = execRetNest
	gens["C14"] = genRet
}

func retCustom(code int, body string) flamego.ReturnHandler {
	return func(c flamego.Context, vals []reflect.Value) {
		w := c.ResponseWriter()
		if code != 0 {
			w.WriteHeader(code)
		}
		if body != "" {
			_, _ = w.Write([]byte(body + strconv.Itoa(len(vals))))
		}
	}
}

func execRet(args []string, lines [][]string) []string {
	if len(args) != 5 {
		panic("ret: want 5 session args")
	}
	method, pos, shape, custom, pre := args[0], args[1], args[2], args[3], args[4]
	def, ok := retShapeOf(shape)
	if !ok {
		panic("ret: unknown shape")
	}
	sess := &retSess{}
	f := flamego.NewWithLogger(io.Discard)

	if custom != "-" {
		c := strings.Split(custom, ":")
		h := retCustom(atoi(c[1]), unhx(c[2]))
		switch c[0] {
		case "app":
			f.Map(h)
		case "req":
			f.Use(func(ctx flamego.Context) { ctx.Map(h) })
		case "both":
			f.Map(retCustom(598, "D"))
			f.Use(func(ctx flamego.Context) { ctx.Map(h) })
		default:
			panic("ret: bad custom")
		}
	}
	if pre == "cx" {
		// a timeout/abort middleware: the request runs under a derived context which is cancelled while the
		// returning handler is still running; what that handler returns is still rendered (and then the chain stops)
		f.Use(func(c flamego.Context) {
			ctx, cancel := context.WithCancel(c.Request().Context())
			c.Request().Request = c.Request().Request.WithContext(ctx)
			sess.cancel = cancel
			defer func() { sess.cancel = nil; cancel() }()
			c.Next()
		})
	} else if pre != "-" {
		p := strings.Split(pre, ":")
		switch p[0] {
		case "wh":
			code := atoi(p[1])
			f.Use(func(c flamego.Context) { c.ResponseWriter().WriteHeader(code); c.Next() })
		case "w":
			b := []byte(unhx(p[1]))
			f.Use(func(c flamego.Context) { _, _ = c.ResponseWriter().Write(b); c.Next() })
		default:
			panic("ret: bad pre")
		}
	}
	ret := def.build(sess)
	next := func() { sess.nextRan = true }
	noop := func() {}
	path := "/x"
	// a silent handler in front of the returning one — except behind a pre-write: run() stops
	// after the first handler that returns once something is written, so the returning handler
	// has to be the one the pre-writing middleware's Next() starts
	lead := []flamego.Handler{}
	if pre == "-" || pre == "cx" {
		lead = append(lead, noop)
	}
	switch pos {
	case "mw":
		f.Use(ret)
		f.Use(next)
		f.Route(method, "/x", []flamego.Handler{noop})
	case "grp":
		f.Group("/g", func() { f.Route(method, "/x", []flamego.Handler{noop}) }, ret, next)
		path = "/g/x"
	case "rt":
		f.Route(method, "/x", append(lead, ret, next))
	case "rta":
		f.Route(method, "/x", []flamego.Handler{ret})
		f.Action(next)
	case "act":
		f.Route(method, "/x", lead)
		f.Action(ret)
	default:
		panic("ret: bad pos")
	}

	outs := []string{"new"}
	for _, l := range lines {
		if len(l) < 2 || l[0] != "R" || len(l)-2 != len(def.static) {
			outs = append(outs, "bad-op")
			continue
		}
		toks := l[2:]
		good := true
		cur := make([]interface{}, len(toks))
		func() {
			defer func() {
				if recover() != nil {
					good = false
				}
			}()
			for i, t := range toks {
				fs := strings.Split(t, ":")
				want := retStaticHead[def.static[i]]
				if fs[0] != want && !(want == "e" && fs[0] == "ep") {
					good = false
					return
				}
				cur[i] = retToGo(fs, def.static[i])
			}
		}()
		if !good {
			outs = append(outs, "bad-op")
			continue
		}
		sess.cur, sess.nextRan = cur, false
		spy := &retSpy{ResponseRecorder: httptest.NewRecorder()}
		req, err := http.NewRequest(method, path, nil)
		if err != nil {
			panic(err)
		}
		panicked := 0
		func() {
			defer func() {
				if recover() != nil {
					panicked = 1
				}
			}()
			f.ServeHTTP(spy, req)
		}()
		st := 0
		if len(spy.codes) > 0 {
			st = spy.codes[0]
		}
		nr := 0
		if sess.nextRan {
			nr = 1
		}
		outs = append(outs, fmt.Sprintf("%d %s %d %d", st, hx(spy.Body.String()), nr, panicked))
	}
	return outs
}

// ---------------------------------------------------------------------------------- generator

var (
	retBodies = []string{"", "hi", "x", "\xff\xfe\x00\x80", "<html>a&b</html>", "line1\nline2 \t", "0", "nil-receiver"}
	retCodes  = []int{200, 201, 204, 299, 301, 304, 400, 404, 418, 499, 500, 503, 599, 100, 101, 199, 600, 999}
	retBad    = []int{0, -1, 99, 1000, -500, 65536}
	retPos    = []string{"rt", "mw", "grp", "rta", "act"}
	retErrK   = []string{"n", "w", "p", "v", "c", "c", "s", "s", "y", "i", "f"}
)

func retBody(r *rand.Rand) string {
	switch k := r.Intn(10); {
	case k < 6:
		return retBodies[r.Intn(len(retBodies))]
	case k < 9:
		b := make([]byte, 1+r.Intn(8))
		for i := range b {
			b[i] = byte(r.Intn(256))
		}
		return string(b)
	default:
		b := make([]byte, 200+r.Intn(300))
		for i := range b {
			b[i] = byte(r.Intn(256))
		}
		return string(b)
	}
}

func retCode(r *rand.Rand, bad bool) int {
	if bad && r.Intn(3) == 0 {
		return retBad[r.Intn(len(retBad))]
	}
	if r.Intn(2) == 0 {
		return retCodes[r.Intn(len(retCodes))]
	}
	return 100 + r.Intn(500)
}

func retErrTok(r *rand.Rand, bad bool) string {
	switch k := r.Intn(12); {
	case k == 0:
		return "e:t:" + hx("nil-receiver")
	case k == 1 && bad:
		return "ep:d"
	default:
		return "e:" + retErrK[r.Intn(len(retErrK))] + ":" + hx(retBody(r))
	}
}

// one random token for a static type
func retTok(r *rand.Rand, st string, bad bool) string {
	switch st {
	case "S", "MS":
		return "s:" + hx(retBody(r))
	case "B", "MB":
		switch r.Intn(4) {
		case 0:
			return "b:nil"
		case 1:
			return "b:-"
		}
		return "b:" + hx(retBody(r))
	case "E":
		if r.Intn(3) == 0 {
			return "a:nil"
		}
		return "a:" + retErrTok(r, bad)
	case "I", "MI":
		return "i:" + strconv.Itoa(retCode(r, bad))
	case "PS":
		if r.Intn(3) == 0 {
			return "p:nil"
		}
		return "p:s:" + hx(retBody(r))
	case "PB":
		if r.Intn(4) == 0 {
			return "p:nil"
		}
		return "p:" + retTok(r, "B", bad)
	case "PPS":
		if r.Intn(4) == 0 {
			return "p:nil"
		}
		return "p:" + retTok(r, "PS", bad)
	case "A":
		switch r.Intn(8) {
		case 0:
			return "a:nil"
		case 1:
			return "a:" + retTok(r, "B", bad)
		case 2:
			return "a:" + retErrTok(r, bad)
		case 3:
			return "a:i:" + strconv.Itoa(r.Intn(3))
		case 4:
			return "a:p:s:" + hx(retBody(r))
		case 5:
			return "a:o:" + strconv.Itoa(r.Intn(2))
		}
		return "a:s:" + hx(retBody(r))
	case "O64", "OB":
		return "o:" + strconv.Itoa(r.Intn(2))
	case "CE":
		if r.Intn(3) == 0 {
			return "e:t:" + hx("nil-receiver")
		}
		return "e:p:" + hx(retBody(r))
	}
	panic("retTok: " + st)
}

func retEmitOp(emit Emit, shape string, toks []string) {
	def, _ := retShapeOf(shape)
	ph := retPlaceholder(toks, def.static)
	if len(toks) == 0 {
		emit("R %s", ph)
		return
	}
	emit("R %s %s", ph, strings.Join(toks, " "))
}

// small-scope values per static type (exhaustive part)
func retSmall(st string) []string {
	switch st {
	case "S", "MS":
		return []string{"s:-", "s:" + hx("hi"), "s:" + hx("\xff\x00")}
	case "B", "MB":
		return []string{"b:nil", "b:-", "b:" + hx("by")}
	case "E":
		return []string{"a:nil", "a:e:n:" + hx("boom"), "a:e:n:-", "a:e:p:" + hx("pe"), "a:e:v:" + hx("ve"), "a:e:t:" + hx("nil-receiver"),
			"a:e:s:" + hx("se"), "a:e:y:" + hx("ye")}
	case "I", "MI":
		return []string{"i:200", "i:404", "i:204", "i:100", "i:599"}
	case "PS":
		return []string{"p:nil", "p:s:-", "p:s:" + hx("ptr")}
	case "PB":
		return []string{"p:nil", "p:b:nil", "p:b:-", "p:b:" + hx("pb")}
	case "PPS":
		return []string{"p:nil", "p:p:nil", "p:p:s:-", "p:p:s:" + hx("pp")}
	case "A":
		return []string{"a:nil", "a:s:-", "a:s:" + hx("as"), "a:b:nil", "a:b:-", "a:b:" + hx("ab"), "a:e:n:" + hx("ae"), "a:e:s:" + hx("ase"), "a:e:i:" + hx("aie"),
			"a:i:0", "a:i:7", "a:p:s:" + hx("aps"), "a:o:0", "a:o:1"}
	case "O64", "OB":
		return []string{"o:0", "o:1"}
	case "CE":
		return []string{"e:p:" + hx("ce"), "e:t:" + hx("nil-receiver")}
	}
	panic("retSmall: " + st)
}

var retShapeOrder = []string{"v", "s", "b", "e", "is", "isr", "isu", "cis", "ib", "ie", "se", "be", "ps", "pb", "pps", "any",
	"iany", "n", "i64", "bool", "ii", "i64s", "es", "ss", "si", "ise", "ips", "pse", "nis", "ce", "sce",
	"nb", "raw", "inb", "nbe", "anb"}

func genRet(r *rand.Rand, tier string, emit Emit) {
	// 1. exhaustive small scope: every shape × every position × GET/HEAD × every combination of
	//    the small value pools, built-in table
	for _, shape := range retShapeOrder {
		st := retShapes[shape].static
		var combos [][]string
		var rec func(i int, acc []string)
		rec = func(i int, acc []string) {
			if i == len(st) {
				combos = append(combos, append([]string(nil), acc...))
				return
			}
			for _, t := range retSmall(st[i]) {
				rec(i+1, append(acc, t))
			}
		}
		rec(0, nil)
		for _, pos := range retPos {
			for _, m := range []string{"GET", "HEAD"} {
				if tier != "thorough" && m == "HEAD" && pos != "rt" {
					continue
				}
				emit("NEW ret %s %s %s - -", m, pos, shape)
				for _, c := range combos {
					retEmitOp(emit, shape, c)
				}
			}
		}
	}
	// 1b. every parameter list × every row of the table proper × the same small value pools (positions cycling)
	k := 0
	for _, pl := range retParamOrder {
		for _, base := range retLiftCore {
			shape := pl + "." + base
			st := retShapes[base].static
			var combos [][]string
			var rec func(i int, acc []string)
			rec = func(i int, acc []string) {
				if i == len(st) {
					combos = append(combos, append([]string(nil), acc...))
					return
				}
				for _, t := range retSmall(st[i]) {
					rec(i+1, append(acc, t))
				}
			}
			rec(0, nil)
			for rep := 0; rep < 2; rep++ {
				k++
				m := "GET"
				if k%5 == 0 {
					m = "HEAD"
				}
				emit("NEW ret %s %s %s - -", m, retPos[k%len(retPos)], shape)
				for _, c := range combos {
					retEmitOp(emit, shape, c)
				}
			}
		}
	}
	// 2. every status code 100..599 through both invocation paths of func() (int, string), and
	//    through (int, error) / (int, []byte)
	for _, shape := range []string{"is", "isr", "isu", "ie", "ib"} {
		emit("NEW ret GET rt %s - -", shape)
		for c := 100; c <= 599; c++ {
			var second string
			switch shape {
			case "ie":
				second = []string{"a:nil", "a:e:n:" + hx("e"+strconv.Itoa(c))}[c%2]
			case "ib":
				second = []string{"b:nil", "b:-", "b:" + hx("b"+strconv.Itoa(c))}[c%3]
			default:
				second = []string{"s:-", "s:" + hx("s"+strconv.Itoa(c))}[c%2]
			}
			retEmitOp(emit, shape, []string{"i:" + strconv.Itoa(c), second})
		}
	}
	// 3. custom return handlers in the app scope, the request scope and both, every shape
	for _, shape := range retShapeOrder {
		for _, cu := range []string{"app:299:" + hx("A"), "req:298:" + hx("R"), "both:297:" + hx("B"), "app:0:-", "req:0:" + hx("r"), "app:250:-"} {
			emit("NEW ret GET %s %s %s -", retPos[r.Intn(len(retPos))], shape, cu)
			st := retShapes[shape].static
			for k := 0; k < 2; k++ {
				toks := make([]string, len(st))
				for i := range st {
					toks[i] = retTok(r, st[i], false)
				}
				retEmitOp(emit, shape, toks)
			}
		}
	}
	// 4. random stream: arbitrary payloads (incl. non-UTF-8 and long), positions, methods, pre-writes
	n := 1500
	if tier == "thorough" {
		n = 120000
	}
	methods := []string{"GET", "GET", "POST", "HEAD"}
	for i := 0; i < n; i++ {
		shape := retRandShape(r)
		custom, pre := "-", "-"
		if r.Intn(12) == 0 {
			custom = []string{"app", "req", "both"}[r.Intn(3)] + ":" + strconv.Itoa([]int{0, 202, 299, 404}[r.Intn(4)]) + ":" + hx(retBody(r))
		}
		if r.Intn(10) == 0 {
			if r.Intn(2) == 0 {
				pre = "wh:" + strconv.Itoa(retCodes[r.Intn(len(retCodes))])
			} else {
				pre = "w:" + hx(retBody(r))
			}
		} else if r.Intn(8) == 0 && !map[string]bool{"v": true, "pb": true, "pps": true, "any": true, "i64": true, "bool": true, "ce": true}[retBaseOf(shape)] {
			pre = "cx" // (only for shapes whose handler reads its values through the accessors that cancel)
		}
		emit("NEW ret %s %s %s %s %s", methods[r.Intn(len(methods))], retPos[r.Intn(len(retPos))], shape, custom, pre)
		st := retShapes[retBaseOf(shape)].static
		for k := 1 + r.Intn(4); k > 0; k-- {
			toks := make([]string, len(st))
			for j := range st {
				toks[j] = retTok(r, st[j], false)
			}
			retEmitOp(emit, shape, toks)
		}
	}
	// 5. separate malformed stream: status codes net/http rejects (0, negative, > 999) and an
	//    error whose Error() panics on its nil receiver
	for i := 0; i < n/10; i++ {
		shape := []string{"is", "isr", "ib", "ie", "iany", "ips", "e", "se", "any", "nis", "ii"}[r.Intn(11)]
		pre := "-"
		if r.Intn(8) == 0 {
			pre = "wh:202"
		}
		emit("NEW ret %s %s %s - %s", methods[r.Intn(len(methods))], retPos[r.Intn(len(retPos))], shape, pre)
		st := retShapes[shape].static
		for k := 1 + r.Intn(3); k > 0; k-- {
			toks := make([]string, len(st))
			for j := range st {
				toks[j] = retTok(r, st[j], true)
			}
			retEmitOp(emit, shape, toks)
		}
	}
	genRetSeq(r, tier, emit)
	genRetNest(r, tier, emit)
}

// ---------------------------------------------------------------- retseq: several handlers, one chain

func retSplitBar(fs []string) [][]string {
	out := [][]string{{}}
	for _, f := range fs {
		if f == "|" {
			out = append(out, []string{})
			continue
		}
		out[len(out)-1] = append(out[len(out)-1], f)
	}
	return out
}

// execRetSeq: one Flame per session; every `Q <g> step | step | …` line registers a fresh route
// whose chain is exactly these handlers (the first g of them as group handlers), each preceded
// by a counting handler, and serves one request.  Steps: see lean/Flamego/Driver/Ret.lean.
func execRetSeq(args []string, lines [][]string) []string {
	if len(args) != 1 {
		panic("retseq: want 1 session arg")
	}
	method := args[0]
	f := flamego.NewWithLogger(io.Discard)
	outs := []string{"new"}
	for i, l := range lines {
		if len(l) < 3 || l[0] != "Q" {
			outs = append(outs, "bad-op")
			continue
		}
		g := atoi(l[1])
		ran := 0
		count := func() { ran++ }
		var hs [][]flamego.Handler // per step: counter + handler
		good := true
		func() {
			defer func() {
				if recover() != nil {
					good = false
				}
			}()
			for _, st := range retSplitBar(l[2:]) {
				if len(st) == 0 {
					good = false
					return
				}
				var h flamego.Handler
				switch {
				case st[0] == "n" && len(st) == 1:
					h = func() {}
				case st[0] == "mr" && len(st) == 3:
					rh := retCustom(atoi(st[1]), unhx(st[2]))
					h = func(c flamego.Context) { c.Map(rh) }
				case st[0] == "ma" && len(st) == 3:
					rh := retCustom(atoi(st[1]), unhx(st[2]))
					h = func() { f.Map(rh) }
				case st[0] == "r" && len(st) >= 3:
					def, ok := retShapeOf(st[1])
					toks := st[3:]
					if !ok || len(toks) != len(def.static) {
						good = false
						return
					}
					sess := &retSess{cur: make([]interface{}, len(toks))}
					for k, t := range toks {
						fs := strings.Split(t, ":")
						want := retStaticHead[def.static[k]]
						if fs[0] != want && !(want == "e" && fs[0] == "ep") {
							good = false
							return
						}
						sess.cur[k] = retToGo(fs, def.static[k])
					}
					h = def.build(sess)
				default:
					good = false
					return
				}
				hs = append(hs, []flamego.Handler{count, h})
			}
		}()
		if !good || g < 0 || g > len(hs) {
			outs = append(outs, "bad-op")
			continue
		}
		var grp, rt []flamego.Handler
		for k, pair := range hs {
			if k < g {
				grp = append(grp, pair...)
			} else {
				rt = append(rt, pair...)
			}
		}
		path := fmt.Sprintf("/q%d", i)
		if g > 0 {
			f.Group(fmt.Sprintf("/g%d", i), func() { f.Route(method, "/q", rt) }, grp...)
			path = fmt.Sprintf("/g%d/q", i)
		} else {
			f.Route(method, path, rt)
		}
		spy := &retSpy{ResponseRecorder: httptest.NewRecorder()}
		req, err := http.NewRequest(method, path, nil)
		if err != nil {
			panic(err)
		}
		panicked := 0
		func() {
			defer func() {
				if recover() != nil {
					panicked = 1
				}
			}()
			f.ServeHTTP(spy, req)
		}()
		st := 0
		if len(spy.codes) > 0 {
			st = spy.codes[0]
		}
		outs = append(outs, fmt.Sprintf("%d %s %d %d", st, hx(spy.Body.String()), ran, panicked))
	}
	return outs
}

// a value of the static type that the table renders as nothing ("" when there is none)
func retQuietTok(r *rand.Rand, st string) string {
	switch st {
	case "S", "MS":
		return "s:-"
	case "B", "MB":
		return []string{"b:nil", "b:-"}[r.Intn(2)]
	case "E", "A":
		return "a:nil"
	case "PS":
		return []string{"p:nil", "p:s:-"}[r.Intn(2)]
	case "PB", "PPS":
		return "p:nil"
	case "O64", "OB":
		return "o:1"
	}
	return ""
}

func retSeqStep(r *rand.Rand) string {
	switch k := r.Intn(20); {
	case k < 2:
		return "n"
	case k < 5:
		return fmt.Sprintf("mr %d %s", []int{0, 0, 202, 299, 404}[r.Intn(5)], hx(retBody(r)))
	case k < 7:
		return fmt.Sprintf("ma %d %s", []int{0, 0, 203, 298}[r.Intn(4)], hx(retBody(r)))
	}
	shape := retRandShape(r)
	st := retShapes[retBaseOf(shape)].static
	toks := make([]string, len(st))
	quiet := r.Intn(10) < 7
	for j := range st {
		toks[j] = ""
		if quiet {
			toks[j] = retQuietTok(r, st[j])
		}
		if toks[j] == "" {
			toks[j] = retTok(r, st[j], false)
		}
	}
	ph := retPlaceholder(toks, st)
	return strings.TrimSpace(fmt.Sprintf("r %s %s %s", shape, ph, strings.Join(toks, " ")))
}

func genRetSeq(r *rand.Rand, tier string, emit Emit) {
	// 1. exhaustive: every chain of up to `depth` handlers over this alphabet — returns that write
	//    nothing (rendered by the table), returns that write, a request-scope and an app-scope
	//    Map of a writing custom handler and of a silent one — so the Map sits at every position
	//    relative to the returning handlers; then a second request on the same Flame
	alphabet := []string{
		"n",
		"r e - a:nil",
		"r s - s:-",
		"r v -",
		"r s - s:" + hx("hi"),
		"r ie - i:404 a:nil",
		"mr 299 " + hx("R"),
		"mr 0 -",
		"ma 298 " + hx("A"),
	}
	depth := 4
	if tier == "thorough" {
		depth = 5
	}
	var rec func(seq []string)
	rec = func(seq []string) {
		if len(seq) > 0 {
			emit("NEW retseq GET")
			emit("Q %d %s", len(seq)%3%(len(seq)+1), strings.Join(seq, " | "))
			emit("Q 0 r s - s:%s | n", hx("2nd"))
		}
		if len(seq) == depth {
			return
		}
		for _, a := range alphabet {
			rec(append(seq[:len(seq):len(seq)], a))
		}
	}
	rec(nil)
	// 2. random: sessions of several requests, chains of 1..8 handlers of every shape
	n := 1500
	if tier == "thorough" {
		n = 60000
	}
	methods := []string{"GET", "GET", "POST", "HEAD"}
	for i := 0; i < n; i++ {
		emit("NEW retseq %s", methods[r.Intn(len(methods))])
		for q := 1 + r.Intn(4); q > 0; q-- {
			k := 1 + r.Intn(8)
			steps := make([]string, k)
			for j := range steps {
				steps[j] = retSeqStep(r)
			}
			emit("Q %d %s", r.Intn(k+1), strings.Join(steps, " | "))
		}
	}
}

// ---------------------------------------------------------------- retnest: a request inside a request

// execRetNest: the outer request's handler returns (code, body); before the return handler has
// finished reading these values a nested request is served on the same Flame whose handler
// returns other values.  Protocol: lean/Flamego/Driver/Ret.lean.
func execRetNest(args []string, lines [][]string) []string {
	if len(args) != 4 {
		panic("retnest: want 4 session args")
	}
	method, oinv, ninv, via := args[0], args[1], args[2], args[3]
	odef, ok1 := retShapes[oinv]
	ndef, ok2 := retShapes[ninv]
	if !ok1 || !ok2 || len(odef.static) != 2 || len(ndef.static) != 2 {
		panic("retnest: bad invocation kind")
	}
	osess, nsess := &retSess{}, &retSess{}
	f := flamego.NewWithLogger(io.Discard)
	var nspy *retSpy
	served := 0
	nested := func() {
		served++
		if served > 1 {
			return // never recurse
		}
		nspy = &retSpy{ResponseRecorder: httptest.NewRecorder()}
		req, err := http.NewRequest("GET", "/inner", nil)
		if err != nil {
			panic(err)
		}
		f.ServeHTTP(nspy, req)
	}
	f.Route("GET", "/inner", []flamego.Handler{func() {}, ndef.build(nsess)})
	hook := func(c flamego.Context) {
		c.ResponseWriter().Before(func(flamego.ResponseWriter) { nested() })
	}
	outer := odef.build(osess)
	path := "/outer"
	switch via {
	case "hrt":
		f.Route(method, "/outer", []flamego.Handler{hook, outer})
	case "hgrp":
		f.Group("/g", func() { f.Route(method, "/outer", []flamego.Handler{func() {}, outer}) }, hook)
		path = "/g/outer"
	case "crh":
		echo := flamego.ReturnHandler(func(c flamego.Context, vals []reflect.Value) {
			nested()
			w := c.ResponseWriter()
			w.WriteHeader(int(vals[0].Int()))
			if b := vals[1].String(); b != "" {
				_, _ = w.Write([]byte(b))
			}
		})
		f.Route(method, "/outer", []flamego.Handler{func(c flamego.Context) { c.Map(echo) }, outer})
	default:
		panic("retnest: bad via")
	}
	outs := []string{"new"}
	for _, l := range lines {
		if len(l) != 5 || l[0] != "N" {
			outs = append(outs, "bad-op")
			continue
		}
		osess.cur = []interface{}{atoi(l[1]), unhx(l[2])}
		nsess.cur = []interface{}{atoi(l[3]), unhx(l[4])}
		nspy, served = nil, 0
		spy := &retSpy{ResponseRecorder: httptest.NewRecorder()}
		req, err := http.NewRequest(method, path, nil)
		if err != nil {
			panic(err)
		}
		panicked := 0
		func() {
			defer func() {
				if recover() != nil {
					panicked = 1
				}
			}()
			f.ServeHTTP(spy, req)
		}()
		first := func(s *retSpy) (int, string) {
			if s == nil {
				return 0, "-"
			}
			st := 0
			if len(s.codes) > 0 {
				st = s.codes[0]
			}
			return st, hx(s.Body.String())
		}
		ost, obody := first(spy)
		nst, nbody := first(nspy)
		if served > 1 {
			served = 2 // a hook that fired twice would show
		}
		outs = append(outs, fmt.Sprintf("%d %s %d %s %d %d", ost, obody, nst, nbody, served, panicked))
	}
	return outs
}

func genRetNest(r *rand.Rand, tier string, emit Emit) {
	invs := []string{"is", "isr", "isu", "cis"}
	vias := []string{"hrt", "hgrp", "crh"}
	// every pairing of invocation paths × every way of nesting × GET/HEAD, a few fixed payloads
	for _, o := range invs {
		for _, n := range invs {
			for _, v := range vias {
				for _, m := range []string{"GET", "HEAD"} {
					if tier != "thorough" && m == "HEAD" && v != "hrt" {
						continue
					}
					emit("NEW retnest %s %s %s %s", m, o, n, v)
					emit("N 418 %s 200 %s", hx("body-of-A"), hx("body-of-B"))
					emit("N 201 %s 404 %s", hx("a"), hx("a much longer nested body \xff"))
					emit("N 404 - 202 %s", hx("nested only"))
					emit("N 200 %s 204 -", hx("outer only"))
				}
			}
		}
	}
	n := 150
	if tier == "thorough" {
		n = 6000
	}
	methods := []string{"GET", "GET", "POST", "HEAD"}
	for i := 0; i < n; i++ {
		emit("NEW retnest %s %s %s %s", methods[r.Intn(len(methods))], invs[r.Intn(4)], invs[r.Intn(4)], vias[r.Intn(3)])
		for k := 1 + r.Intn(4); k > 0; k-- {
			emit("N %d %s %d %s", 100+r.Intn(500), hx(retBody(r)), 100+r.Intn(500), hx(retBody(r)))
		}
	}
}
