package main

// C06 — the route parser (internal/route/parser.go + definition.go over participle) against
// Model/Lexer + Model/Parser.
//
//	NEW parser
//	PARSE <hex>            → ok <hex canonical> <ast> <fix|nofix> | err | panic
//	DOCW <hex> <acc|rej>   → docw <acc|rej> <same|differs>     (real verdict vs. the README's BNF; finding F12)
//
// <ast> is serialised from the exported struct fields of the real AST (never from String()):
//
//	seg ("|" seg)*    seg = ("o"|"m") ("." elem)*    elem = I<hex> | B<hex> | P param ("," param)*
//	param = <hex ident> ":" (L|R) <hex>
//
// `fix`: the canonical string parses again, to the same serialised AST, and renders to itself.

import (
	"fmt"
	"math/rand"
	"strings"

	"github.com/flamego/flamego"
)

func init() {
	execs["parser"] = execParser
	gens["C06"] = genParser
}

func serialiseAST(r *flamego.VerifRouteAST) string {
	if r == nil || len(r.Segments) == 0 {
		return "none"
	}
	segs := make([]string, 0, len(r.Segments))
	for _, s := range r.Segments {
		var b strings.Builder
		if s == nil {
			segs = append(segs, "nil")
			continue
		}
		if s.Optional {
			b.WriteString("o")
		} else {
			b.WriteString("m")
		}
		for _, e := range s.Elements {
			b.WriteString(".")
			set := 0
			if e.Ident != nil {
				set++
			}
			if e.BindIdent != nil {
				set++
			}
			if e.BindParameters != nil {
				set++
			}
			switch {
			case set != 1:
				fmt.Fprintf(&b, "X%d", set) // not a value of the AST type the model has
			case e.Ident != nil:
				b.WriteString("I" + hx(*e.Ident))
			case e.BindIdent != nil:
				b.WriteString("B" + hx(*e.BindIdent))
			default:
				b.WriteString("P")
				for i, p := range e.BindParameters.Parameters {
					if i > 0 {
						b.WriteString(",")
					}
					b.WriteString(hx(p.Ident) + ":")
					switch {
					case p.Value.Literal != nil && p.Value.Regex != nil:
						b.WriteString("X2")
					case p.Value.Literal != nil:
						b.WriteString("L" + hx(*p.Value.Literal))
					case p.Value.Regex != nil:
						b.WriteString("R" + hx(*p.Value.Regex))
					default:
						b.WriteString("X0")
					}
				}
			}
		}
		segs = append(segs, b.String())
	}
	return strings.Join(segs, "|")
}

// parseReal runs the real parser on one string; verdict is "ok", "err" or "panic".
func parseReal(p *flamego.VerifParser, s string) (verdict, canon, ast string) {
	defer func() {
		if r := recover(); r != nil {
			verdict, canon, ast = "panic", "", ""
		}
	}()
	r, err := p.Parse(s)
	if err != nil || r == nil {
		return "err", "", ""
	}
	return "ok", r.String(), serialiseAST(r)
}

func execParser(args []string, lines [][]string) []string {
	outs := []string{"new"}
	p, err := flamego.VerifNewParser()
	if err != nil {
		for range lines {
			outs = append(outs, "no-parser")
		}
		return outs
	}
	for _, l := range lines {
		switch {
		case len(l) == 2 && l[0] == "PARSE":
			v, canon, ast := parseReal(p, unhx(l[1]))
			if v != "ok" {
				outs = append(outs, v)
				continue
			}
			v2, canon2, ast2 := parseReal(p, canon)
			fix := "nofix"
			if v2 == "ok" && canon2 == canon && ast2 == ast {
				fix = "fix"
			}
			outs = append(outs, fmt.Sprintf("ok %s %s %s", hx(canon), ast, fix))
		case len(l) == 3 && l[0] == "DOCW":
			v, _, _ := parseReal(p, unhx(l[1]))
			if v == "panic" {
				outs = append(outs, "panic")
				continue
			}
			got := "rej"
			if v == "ok" {
				got = "acc"
			}
			cmp := "differs"
			if got == l[2] {
				cmp = "same"
			}
			outs = append(outs, fmt.Sprintf("docw %s %s", got, cmp))
		default:
			outs = append(outs, "bad-op")
		}
	}
	return outs
}

// ------------------------------------------------------------------------------- generators

// one representative per token class plus every delimiter
var parserAlphabet = []byte{'/', '?', '{', '}', ':', ',', ' ', 'a', '*', '$', '|', '\t'}

// inside a parameter list (DESIGN.md appendix C, second family)
var bindAlphabet = []byte{'}', ':', ',', '/', ' ', 'a', '|', '{'}

type chunker struct {
	emit Emit
	n    int
	size int
}

func (c *chunker) parse(s string) {
	if c.n%c.size == 0 {
		c.emit("NEW parser")
	}
	c.n++
	c.emit("PARSE %s", hx(s))
}

// allStrings calls f on every string over alpha of length 0..n with the given prefix.
func parserAllStrings(prefix string, alpha []byte, n int, f func(string)) {
	buf := make([]byte, 0, len(prefix)+n)
	buf = append(buf, prefix...)
	var rec func(left int)
	rec = func(left int) {
		f(string(buf))
		if left == 0 {
			return
		}
		for _, c := range alpha {
			buf = append(buf, c)
			rec(left - 1)
			buf = buf[:len(buf)-1]
		}
	}
	rec(n)
}

// --- well-formed ASTs ---------------------------------------------------------------------

type pParam struct {
	ident string
	regex bool
	val   string
}
type pElem struct {
	kind   int // 0 ident, 1 bind, 2 params
	text   string
	params []pParam
}
type pSeg struct {
	optional bool
	elems    []pElem
}

func blanks(r *rand.Rand, canonical bool) string {
	if canonical {
		return " "
	}
	switch k := r.Intn(8); {
	case k < 3:
		return ""
	case k < 5:
		return " "
	case k < 7:
		return "  "
	default:
		return strings.Repeat(" ", 3+r.Intn(3))
	}
}

func renderSegs(r *rand.Rand, segs []pSeg, canonical bool) string {
	var b strings.Builder
	for _, s := range segs {
		b.WriteString("/")
		if s.optional {
			b.WriteString("?")
		}
		for _, e := range s.elems {
			switch e.kind {
			case 0:
				b.WriteString(e.text)
			case 1:
				b.WriteString("{" + e.text + "}")
			default:
				b.WriteString("{")
				for i, p := range e.params {
					if i > 0 {
						b.WriteString("," + blanks(r, canonical))
					}
					b.WriteString(p.ident + ":" + blanks(r, canonical))
					if p.regex {
						b.WriteString("/" + p.val + "/")
					} else {
						b.WriteString(p.val)
					}
				}
				b.WriteString("}")
			}
		}
	}
	return b.String()
}

func elemPool(params []pParam, maxParams int) []pElem {
	pool := []pElem{{kind: 0, text: "a"}, {kind: 0, text: "x$.~"}, {kind: 1, text: "n"}}
	var rec func(cur []pParam)
	rec = func(cur []pParam) {
		if len(cur) > 0 {
			pool = append(pool, pElem{kind: 2, params: append([]pParam(nil), cur...)})
		}
		if len(cur) == maxParams {
			return
		}
		for _, p := range params {
			rec(append(cur, p))
		}
	}
	rec(nil)
	return pool
}

// allSegments: optional × every element sequence of length ≤ maxElems without two adjacent identifiers
func allSegments(pool []pElem, maxElems int) []pSeg {
	var out []pSeg
	var rec func(cur []pElem)
	rec = func(cur []pElem) {
		for _, o := range []bool{false, true} {
			out = append(out, pSeg{optional: o, elems: append([]pElem(nil), cur...)})
		}
		if len(cur) == maxElems {
			return
		}
		for _, e := range pool {
			if e.kind == 0 && len(cur) > 0 && cur[len(cur)-1].kind == 0 {
				continue
			}
			rec(append(cur, e))
		}
	}
	rec(nil)
	return out
}

var identChars = "abzAZ09-._~@!$&'()*+;%="
var regexChars = "abzAZ09*-+._,?()[]{} \\|"

func parserRandText(r *rand.Rand, chars string, maxLen int) string {
	n := 1 + r.Intn(maxLen)
	b := make([]byte, n)
	for i := range b {
		b[i] = chars[r.Intn(len(chars))]
	}
	return string(b)
}

func randSegs(r *rand.Rand) []pSeg {
	ns := 1 + r.Intn(4)
	segs := make([]pSeg, ns)
	for i := range segs {
		segs[i].optional = r.Intn(5) == 0
		ne := r.Intn(4)
		for j := 0; j < ne; j++ {
			k := r.Intn(3)
			if k == 0 && j > 0 && segs[i].elems[j-1].kind == 0 {
				k = 1 + r.Intn(2)
			}
			e := pElem{kind: k}
			switch k {
			case 0, 1:
				e.text = parserRandText(r, identChars, 4)
			default:
				np := 1 + r.Intn(3)
				for q := 0; q < np; q++ {
					p := pParam{ident: parserRandText(r, identChars, 3), regex: r.Intn(2) == 0}
					if p.regex {
						p.val = parserRandText(r, regexChars, 5)
					} else {
						p.val = parserRandText(r, identChars, 3)
					}
					e.params = append(e.params, p)
				}
			}
			segs[i].elems = append(segs[i].elems, e)
		}
	}
	return segs
}

func parserMutate(r *rand.Rand, s string) string {
	b := []byte(s)
	pick := func() byte {
		if r.Intn(6) == 0 {
			return byte(r.Intn(256))
		}
		return parserAlphabet[r.Intn(len(parserAlphabet))]
	}
	if r.Intn(12) == 0 {
		// a valid multi-byte rune whose low byte spells an ASCII letter or digit, somewhere in the text
		cp := rune(0x100*(1+r.Intn(0x2ff)) + int("azAZ09_-"[r.Intn(8)]))
		if cp >= 0xD800 && cp < 0xE000 {
			cp += 0x1000
		}
		i := r.Intn(len(b) + 1)
		b = append(b[:i:i], append([]byte(string(cp)), b[i:]...)...)
	}
	for k := 1 + r.Intn(2); k > 0; k-- {
		if len(b) == 0 {
			b = append(b, pick())
			continue
		}
		i := r.Intn(len(b))
		switch r.Intn(5) {
		case 0: // delete
			b = append(b[:i:i], b[i+1:]...)
		case 1: // insert
			b = append(b[:i:i], append([]byte{pick()}, b[i:]...)...)
		case 2: // replace
			b[i] = pick()
		case 3: // swap with the next byte
			if i+1 < len(b) {
				b[i], b[i+1] = b[i+1], b[i]
			}
		default: // duplicate
			b = append(b[:i:i], append([]byte{b[i]}, b[i:]...)...)
		}
	}
	return string(b)
}

// hand-picked corner cases: the strings of parser_test.go's shape, the lexer's left-over Bind
// state, trailing blanks, tabs, adjacent identifiers/binds, unterminated things, non-UTF-8.
var parserCorners = []string{
	"", "/", "//", "/?", "/?a", "/a?", "/a/?b", "/webapi", "/webapi/users/?{id}", "/webapi/users/ids/{id: /[0-9]+/}",
	"/webapi/{name: /[a-z]+/}-{year: /[0-9]{4}/}", "/webapi/article_{id: /[0-9]+/}_{page}.json",
	"/webapi/projects/{name: **, capture: 2}/hashes/{paths: **}/blob", "/{**}", "/{a}{b}", "/{a: b}{c}", "/{a: b}c", "/{a: b}?",
	"/{a: b}/?c", "/{a: b}:", "/{a: b}}", "/{a: b},", "/{a: /x/b}", "/{a: /x/ }", "/{a: /x/}", "/{a:/x/}", "/{a:   /x/}",
	"/{a: /x=y/}", "/a$b", "/{a: b c: d}", "/{a: b,c: d}", "/{a: b,  c: d}", "/{a: b ,c: d}", "/{a : b}", "/{ a: b}", "/{a: b }",
	"/{a:\tb}", "/{a:,}", "/{a:}", "/{a}", "/{}", "/{", "/}", "/{a", "/{a:", "/{a: ", "/{a: /", "/{a: /x", "/{a: //}", "/{a: / /}",
	"/{a: /}/}", "/{a: /,/, b: /{/}", "/{a: b, }", "/{a: b,}", "/{,a: b}", "/{a: b,, c: d}", "/{{a}}", "/{a/b}", "/a b", "/ a", "/a ",
	"a", " /a", "/a\n", "/\xff", "/a\xc3\xa9", "/{a: \xff}", "/{a: /\xff/}", "/{a: {b}}", "/{a: b:c}", "/:", "/,", "/a,b", "/a:b",
	// percent escapes are ordinary identifier characters: no case folding, no decoding, whatever the hex digits spell
	"/files/%7euser", "/%e4%bd%a0", "/%E4%BD%A0", "/{%41}", "/{%7e: %7e}", "/a%2fb", "/%", "/%zz", "/%4",
	// a '?' only opens a segment; a '}' and a '{' are regex characters inside an expression
	"/users/{id}?", "/a?/b", "/{tail: /[a-z]+}?/}", "/{a: /[{]/}", "/{a: /[}]+/}", "/{a: /x{/}/{b}", "/{a: i}", "/{unit: ms}", "/{a: i-1}", "/{a: /x/i}",
	"/{a: b}{c: d}", "/{a: b, c: /x/, d: e}", "/{a: **}", "/{a: **, capture: 2}", "/?{a: b}?", "/??", "/a{b}c{d: e}f", "/{a:b}{c}/?{d:/e/}x",
}

func genParser(r *rand.Rand, tier string, emit Emit) {
	thorough := tier == "thorough"
	c := &chunker{emit: emit, size: 100}

	// F12 witnesses, re-observed on every run: what the README's BNF says vs. what the parser does
	emit("NEW parser")
	emit("DOCW %s acc", hx("/{a: /x=y/}")) // README: `=` is a <char>, hence an <any> inside an expression
	emit("DOCW %s rej", hx("/a$b"))        // README: `$` is not a <char>
	emit("DOCW %s acc", hx("/{a: /x/}"))   // control: both agree
	emit("DOCW %s rej", hx("/a b"))        // control: both agree

	for _, s := range parserCorners {
		c.parse(s)
	}

	// 0. class sweep: every byte value in every position a character class decides about
	for b := 0; b < 256; b++ {
		x := string([]byte{byte(b)})
		for _, s := range []string{"/" + x, "/a" + x + "b", "/{" + x + "}", "/{" + x + ": v}", "/{a: " + x + "}", "/{a: /" + x + "/}",
			"/{a: /x" + x + "y/}", "/{a:" + x + "b}", "/{a: b" + x + "c: d}", "/{a: b}" + x, "/" + x + "{a}"} {
			c.parse(s)
		}
	}

	// 0b. rune sweep: multi-byte UTF-8 characters (every two-byte rune, a stride through the three-byte ones, a few
	//     four-byte ones) in the positions a character class decides about — a rune is never an identifier/regex
	//     character, whatever its low byte spells (rune/byte confusions in hand-written scanners)
	runeAt := func(x string) {
		for _, s := range []string{"/" + x, "/a" + x + "b", "/webapi/" + x + "koda", "/{" + x + "}", "/{a: " + x + "}", "/{a: /" + x + "/}", "/{a" + x + ": v}"} {
			c.parse(s)
		}
	}
	for cp := 0x80; cp < 0x800; cp++ {
		runeAt(string(rune(cp)))
	}
	stride := 97
	if thorough {
		stride = 7
	}
	for cp := 0x800; cp < 0x10000; cp += stride {
		if cp >= 0xD800 && cp < 0xE000 {
			continue
		}
		runeAt(string(rune(cp)))
	}
	for _, cp := range []int{0x10000, 0x10061, 0x1F600, 0x1F62F, 0x10FFFF, 0x2F800 + 'a'} {
		runeAt(string(rune(cp)))
	}

	// 1. small-scope exhaustive. Root accepts only '/', so beyond a short unrestricted sweep the
	//    enumeration fixes the first byte to '/' (one symbol deeper for the same cost).
	free, rooted, bind := 4, 5, 5
	if thorough {
		free, rooted, bind = 5, 6, 7
	}
	parserAllStrings("", parserAlphabet, free, c.parse)
	parserAllStrings("/", parserAlphabet, rooted, c.parse)
	parserAllStrings("/{a:", bindAlphabet, bind, c.parse)

	// 2. every well-formed AST up to a size bound, canonical spacing and random spacing
	params := []pParam{{"a", false, "v"}, {"b", true, "x"}, {"c", true, " ,}{?"}, {"w", false, "**"}}
	pool := elemPool(params, 2)
	segs1 := allSegments(pool, 2)
	for _, s := range segs1 {
		c.parse(renderSegs(r, []pSeg{s}, true))
		c.parse(renderSegs(r, []pSeg{s}, false))
	}
	small := allSegments(elemPool(params[:2], 1), 2)
	if thorough {
		small = allSegments(elemPool(params[:3], 2), 2)
	}
	for _, s1 := range small {
		for _, s2 := range small {
			if !thorough && r.Intn(4) != 0 {
				continue
			}
			c.parse(renderSegs(r, []pSeg{s1, s2}, false))
		}
	}

	// 3. random well-formed routes over the full character classes, and mutations of them
	nRand := 4000
	if thorough {
		nRand = 60000
	}
	for i := 0; i < nRand; i++ {
		s := renderSegs(r, randSegs(r), r.Intn(4) == 0)
		c.parse(s)
		c.parse(parserMutate(r, s))
		if i%2 == 0 {
			c.parse(parserMutate(r, parserMutate(r, s)))
		}
	}

	// 4. random byte strings, including non-UTF-8
	for i := 0; i < nRand; i++ {
		n := r.Intn(13)
		b := make([]byte, n)
		for j := range b {
			switch r.Intn(3) {
			case 0:
				b[j] = byte(r.Intn(256))
			case 1:
				b[j] = byte(32 + r.Intn(95))
			default:
				b[j] = parserAlphabet[r.Intn(len(parserAlphabet))]
			}
		}
		if n > 0 && r.Intn(3) > 0 {
			b[0] = '/'
		}
		c.parse(string(b))
	}
}
