package main

// `harness lexrules <out.json>` — what the BUILT route parser contains, read by reflection from the value
// NewParser returns: the rules of its stateful lexer (lexer.Include already expanded by participle) and the
// `parser:"…"` struct tags of the AST types.  The translator uses it when the source no longer shows the literal
// `lexer.New(lexer.Rules{…})` / the struct tags in the places its AST extraction looks at (a restructured parser.go).

import (
	"encoding/json"
	"os"
	"reflect"
	"strings"
	"unsafe"

	"github.com/alecthomas/participle/v2/lexer"
	"github.com/flamego/flamego"
)

func init() { cmds["lexrules"] = lexRulesMain }

type lexRuleOut struct {
	Name, Pattern, Action, Target string
}

type lexStateOut struct {
	Name  string       `json:"name"`
	Rules []lexRuleOut `json:"rules"`
}

func lexRulesMain(args []string) {
	out := map[string]interface{}{}
	defer func() {
		if r := recover(); r != nil {
			out["error"] = "panic while inspecting the parser"
		}
		raw, _ := json.MarshalIndent(out, "", " ")
		if len(args) > 0 {
			_ = os.WriteFile(args[0], raw, 0o644)
		} else {
			_, _ = os.Stdout.Write(raw)
		}
	}()
	p, err := flamego.VerifNewParser()
	if err != nil {
		out["error"] = err.Error()
		return
	}
	// the participle parser: whichever field of route.Parser has a method Lexer() lexer.Definition
	var def lexer.Definition
	pv := reflect.ValueOf(p).Elem()
	for i := 0; i < pv.NumField() && def == nil; i++ {
		f := pv.Field(i)
		f = reflect.NewAt(f.Type(), unsafe.Pointer(f.UnsafeAddr())).Elem() // readable although unexported
		m := f.MethodByName("Lexer")
		if !m.IsValid() || m.Type().NumIn() != 0 || m.Type().NumOut() != 1 {
			continue
		}
		if d, ok := m.Call(nil)[0].Interface().(lexer.Definition); ok {
			def = d
		}
	}
	sd, ok := def.(*lexer.StatefulDefinition)
	if !ok {
		out["error"] = "the parser's lexer is not a *lexer.StatefulDefinition"
		return
	}
	var states []lexStateOut
	for name, rules := range sd.Rules() {
		st := lexStateOut{Name: name}
		for _, r := range rules {
			ro := lexRuleOut{Name: r.Name, Pattern: r.Pattern, Action: "none"}
			switch a := r.Action.(type) {
			case nil:
			case lexer.ActionPush:
				ro.Action, ro.Target = "push", a.State
			case lexer.ActionPop:
				ro.Action = "pop"
			default:
				ro.Action = "other:" + reflect.TypeOf(r.Action).String()
			}
			st.Rules = append(st.Rules, ro)
		}
		states = append(states, st)
	}
	out["states"] = states
	// struct tags, post-order from the root AST type (children before parents, fields in declaration order)
	var tags [][2]string
	seen := map[reflect.Type]bool{}
	var walk func(t reflect.Type)
	walk = func(t reflect.Type) {
		for t.Kind() == reflect.Ptr || t.Kind() == reflect.Slice {
			t = t.Elem()
		}
		if t.Kind() != reflect.Struct || seen[t] || !strings.HasSuffix(t.PkgPath(), "internal/route") {
			return
		}
		seen[t] = true
		for i := 0; i < t.NumField(); i++ {
			walk(t.Field(i).Type)
		}
		for i := 0; i < t.NumField(); i++ {
			f := t.Field(i)
			if v, ok := f.Tag.Lookup("parser"); ok && strings.TrimSpace(v) != "-" {
				tags = append(tags, [2]string{t.Name() + "." + f.Name, v})
			}
		}
	}
	walk(reflect.TypeOf(flamego.VerifRouteAST{}))
	out["tags"] = tags
}
