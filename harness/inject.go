package main

// C04 — the injector (inject/inject.go), the fast-invoker wrappers (handler.go, logger.go) and the
// request/application scope chain (context.go, flame.go).
//
// Two session kinds:
//
//	NEW inject <n> <isInterface bits> <implements rows> <nScopes>
//	    M  <scope> <ty> <vid>             inj.Map(value of concrete type ty carrying id vid)
//	    MT <scope> <ity> <cty> <vid>      inj.MapTo(value of cty, (*ity)(nil))
//	    S  <scope> <ty> <cty> <vid>       inj.Set(ty, reflect.ValueOf(value of cty))
//	    V  <scope> <ty>                   inj.Value(ty)                         -> val <id> | none
//	    I  <scope> p|f <sig> <results>    inj.Invoke of a reflect.MakeFunc function (p) or of the same
//	                                      signature behind a hand-written FastInvoker (f)
//	                                      -> ran <arg ids> calls=<n> res=<ids> | err notfound <ty> calls=<n>
//	    A  <scope> p|v|pp <fields>        inj.Apply on a struct (pointer / by value / pointer to pointer);
//	                                      field = <ty>.<tagkind>.<exported>   -> fields <ids> err=none|notfound:<ty>
//	  scope 0 is the innermost injector, scope i's parent is scope i+1.
//
//	NEW injectflame <n> <isInterface bits> <implements rows>
//	    FM <ty> <vid> | FMT <ity> <cty> <vid>   f.Map / f.MapTo on a real Flame (application scope)
//	    FV <ty>                                  f.Value(ty)
//	    U <handler> | H <handler>                f.Use(handler) / handler of the next request's route
//	    RQ                                       register the pending route handlers, serve one request
//	                                             -> per handler reached `ran <arg ids>` | `err <ty>`, then
//	                                                `resp <status>:<body hex>` | `resp panic`
//	  handler = g <sig> <maps> | f <sig> <maps>   plain MakeFunc function / generic FastInvoker
//	          | c <maps>                          func(flamego.Context)            (auto-wrapped)
//	          | w | hf                            func(http.ResponseWriter,*http.Request) / http.HandlerFunc
//	          | t <status> <body hex>             func() (int, string)
//	          | l <maps>                          flamego.LoggerInvoker
//	          | ci <maps>                         an explicit flamego.ContextInvoker
//	  maps = - | <ty>.<cty>.<vid>+…  : values the handler maps into the REQUEST scope through its Context.
//	  With <ty> one of the three per-request services the handler RE-REGISTERS that service with an
//	  identifiable replacement (<cty> is ignored): 12 = a Context wrapper embedding the handler's own
//	  Context (c.MapTo(wrapper, (*flamego.Context)(nil))), 13 = an http.ResponseWriter wrapper around
//	  c.ResponseWriter() (c.MapTo), 14 = a clone of the request (r.WithContext) carrying the id (c.Map).
//	  Every later handler — of a built-in auto-wrapped shape or not — must receive the replacement.
//
// The universe (which types are interfaces, who implements whom) is computed here with reflect and
// sent to the model on the NEW line.  Value ids: every registered value carries its own id, so
// the harness reports WHICH value arrived.  For an interface with several implementors in one scope
// Go's map iteration decides; the model prints the admissible set (`a|b`) and the check compares by
// membership (lib/props.py, `line_equal`).

import (
	"context"
	"fmt"
	"io"
	"math/rand"
	"net/http"
	"net/http/httptest"
	"reflect"
	"strconv"
	"strings"

	"github.com/flamego/flamego"
	"github.com/flamego/flamego/inject"
)

// ---------------------------------------------------------------------------- the universe

type tS struct{ ID int }

func (s tS) A() int  { return s.ID }
func (s *tS) B() int { return s.ID }

type tO struct{ ID int }

func (o tO) A() int { return o.ID }
func (o tO) B() int { return o.ID }

type tN int

func (n tN) B() int { return int(n) }

// The interfaces are "sealed" (an unexported method next to the exported ones): reflect counts the unexported
// method for the interface type but not for the concrete types, so an implementor test that compares method
// COUNTS instead of method sets goes wrong exactly here.
type ifA interface {
	A() int
	sealed()
}
type ifB interface {
	B() int
	sealed()
}
type ifAB interface {
	A() int
	B() int
	sealed()
}

func (tS) sealed() {}
func (tO) sealed() {}
func (tN) sealed() {}
// ifN: implemented by nobody IN THE UNIVERSE — but its method set is fmt.Stringer's, which plenty of types outside it
// have (a value the framework itself might put into a scope must not answer for it)
type ifN interface{ String() string }

const (
	tyS = iota
	tyPS
	tyN
	tyStr
	tyChan
	tyFunc
	tyPO
	tyO
	tyIfA
	tyIfB
	tyIfAB
	tyIfN
	nInjTypes
	tyCtx = iota - 1
	tyRW
	tyReq
	tyLog
	nFlameTypes = iota - 1
)

var loggerType = reflect.TypeOf(flamego.LoggerInvoker(nil)).In(1)

var injTypes = []reflect.Type{
	tyS:    reflect.TypeOf(tS{}),
	tyPS:   reflect.TypeOf((*tS)(nil)),
	tyN:    reflect.TypeOf(tN(0)),
	tyStr:  reflect.TypeOf(""),
	tyChan: reflect.TypeOf((chan int)(nil)),
	tyFunc: reflect.TypeOf((func() int)(nil)),
	tyPO:   reflect.TypeOf((*tO)(nil)),
	tyO:    reflect.TypeOf(tO{}),
	tyIfA:  reflect.TypeOf((*ifA)(nil)).Elem(),
	tyIfB:  reflect.TypeOf((*ifB)(nil)).Elem(),
	tyIfAB: reflect.TypeOf((*ifAB)(nil)).Elem(),
	tyIfN:  reflect.TypeOf((*ifN)(nil)).Elem(),
	tyCtx:  reflect.TypeOf((*flamego.Context)(nil)).Elem(),
	tyRW:   reflect.TypeOf((*http.ResponseWriter)(nil)).Elem(),
	tyReq:  reflect.TypeOf((*http.Request)(nil)),
	tyLog:  loggerType,
}

var ifacePtrs = map[int]interface{}{
	tyIfA: (*ifA)(nil), tyIfB: (*ifB)(nil), tyIfAB: (*ifAB)(nil), tyIfN: (*ifN)(nil),
}

// universeArgs renders "<n> <isInterface bits> <implements rows>" for the first n types.
func universeArgs(n int) string {
	var bits strings.Builder
	rows := make([]string, n)
	for k := 0; k < n; k++ {
		if injTypes[k].Kind() == reflect.Interface {
			bits.WriteByte('1')
		} else {
			bits.WriteByte('0')
		}
		var row strings.Builder
		for t := 0; t < n; t++ {
			if injTypes[t].Kind() == reflect.Interface && injTypes[k].Implements(injTypes[t]) {
				row.WriteByte('1')
			} else {
				row.WriteByte('0')
			}
		}
		rows[k] = row.String()
	}
	return fmt.Sprintf("%d %s %s", n, bits.String(), strings.Join(rows, ","))
}

func implementsIdx(k, t int) bool {
	return injTypes[t].Kind() == reflect.Interface && injTypes[k].Implements(injTypes[t])
}

func isIfaceIdx(t int) bool { return injTypes[t].Kind() == reflect.Interface }

// mkVal builds a value of concrete type ty carrying id.
func mkVal(ty, id int) interface{} {
	if id == 0 {
		// id 0 is the ZERO value of the type: for pointers, channels and funcs the typed nil — a perfectly good value to
		// register (it replaces, shadows and is delivered like any other)
		switch ty {
		case tyPS:
			return (*tS)(nil)
		case tyChan:
			return (chan int)(nil)
		case tyFunc:
			return (func() int)(nil)
		case tyPO:
			return (*tO)(nil)
		}
	}
	switch ty {
	case tyS:
		return tS{ID: id}
	case tyPS:
		return &tS{ID: id}
	case tyN:
		return tN(id)
	case tyStr:
		return strconv.Itoa(id)
	case tyChan:
		return make(chan int, id)
	case tyFunc:
		return func() int { return id }
	case tyPO:
		return &tO{ID: id}
	case tyO:
		return tO{ID: id}
	}
	panic("mkVal: not a concrete universe type")
}

// identifiable replacements for the three per-request services
type idContext struct {
	flamego.Context
	id int
}

type idWriter struct {
	http.ResponseWriter
	id int
}

type verifReqID struct{}

// injSession knows the identities of the per-request services of a flame session.
type injSession struct {
	reqs      []*http.Request
	appLogger interface{}
}

// idOf recovers the id a value carries (0 = zero value, -1 = unknown).
func (s *injSession) idOf(x interface{}) int {
	switch v := x.(type) {
	case nil:
		return 0
	case tS:
		return v.ID
	case *tS:
		if v == nil {
			return 0
		}
		return v.ID
	case tN:
		return int(v)
	case string:
		if v == "" {
			return 0
		}
		n, err := strconv.Atoi(v)
		if err != nil {
			return -1
		}
		return n
	case chan int:
		return cap(v)
	case func() int:
		if v == nil {
			return 0
		}
		return v()
	case *tO:
		if v == nil {
			return 0
		}
		return v.ID
	case tO:
		return v.ID
	case *idContext:
		return v.id
	case *idWriter:
		return v.id
	case *http.Request:
		if v == nil {
			return 0
		}
		if id, ok := v.Context().Value(verifReqID{}).(int); ok {
			return id
		}
		for k, r := range s.reqs {
			if r == v {
				return 3000 + k
			}
		}
		return -1
	case flamego.Context:
		for k, r := range s.reqs {
			if v.Request() != nil && v.Request().Request == r {
				return 1000 + k
			}
		}
		return -1
	case http.ResponseWriter:
		k, err := strconv.Atoi(v.Header().Get("X-Verif-Req"))
		if err != nil {
			return -1
		}
		return 2000 + k
	}
	if s.appLogger != nil && x == s.appLogger {
		return 4000
	}
	return -1
}

func (s *injSession) ids(xs []interface{}) string {
	if len(xs) == 0 {
		return "-"
	}
	out := make([]string, len(xs))
	for i, x := range xs {
		out[i] = strconv.Itoa(s.idOf(x))
	}
	return strings.Join(out, ",")
}

func parseInts(s string) []int {
	if s == "-" || s == "" {
		return nil
	}
	var out []int
	for _, p := range strings.Split(s, ",") {
		out = append(out, atoi(p))
	}
	return out
}

func joinInts(xs []int) string {
	if len(xs) == 0 {
		return "-"
	}
	out := make([]string, len(xs))
	for i, x := range xs {
		out[i] = strconv.Itoa(x)
	}
	return strings.Join(out, ",")
}

// notFoundType maps "… value not found for type T" to T's index in the universe.
func notFoundType(msg string, n int) int {
	const marker = "value not found for type "
	i := strings.LastIndex(msg, marker)
	if i < 0 {
		return -1
	}
	// the error NAMES the type: the type's text follows the marker; more text may follow it (which parameter, of which
	// function) — the longest universe type standing there, ending at a word boundary, is the type named
	name := msg[i+len(marker):]
	best, bestLen := -2, -1
	for k := 0; k < n; k++ {
		t := injTypes[k].String()
		if !strings.HasPrefix(name, t) || len(t) <= bestLen {
			continue
		}
		if len(name) > len(t) {
			c := name[len(t)]
			if c == '_' || c == '.' || c == '*' || (c >= '0' && c <= '9') || (c >= 'a' && c <= 'z') || (c >= 'A' && c <= 'Z') {
				continue
			}
		}
		best, bestLen = k, len(t)
	}
	return best
}

// ------------------------------------------------------------------ hand-written FastInvokers

type recFn func(args []interface{}) []int

func boxInts(xs []int) []reflect.Value {
	out := make([]reflect.Value, len(xs))
	for i, x := range xs {
		out[i] = reflect.ValueOf(x)
	}
	return out
}

type fi0 func() []int

func (f fi0) Invoke(args []interface{}) ([]reflect.Value, error) { return boxInts(f()), nil }

type fi1[A any] func(A) []int

func (f fi1[A]) Invoke(args []interface{}) ([]reflect.Value, error) {
	return boxInts(f(args[0].(A))), nil
}

type fi2[A, B any] func(A, B) []int

func (f fi2[A, B]) Invoke(args []interface{}) ([]reflect.Value, error) {
	return boxInts(f(args[0].(A), args[1].(B))), nil
}

type fi3[A, B, C any] func(A, B, C) []int

func (f fi3[A, B, C]) Invoke(args []interface{}) ([]reflect.Value, error) {
	return boxInts(f(args[0].(A), args[1].(B), args[2].(C))), nil
}

func mk1[A any](rec recFn) interface{} {
	return fi1[A](func(a A) []int { return rec([]interface{}{a}) })
}
func mk2[A, B any](rec recFn) interface{} {
	return fi2[A, B](func(a A, b B) []int { return rec([]interface{}{a, b}) })
}
func mk3[A, B, C any](rec recFn) interface{} {
	return fi3[A, B, C](func(a A, b B, c C) []int { return rec([]interface{}{a, b, c}) })
}

// The selectors below instantiate the generic wrappers for every combination of universe types.
// (Three-parameter wrappers only over the 12 injector types; the service types of a Flame appear
// in wrappers of up to two parameters.)

func sel1(t int, rec recFn) interface{} {
	switch t {
	case tyS:
		return mk1[tS](rec)
	case tyPS:
		return mk1[*tS](rec)
	case tyN:
		return mk1[tN](rec)
	case tyStr:
		return mk1[string](rec)
	case tyChan:
		return mk1[chan int](rec)
	case tyFunc:
		return mk1[func() int](rec)
	case tyPO:
		return mk1[*tO](rec)
	case tyO:
		return mk1[tO](rec)
	case tyIfA:
		return mk1[ifA](rec)
	case tyIfB:
		return mk1[ifB](rec)
	case tyIfAB:
		return mk1[ifAB](rec)
	case tyIfN:
		return mk1[ifN](rec)
	case tyCtx:
		return mk1[flamego.Context](rec)
	case tyRW:
		return mk1[http.ResponseWriter](rec)
	case tyReq:
		return mk1[*http.Request](rec)
	}
	return nil
}

func sel2b[A any](t int, rec recFn) interface{} {
	switch t {
	case tyS:
		return mk2[A, tS](rec)
	case tyPS:
		return mk2[A, *tS](rec)
	case tyN:
		return mk2[A, tN](rec)
	case tyStr:
		return mk2[A, string](rec)
	case tyChan:
		return mk2[A, chan int](rec)
	case tyFunc:
		return mk2[A, func() int](rec)
	case tyPO:
		return mk2[A, *tO](rec)
	case tyO:
		return mk2[A, tO](rec)
	case tyIfA:
		return mk2[A, ifA](rec)
	case tyIfB:
		return mk2[A, ifB](rec)
	case tyIfAB:
		return mk2[A, ifAB](rec)
	case tyIfN:
		return mk2[A, ifN](rec)
	case tyCtx:
		return mk2[A, flamego.Context](rec)
	case tyRW:
		return mk2[A, http.ResponseWriter](rec)
	case tyReq:
		return mk2[A, *http.Request](rec)
	}
	return nil
}

func sel2(t0, t1 int, rec recFn) interface{} {
	switch t0 {
	case tyS:
		return sel2b[tS](t1, rec)
	case tyPS:
		return sel2b[*tS](t1, rec)
	case tyN:
		return sel2b[tN](t1, rec)
	case tyStr:
		return sel2b[string](t1, rec)
	case tyChan:
		return sel2b[chan int](t1, rec)
	case tyFunc:
		return sel2b[func() int](t1, rec)
	case tyPO:
		return sel2b[*tO](t1, rec)
	case tyO:
		return sel2b[tO](t1, rec)
	case tyIfA:
		return sel2b[ifA](t1, rec)
	case tyIfB:
		return sel2b[ifB](t1, rec)
	case tyIfAB:
		return sel2b[ifAB](t1, rec)
	case tyIfN:
		return sel2b[ifN](t1, rec)
	case tyCtx:
		return sel2b[flamego.Context](t1, rec)
	case tyRW:
		return sel2b[http.ResponseWriter](t1, rec)
	case tyReq:
		return sel2b[*http.Request](t1, rec)
	}
	return nil
}

func sel3c[A, B any](t int, rec recFn) interface{} {
	switch t {
	case tyS:
		return mk3[A, B, tS](rec)
	case tyPS:
		return mk3[A, B, *tS](rec)
	case tyN:
		return mk3[A, B, tN](rec)
	case tyStr:
		return mk3[A, B, string](rec)
	case tyChan:
		return mk3[A, B, chan int](rec)
	case tyFunc:
		return mk3[A, B, func() int](rec)
	case tyPO:
		return mk3[A, B, *tO](rec)
	case tyO:
		return mk3[A, B, tO](rec)
	case tyIfA:
		return mk3[A, B, ifA](rec)
	case tyIfB:
		return mk3[A, B, ifB](rec)
	case tyIfAB:
		return mk3[A, B, ifAB](rec)
	case tyIfN:
		return mk3[A, B, ifN](rec)
	}
	return nil
}

func sel3b[A any](t1, t2 int, rec recFn) interface{} {
	switch t1 {
	case tyS:
		return sel3c[A, tS](t2, rec)
	case tyPS:
		return sel3c[A, *tS](t2, rec)
	case tyN:
		return sel3c[A, tN](t2, rec)
	case tyStr:
		return sel3c[A, string](t2, rec)
	case tyChan:
		return sel3c[A, chan int](t2, rec)
	case tyFunc:
		return sel3c[A, func() int](t2, rec)
	case tyPO:
		return sel3c[A, *tO](t2, rec)
	case tyO:
		return sel3c[A, tO](t2, rec)
	case tyIfA:
		return sel3c[A, ifA](t2, rec)
	case tyIfB:
		return sel3c[A, ifB](t2, rec)
	case tyIfAB:
		return sel3c[A, ifAB](t2, rec)
	case tyIfN:
		return sel3c[A, ifN](t2, rec)
	}
	return nil
}

func sel3(t0, t1, t2 int, rec recFn) interface{} {
	switch t0 {
	case tyS:
		return sel3b[tS](t1, t2, rec)
	case tyPS:
		return sel3b[*tS](t1, t2, rec)
	case tyN:
		return sel3b[tN](t1, t2, rec)
	case tyStr:
		return sel3b[string](t1, t2, rec)
	case tyChan:
		return sel3b[chan int](t1, t2, rec)
	case tyFunc:
		return sel3b[func() int](t1, t2, rec)
	case tyPO:
		return sel3b[*tO](t1, t2, rec)
	case tyO:
		return sel3b[tO](t1, t2, rec)
	case tyIfA:
		return sel3b[ifA](t1, t2, rec)
	case tyIfB:
		return sel3b[ifB](t1, t2, rec)
	case tyIfAB:
		return sel3b[ifAB](t1, t2, rec)
	case tyIfN:
		return sel3b[ifN](t1, t2, rec)
	}
	return nil
}

// mkFast returns a FastInvoker of the given signature (nil when no wrapper exists for it).
func mkFast(sig []int, rec recFn) interface{} {
	switch len(sig) {
	case 0:
		return fi0(func() []int { return rec(nil) })
	case 1:
		return sel1(sig[0], rec)
	case 2:
		return sel2(sig[0], sig[1], rec)
	case 3:
		return sel3(sig[0], sig[1], sig[2], rec)
	}
	return nil
}

func fastSupported(sig []int) bool {
	switch len(sig) {
	case 0:
		return true
	case 1, 2:
		for _, t := range sig {
			if t >= tyLog {
				return false
			}
		}
		return true
	case 3:
		for _, t := range sig {
			if t >= nInjTypes {
				return false
			}
		}
		return true
	}
	return false
}

// mkPlain builds func(sig…) (int × nres) with reflect.MakeFunc.
func mkPlain(sig []int, nres int, rec recFn) interface{} {
	in := make([]reflect.Type, len(sig))
	for i, t := range sig {
		in[i] = injTypes[t]
	}
	out := make([]reflect.Type, nres)
	for i := range out {
		out[i] = reflect.TypeOf(0)
	}
	ft := reflect.FuncOf(in, out, false)
	return reflect.MakeFunc(ft, func(args []reflect.Value) []reflect.Value {
		xs := make([]interface{}, len(args))
		for i, a := range args {
			xs[i] = a.Interface()
		}
		return boxInts(rec(xs))
	}).Interface()
}

// ------------------------------------------------------------------------ executor: inject

func init() {
	execs["inject"] = execInject
	execs["injectflame"] = execInjectFlame
	gens["C04"] = genInject
}

func execInject(args []string, lines [][]string) []string {
	if len(args) != 4 || strings.Join(args[:3], " ") != universeArgs(nInjTypes) {
		outs := []string{"bad-universe"}
		for range lines {
			outs = append(outs, "bad-universe")
		}
		return outs
	}
	nScopes := atoi(args[3])
	injs := make([]inject.Injector, nScopes)
	for i := range injs {
		injs[i] = inject.New()
	}
	for i := 0; i+1 < nScopes; i++ {
		injs[i].SetParent(injs[i+1])
	}
	sess := &injSession{}
	outs := []string{"new"}
	for _, l := range lines {
		outs = append(outs, injOp(sess, injs, l))
	}
	return outs
}

func injOp(sess *injSession, injs []inject.Injector, l []string) (out string) {
	defer func() {
		if r := recover(); r != nil {
			out = "panic"
		}
	}()
	scope := func() inject.Injector { return injs[atoi(l[1])] }
	switch {
	case len(l) == 4 && l[0] == "M":
		scope().Map(mkVal(atoi(l[2]), atoi(l[3])))
		return "ok"
	case len(l) == 5 && l[0] == "MT":
		scope().MapTo(mkVal(atoi(l[3]), atoi(l[4])), ifacePtrs[atoi(l[2])])
		return "ok"
	case len(l) == 5 && l[0] == "S":
		scope().Set(injTypes[atoi(l[2])], reflect.ValueOf(mkVal(atoi(l[3]), atoi(l[4]))))
		return "ok"
	case len(l) == 3 && l[0] == "V":
		v := scope().Value(injTypes[atoi(l[2])])
		if !v.IsValid() {
			return "none"
		}
		return fmt.Sprintf("val %d", sess.idOf(v.Interface()))
	case len(l) == 5 && l[0] == "I":
		sig, res := parseInts(l[3]), parseInts(l[4])
		calls, seen := 0, "-"
		rec := func(xs []interface{}) []int {
			calls++
			seen = sess.ids(xs)
			return res
		}
		var h interface{}
		if l[2] == "f" {
			h = mkFast(sig, rec)
			if h == nil {
				return "bad-op"
			}
		} else {
			h = mkPlain(sig, len(res), rec)
		}
		vals, err := scope().Invoke(h)
		if err != nil {
			return fmt.Sprintf("err notfound %d calls=%d", notFoundType(err.Error(), nInjTypes), calls)
		}
		got := make([]int, len(vals))
		for i, v := range vals {
			got[i] = int(v.Int())
		}
		return fmt.Sprintf("ran %s calls=%d res=%s", seen, calls, joinInts(got))
	case len(l) == 4 && l[0] == "IP":
		// the body PANICS (a failed type assertion of its own: a runtime.TypeAssertionError) once its parameters are
		// resolved: it ran exactly once, whichever way it was invoked, and the panic is the caller's to see
		sig := parseInts(l[3])
		calls, seen := 0, "-"
		rec := func(xs []interface{}) []int {
			calls++
			seen = sess.ids(xs)
			var x interface{} = calls
			_ = x.(string) // panics: interface conversion
			return nil
		}
		var h interface{}
		if l[2] == "f" {
			h = mkFast(sig, rec)
			if h == nil {
				return "bad-op"
			}
		} else {
			h = mkPlain(sig, 0, rec)
		}
		out := ""
		func() {
			defer func() {
				if r := recover(); r != nil {
					out = fmt.Sprintf("ran %s calls=%d panic", seen, calls)
				}
			}()
			_, err := scope().Invoke(h)
			if err != nil {
				out = fmt.Sprintf("err notfound %d calls=%d", notFoundType(err.Error(), nInjTypes), calls)
			} else {
				out = fmt.Sprintf("ran %s calls=%d no-panic", seen, calls)
			}
		}()
		return out
	case len(l) == 4 && l[0] == "A":
		return applyOp(sess, scope(), l[2], l[3])
	}
	return "bad-op"
}

var tagKinds = []reflect.StructTag{"", `inject:""`, `json:"a" inject:"x"`, `json:"inject"`, `inject`}

func applyOp(sess *injSession, inj inject.Injector, mode, spec string) string {
	var fields []reflect.StructField
	var tys []int
	var exported []bool
	if spec != "-" {
		for i, f := range strings.Split(spec, ",") {
			p := strings.Split(f, ".")
			ty, tag, exp := atoi(p[0]), atoi(p[1]), p[2] == "1"
			sf := reflect.StructField{Type: injTypes[ty], Tag: tagKinds[tag]}
			if exp {
				sf.Name = fmt.Sprintf("F%d", i)
			} else {
				sf.Name = fmt.Sprintf("f%d", i)
				sf.PkgPath = "main"
			}
			fields = append(fields, sf)
			tys = append(tys, ty)
			exported = append(exported, exp)
		}
	}
	pv := reflect.New(reflect.StructOf(fields))
	var target interface{}
	switch mode {
	case "p":
		target = pv.Interface()
	case "v":
		target = pv.Elem().Interface()
	case "pp":
		ppv := reflect.New(pv.Type())
		ppv.Elem().Set(pv)
		target = ppv.Interface()
	default:
		return "bad-op"
	}
	err := inj.Apply(target)
	st := pv.Elem()
	ids := make([]int, st.NumField())
	for i := range ids {
		f := st.Field(i)
		switch {
		case exported[i]:
			ids[i] = sess.idOf(f.Interface())
		case f.IsZero():
			ids[i] = 0
		default:
			ids[i] = -1
		}
	}
	e := "none"
	if err != nil {
		e = fmt.Sprintf("notfound:%d", notFoundType(err.Error(), nInjTypes))
	}
	return fmt.Sprintf("fields %s err=%s", joinInts(ids), e)
}

// ------------------------------------------------------------------- executor: injectflame

type flameSess struct {
	injSession
	f       *flamego.Flame
	pending []flamego.Handler
	events  []string
	routes  int
	// `FR` was given: the application's ReturnHandler is the recording one
	recording bool
}

func execInjectFlame(args []string, lines [][]string) []string {
	if len(args) != 3 || strings.Join(args, " ") != universeArgs(nFlameTypes) {
		outs := []string{"bad-universe"}
		for range lines {
			outs = append(outs, "bad-universe")
		}
		return outs
	}
	s := &flameSess{f: flamego.NewWithLogger(io.Discard)}
	s.appLogger = s.f.Value(loggerType).Interface()
	outs := []string{"new"}
	for _, l := range lines {
		outs = append(outs, s.op(l))
	}
	return outs
}

// applyMaps performs the request-scope registrations a handler was told to make.
func (s *flameSess) applyMaps(c flamego.Context, maps string) {
	if maps == "-" || c == nil {
		return
	}
	for _, m := range strings.Split(maps, "+") {
		p := strings.Split(m, ".")
		ty, cty, vid := atoi(p[0]), atoi(p[1]), atoi(p[2])
		switch {
		case ty == tyCtx:
			c.MapTo(&idContext{Context: c, id: vid}, (*flamego.Context)(nil))
		case ty == tyRW:
			c.MapTo(&idWriter{ResponseWriter: c.ResponseWriter(), id: vid}, (*http.ResponseWriter)(nil))
		case ty == tyReq:
			r := c.Request().Request
			c.Map(r.WithContext(context.WithValue(r.Context(), verifReqID{}, vid)))
		case isIfaceIdx(ty):
			c.MapTo(mkVal(cty, vid), ifacePtrs[ty])
		default:
			c.Map(mkVal(cty, vid))
		}
	}
}

func (s *flameSess) record(xs []interface{}) {
	s.events = append(s.events, "ran "+s.ids(xs))
}

// handler builds the real handler value for a spec.
func (s *flameSess) handler(l []string) flamego.Handler {
	generic := func(maps string) recFn {
		return func(xs []interface{}) []int {
			s.record(xs)
			for _, x := range xs {
				if c, ok := x.(flamego.Context); ok {
					s.applyMaps(c, maps)
					break
				}
			}
			return nil
		}
	}
	switch {
	case len(l) == 3 && l[0] == "g":
		return mkPlain(parseInts(l[1]), 0, generic(l[2]))
	case len(l) == 3 && l[0] == "f":
		return mkFast(parseInts(l[1]), generic(l[2]))
	case len(l) == 2 && l[0] == "c":
		maps := l[1]
		return func(c flamego.Context) {
			s.record([]interface{}{c})
			s.applyMaps(c, maps)
		}
	case len(l) == 2 && l[0] == "ci":
		maps := l[1]
		return flamego.ContextInvoker(func(c flamego.Context) {
			s.record([]interface{}{c})
			s.applyMaps(c, maps)
		})
	case len(l) == 1 && l[0] == "w":
		return func(w http.ResponseWriter, r *http.Request) { s.record([]interface{}{w, r}) }
	case len(l) == 1 && l[0] == "hf":
		return http.HandlerFunc(func(w http.ResponseWriter, r *http.Request) { s.record([]interface{}{w, r}) })
	case len(l) == 3 && l[0] == "t":
		status, body := atoi(l[1]), unhx(l[2])
		return func() (int, string) {
			s.record(nil)
			return status, body
		}
	case len(l) == 4 && l[0] == "r":
		if !s.recording {
			return nil // value-returning handlers only behind the recording ReturnHandler (`FR`): bad-op otherwise
		}
		return s.resultHandler(l[1], atoi(l[2]), atoi(l[3]))
	case len(l) == 2 && l[0] == "l":
		rec := generic(l[1])
		return reflect.MakeFunc(reflect.TypeOf(flamego.LoggerInvoker(nil)), func(args []reflect.Value) []reflect.Value {
			rec([]interface{}{args[0].Interface(), args[1].Interface()})
			return nil
		}).Interface()
	}
	return nil
}

// resultHandler: an ordinary Go function of a COMMON handler type that returns values.  a, b encode the values:
// error 0 = nil, n = errors.New("e<n>"); string 0 = "", n = "s<n>"; int n = n.  Whether flamego invokes it through
// reflection or wraps it into a fast invoker of its own, the results must come back unchanged (static types included).
func (s *flameSess) resultHandler(shape string, a, b int) flamego.Handler {
	mkErr := func(n int) error {
		if n == 0 {
			return nil
		}
		return fmt.Errorf("e%d", n)
	}
	mkStr := func(n int) string {
		if n == 0 {
			return ""
		}
		return fmt.Sprintf("s%d", n)
	}
	switch shape {
	case "ce":
		return func(c flamego.Context) error { s.record([]interface{}{c}); return mkErr(a) }
	case "cs":
		return func(c flamego.Context) string { s.record([]interface{}{c}); return mkStr(a) }
	case "e":
		return func() error { s.record(nil); return mkErr(a) }
	case "s":
		return func() string { s.record(nil); return mkStr(a) }
	case "cis":
		return func(c flamego.Context) (int, string) { s.record([]interface{}{c}); return a, mkStr(b) }
	case "wre":
		return func(w http.ResponseWriter, r *http.Request) error { s.record([]interface{}{w, r}); return mkErr(a) }
	case "se":
		return func() (string, error) { s.record(nil); return mkStr(a), mkErr(b) }
	case "ie":
		return func() (int, error) { s.record(nil); return a, mkErr(b) }
	case "cb":
		return func(c flamego.Context) []byte { s.record([]interface{}{c}); return []byte(mkStr(a)) }
	}
	return nil
}

// recordResults is mapped as the application's ReturnHandler by `FR`: it writes nothing and lists the raw results
// it was handed — static type and value of each
func (s *flameSess) recordResults(c flamego.Context, vals []reflect.Value) {
	parts := make([]string, len(vals))
	for i, v := range vals {
		if !v.IsValid() {
			parts[i] = "invalid"
			continue
		}
		t := v.Type().String()
		switch v.Kind() {
		case reflect.Interface, reflect.Ptr:
			if v.IsNil() {
				parts[i] = t + "=nil"
			} else if e, ok := v.Interface().(error); ok {
				parts[i] = t + "=" + e.Error()
			} else {
				parts[i] = t + "=?"
			}
		case reflect.String:
			parts[i] = t + "=" + hx(v.String())
		case reflect.Int:
			parts[i] = fmt.Sprintf("%s=%d", t, v.Int())
		case reflect.Slice:
			parts[i] = t + "=" + hx(string(v.Bytes()))
		default:
			parts[i] = t + "=?"
		}
	}
	s.events = append(s.events, "res "+strings.Join(parts, ","))
}

func (s *flameSess) op(l []string) (out string) {
	defer func() {
		if r := recover(); r != nil {
			out = "panic"
		}
	}()
	switch {
	case len(l) == 3 && l[0] == "FM":
		s.f.Map(mkVal(atoi(l[1]), atoi(l[2])))
		return "ok"
	case len(l) == 4 && l[0] == "FMT":
		s.f.MapTo(mkVal(atoi(l[2]), atoi(l[3])), ifacePtrs[atoi(l[1])])
		return "ok"
	case len(l) == 1 && l[0] == "FR":
		s.f.Map(flamego.ReturnHandler(s.recordResults))
		s.recording = true
		return "ok"
	case len(l) == 2 && l[0] == "FV":
		v := s.f.Value(injTypes[atoi(l[1])])
		if !v.IsValid() {
			return "none"
		}
		return fmt.Sprintf("val %d", s.idOf(v.Interface()))
	case len(l) >= 2 && (l[0] == "U" || l[0] == "H"):
		h := s.handler(l[1:])
		if h == nil {
			return "bad-op"
		}
		if l[0] == "U" {
			s.f.Use(h)
		} else {
			s.pending = append(s.pending, h)
		}
		return "ok"
	case len(l) == 1 && l[0] == "RQ":
		path := fmt.Sprintf("/r%d", s.routes)
		s.routes++
		s.f.Get(path, s.pending...)
		s.pending = nil
		k := len(s.reqs)
		req := httptest.NewRequest("GET", path, nil)
		s.reqs = append(s.reqs, req)
		rec := httptest.NewRecorder()
		rec.Header().Set("X-Verif-Req", strconv.Itoa(k))
		s.events = nil
		resp := ""
		func() {
			defer func() {
				if r := recover(); r != nil {
					s.events = append(s.events, fmt.Sprintf("err %d", notFoundType(fmt.Sprint(r), nFlameTypes)))
					resp = "panic"
				}
			}()
			s.f.ServeHTTP(rec, req)
			resp = fmt.Sprintf("%d:%s", rec.Code, hx(rec.Body.String()))
		}()
		return strings.Join(append(s.events, "resp "+resp), " ")
	}
	return "bad-op"
}

// -------------------------------------------------------------------------------- generator

type injGen struct {
	r      *rand.Rand
	emit   Emit
	vid    int
	regd   []int // types registered somewhere in this session (bias for signatures)
	concOf map[int][]int
}

var concreteTypes = []int{tyS, tyPS, tyN, tyStr, tyChan, tyFunc, tyPO, tyO}
var ifaceTypes = []int{tyIfA, tyIfB, tyIfAB, tyIfN}

func newInjGen(r *rand.Rand, emit Emit) *injGen {
	g := &injGen{r: r, emit: emit, concOf: map[int][]int{}}
	for _, it := range ifaceTypes {
		for _, ct := range concreteTypes {
			if implementsIdx(ct, it) {
				g.concOf[it] = append(g.concOf[it], ct)
			}
		}
	}
	return g
}

func (g *injGen) nextVid() int { g.vid++; return g.vid }

// regSpec picks a registration: key type and the concrete type of the value (key for concrete types).
func (g *injGen) regSpec() (kind string, ty, cty int) {
	r := g.r
	switch k := r.Intn(10); {
	case k < 5:
		ty = concreteTypes[r.Intn(len(concreteTypes))]
		return "M", ty, ty
	case k < 8:
		ty = ifaceTypes[r.Intn(3)] // ifN has no implementor to map
		cs := g.concOf[ty]
		return "MT", ty, cs[r.Intn(len(cs))]
	default:
		if r.Intn(2) == 0 {
			ty = concreteTypes[r.Intn(len(concreteTypes))]
			return "S", ty, ty
		}
		ty = ifaceTypes[r.Intn(3)]
		cs := g.concOf[ty]
		return "S", ty, cs[r.Intn(len(cs))]
	}
}

func (g *injGen) someType(n int) int {
	r := g.r
	if len(g.regd) > 0 && r.Intn(10) < 6 {
		return g.regd[r.Intn(len(g.regd))]
	}
	if r.Intn(10) < 4 {
		return ifaceTypes[r.Intn(len(ifaceTypes))]
	}
	return r.Intn(n)
}

func (g *injGen) sig(n, maxLen int) []int {
	k := g.r.Intn(maxLen + 1)
	out := make([]int, k)
	for i := range out {
		out[i] = g.someType(n)
	}
	return out
}

func (g *injGen) fieldsSpec() string {
	r := g.r
	k := r.Intn(6)
	if k == 0 {
		return "-"
	}
	fs := make([]string, k)
	for i := range fs {
		tag := 1
		if r.Intn(3) == 0 {
			tag = r.Intn(len(tagKinds))
		}
		exp := 1
		if r.Intn(5) == 0 {
			exp = 0
		}
		fs[i] = fmt.Sprintf("%d.%d.%d", g.someType(nInjTypes), tag, exp)
	}
	return strings.Join(fs, ",")
}

func (g *injGen) randomInjectSession() {
	r := g.r
	g.vid, g.regd = 0, nil
	n := 1 + r.Intn(3)
	g.emit("NEW inject %s %d", universeArgs(nInjTypes), n)
	steps := 3 + r.Intn(16)
	for i := 0; i < steps; i++ {
		sc := r.Intn(n)
		switch k := r.Intn(20); {
		case k < 8:
			kind, ty, cty := g.regSpec()
			if r.Intn(4) == 0 && len(g.regd) > 0 { // deliberate re-registration of a type seen before
				ty2 := g.regd[r.Intn(len(g.regd))]
				if !isIfaceIdx(ty2) {
					kind, ty, cty = "M", ty2, ty2
				} else if cs := g.concOf[ty2]; len(cs) > 0 {
					kind, ty, cty = "MT", ty2, cs[r.Intn(len(cs))]
				}
			}
			g.regd = append(g.regd, ty)
			vid := g.nextVid()
			if r.Intn(7) == 0 {
				vid = 0 // the zero value of the type (a typed nil for pointers, channels, funcs)
			}
			if kind == "M" {
				g.emit("M %d %d %d", sc, ty, vid)
			} else {
				g.emit("%s %d %d %d %d", kind, sc, ty, cty, vid)
			}
		case k < 11:
			g.emit("V %d %d", sc, g.someType(nInjTypes))
		case k < 17:
			sig := g.sig(nInjTypes, 3)
			res := make([]int, r.Intn(3))
			for j := range res {
				res[j] = r.Intn(1000)
			}
			mode := "p"
			if r.Intn(2) == 0 {
				mode = "f"
			}
			g.emit("I %d %s %s %s", sc, mode, joinInts(sig), joinInts(res))
			if r.Intn(4) == 0 { // the same signature with a body that panics once it runs, both ways of invoking
				g.emit("IP %d p %s", sc, joinInts(sig))
				g.emit("IP %d f %s", sc, joinInts(sig))
			}
			if r.Intn(3) == 0 { // the same signature the other way round as well
				other := map[string]string{"p": "f", "f": "p"}[mode]
				g.emit("I %d %s %s %s", sc, other, joinInts(sig), joinInts(res))
			}
		default:
			g.emit("A %d %s %s", sc, []string{"p", "p", "p", "v", "pp"}[r.Intn(5)], g.fieldsSpec())
		}
	}
}

// exhaustiveInject: every assignment of a small registration alphabet to each of nScopes scopes,
// followed by every lookup and a few invocations/applications from every scope.
func (g *injGen) exhaustiveInject(nScopes int) {
	alphabet := []string{
		"M %d 1 %d",     // *tS: implements ifA, ifB, ifAB
		"M %d 2 %d",     // tN: implements ifB
		"MT %d 8 0 %d",  // exact ifA (a tS inside)
		"MT %d 10 6 %d", // exact ifAB (a *tO inside); the interface type ifAB itself implements ifA and ifB
		"M %d 1 %d",     // *tS again (replaces the first)
	}
	total := 1
	for i := 0; i < nScopes; i++ {
		total *= 1 << len(alphabet)
	}
	for code := 0; code < total; code++ {
		g.vid = 0
		g.emit("NEW inject %s %d", universeArgs(nInjTypes), nScopes)
		c := code
		for sc := 0; sc < nScopes; sc++ {
			for bit, op := range alphabet {
				if c&(1<<bit) != 0 {
					g.emit(op, sc, g.nextVid())
				}
			}
			c >>= len(alphabet)
		}
		for _, ty := range []int{tyPS, tyN, tyIfA, tyIfB, tyIfAB, tyIfN} {
			g.emit("V 0 %d", ty)
		}
		if nScopes > 1 {
			g.emit("V 1 %d", tyIfA)
			g.emit("V 1 %d", tyIfB)
		}
		g.emit("I 0 p %d,%d,%d 7,9", tyIfA, tyPS, tyIfB)
		g.emit("I 0 f %d,%d,%d 7,9", tyIfA, tyPS, tyIfB)
		g.emit("I 0 f %d,%d 5", tyN, tyIfAB)
		g.emit("A 0 p %d.1.1,%d.0.1,%d.1.0,%d.2.1,%d.1.1", tyPS, tyPS, tyPS, tyIfAB, tyN)
	}
}

func (g *injGen) mapsSpec(maxN int) string {
	r := g.r
	k := r.Intn(maxN + 1)
	if k == 0 {
		return "-"
	}
	ms := make([]string, k)
	for i := range ms {
		if g.r.Intn(4) == 0 { // re-register one of the request's own services
			ms[i] = fmt.Sprintf("%d.0.%d", tyCtx+g.r.Intn(3), 5000+g.nextVid())
			continue
		}
		_, ty, cty := g.regSpec()
		g.regd = append(g.regd, ty)
		ms[i] = fmt.Sprintf("%d.%d.%d", ty, cty, g.nextVid())
	}
	return strings.Join(ms, "+")
}

func (g *injGen) flameType() int {
	r := g.r
	if r.Intn(10) < 3 {
		return tyCtx + r.Intn(3)
	}
	return g.someType(nInjTypes)
}

func (g *injGen) handlerSpec(last bool) string {
	r := g.r
	switch k := r.Intn(20); {
	case k < 10:
		mode := "g"
		maxLen := 3
		if k >= 6 {
			mode, maxLen = "f", 2
		}
		n := r.Intn(maxLen + 1)
		sig := make([]int, n)
		hasCtx := false
		for i := range sig {
			sig[i] = g.flameType()
			if mode == "g" && r.Intn(12) == 0 {
				sig[i] = tyLog
			}
			hasCtx = hasCtx || sig[i] == tyCtx
		}
		if !hasCtx && n > 0 && r.Intn(2) == 0 {
			sig[r.Intn(n)] = tyCtx
			hasCtx = true
		}
		maps := "-"
		if hasCtx {
			maps = g.mapsSpec(2)
		}
		return fmt.Sprintf("%s %s %s", mode, joinInts(sig), maps)
	case k < 12:
		return "c " + g.mapsSpec(2)
	case k < 13:
		return "ci " + g.mapsSpec(2)
	case k < 14:
		// reflective twins of the built-in shapes: the same parameters plus the always-resolvable logger
		switch r.Intn(4) {
		case 0:
			return fmt.Sprintf("g %d,%d %s", tyCtx, tyLog, g.mapsSpec(2))
		case 1:
			return fmt.Sprintf("g %d,%d,%d -", tyRW, tyReq, tyLog)
		case 2:
			return fmt.Sprintf("g %d,%d %s", tyLog, tyCtx, g.mapsSpec(1))
		default:
			return fmt.Sprintf("g %d,%d -", tyReq, tyRW)
		}
	case k < 15:
		return "w"
	case k < 16:
		return "hf"
	case k < 18:
		return "l " + g.mapsSpec(1)
	default:
		if !last {
			return "c " + g.mapsSpec(2)
		}
		return fmt.Sprintf("t %d %s", []int{200, 201, 404, 418}[r.Intn(4)], hx([]string{"", "ok", "teapot"}[r.Intn(3)]))
	}
}

func (g *injGen) randomFlameSession() {
	r := g.r
	g.vid, g.regd = 0, nil
	g.emit("NEW injectflame %s", universeArgs(nFlameTypes))
	nreq := 1 + r.Intn(4)
	for q := 0; q < nreq; q++ {
		for i := r.Intn(3); i > 0; i-- {
			kind, ty, cty := g.regSpec()
			g.regd = append(g.regd, ty)
			if isIfaceIdx(ty) {
				g.emit("FMT %d %d %d", ty, cty, g.nextVid())
			} else {
				_ = kind
				g.emit("FM %d %d", ty, g.nextVid())
			}
		}
		if r.Intn(4) == 0 {
			g.emit("U %s", g.handlerSpec(false))
		}
		nh := 1 + r.Intn(4)
		for i := 0; i < nh; i++ {
			g.emit("H %s", g.handlerSpec(i == nh-1))
		}
		g.emit("RQ")
		for i := r.Intn(3); i > 0; i-- {
			g.emit("FV %d", g.someType(nInjTypes))
		}
	}
}

// fixedFlameSessions: the built-in shapes and the request-scope visibility, spelled out.
func (g *injGen) fixedFlameSessions() {
	u := universeArgs(nFlameTypes)
	g.emit("NEW injectflame %s", u)
	g.emit("FM %d 1", tyStr)
	g.emit("H c %d.%d.2+%d.%d.3", tyPS, tyPS, tyIfA, tyS)  // request 0 maps *tS and ifA
	g.emit("H g %d,%d,%d,%d -", tyPS, tyIfA, tyStr, tyCtx) // a later handler of request 0 sees them
	g.emit("H w")
	g.emit("H hf")
	g.emit("H l -")
	g.emit("H t 418 %s", hx("teapot"))
	g.emit("RQ")
	g.emit("FV %d", tyPS) // the application scope did not get them
	g.emit("FV %d", tyIfA)
	g.emit("H g %d -", tyStr)
	g.emit("H g %d -", tyPS) // request 1 does not see request 0's *tS: error, chain stops
	g.emit("H c -")
	g.emit("RQ")
	g.emit("U c %d.%d.9", tyStr, tyStr) // middleware maps a string per request, shadowing the app's
	g.emit("H f %d,%d -", tyStr, tyReq)
	g.emit("H f %d -", tyRW)
	g.emit("RQ")
	g.emit("FV %d", tyStr)
}

// serviceSessions: a handler re-registers a subset of the request's own services (Context,
// http.ResponseWriter, *http.Request) in the request scope; afterwards every built-in auto-wrapped
// shape, every fast invoker and their reflective twins (same parameters plus the logger) must
// report the replacement; a second re-registration replaces the first; the next request starts
// again from its own services.  All subsets x all kinds of re-registering handler x position.
func (g *injGen) serviceSessions() {
	u := universeArgs(nFlameTypes)
	shapes := func() {
		g.emit("H c -")
		g.emit("H ci -")
		g.emit("H w")
		g.emit("H hf")
		g.emit("H l -")
		g.emit("H g %d,%d -", tyCtx, tyLog)
		g.emit("H g %d,%d,%d -", tyRW, tyReq, tyLog)
		g.emit("H g %d -", tyCtx) // MakeFunc'd func(flamego.Context): auto-wrapped as well
		g.emit("H g %d,%d -", tyRW, tyReq)
		g.emit("H f %d -", tyCtx)
		g.emit("H f %d,%d -", tyRW, tyReq)
		g.emit("H g %d,%d,%d -", tyReq, tyRW, tyCtx)
	}
	registrars := []string{"c %s", "ci %s", "l %s", "g %d,%d %%s", "f %d %%s", "g %d %%s"}
	registrars[3] = fmt.Sprintf(registrars[3], tyLog, tyCtx)
	registrars[4] = fmt.Sprintf(registrars[4], tyCtx)
	registrars[5] = fmt.Sprintf(registrars[5], tyCtx)
	for subset := 1; subset < 8; subset++ {
		for _, reg := range registrars {
			for _, viaUse := range []bool{false, true} {
				g.vid = 0
				maps := func() string {
					var ms []string
					for b := 0; b < 3; b++ {
						if subset&(1<<b) != 0 {
							ms = append(ms, fmt.Sprintf("%d.0.%d", tyCtx+b, 5000+g.nextVid()))
						}
					}
					return strings.Join(ms, "+")
				}
				g.emit("NEW injectflame %s", u)
				if viaUse {
					g.emit("U c -")
					g.emit("U "+reg, maps()) // a middleware re-registers on every request
				} else {
					g.emit("H c -")
					g.emit("H "+reg, maps())
				}
				shapes()
				g.emit("H "+reg, maps()) // re-registered again: the later one wins
				shapes()
				g.emit("H t 201 %s", hx("ok"))
				g.emit("RQ")
				shapes() // the next request: its own services (or the middleware's fresh replacements)
				g.emit("RQ")
				g.emit("FV %d", tyCtx)
				g.emit("FV %d", tyReq)
			}
		}
	}
}

// resultSessions: handlers of common Go func types that RETURN values, on an application whose ReturnHandler only
// records what it is handed: the raw results (static type, nil-ness, value) must be the handler's own, whether
// the handler was invoked reflectively or through a built-in wrapper; the chain goes on after each
var resultShapes = []string{"ce", "cs", "e", "s", "cis", "wre", "se", "ie", "cb"}

func (g *injGen) resultSessions(random int) {
	u := universeArgs(nFlameTypes)
	for _, sh := range resultShapes {
		for a := 0; a < 2; a++ {
			for b := 0; b < 2; b++ {
				g.emit("NEW injectflame %s", u)
				g.emit("FR")
				g.emit("H c -")
				g.emit("H r %s %d %d", sh, a*7, b*3)
				g.emit("H w")
				g.emit("H r %s %d %d", sh, b*5, a*2)
				g.emit("RQ")
			}
		}
	}
	for i := 0; i < random; i++ {
		g.emit("NEW injectflame %s", u)
		g.emit("FR")
		for q := 1 + g.r.Intn(2); q > 0; q-- {
			for n := 1 + g.r.Intn(4); n > 0; n-- {
				if g.r.Intn(3) == 0 {
					g.emit("H %s", []string{"c -", "w", "hf", "ci -", "l -"}[g.r.Intn(5)])
				} else {
					g.emit("H r %s %d %d", resultShapes[g.r.Intn(len(resultShapes))], g.r.Intn(3), g.r.Intn(3))
				}
			}
			g.emit("RQ")
		}
	}
}

func genInject(r *rand.Rand, tier string, emit Emit) {
	g := newInjGen(r, emit)
	exScopes, nInj, nFlame := 2, 2500, 700
	if tier == "thorough" {
		exScopes, nInj, nFlame = 3, 60000, 15000
	}
	g.fixedFlameSessions()
	g.serviceSessions()
	g.resultSessions(nFlame / 5)
	genInjectChan(r, emit, nFlame/4)
	for n := 1; n <= exScopes; n++ {
		g.exhaustiveInject(n)
	}
	for i := 0; i < nInj; i++ {
		g.randomInjectSession()
	}
	for i := 0; i < nFlame; i++ {
		g.randomFlameSession()
	}
}
