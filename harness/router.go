package main

// Session kind "router": a real Flame (public API) plus shadow route trees (through the
// verif export) driven by ADD / HDR / NAME / REQ / TREQ / URL operations.

import (
	"context"
	"fmt"
	"io"
	"net/http"
	"net/http/httptest"
	"net/textproto"
	"net/url"
	"regexp"
	"sort"
	"strings"

	"github.com/flamego/flamego"
)

var allMethods = []string{"GET", "POST", "PUT", "DELETE", "PATCH", "OPTIONS", "HEAD", "CONNECT", "TRACE"}

func init() { execs["router"] = execRouter }

var realParser *flamego.VerifParser

func getParser() *flamego.VerifParser {
	if realParser == nil {
		p, err := flamego.VerifNewParser()
		if err != nil {
			panic(err)
		}
		realParser = p
	}
	return realParser
}

// wireOfText parses a route text with the REAL parser and renders the AST in wire form ("!" = rejected).
func wireOfText(text string) (w string) {
	defer func() {
		if r := recover(); r != nil {
			w = "!"
		}
	}()
	ast, err := getParser().Parse(text)
	if err != nil || ast == nil {
		return "!"
	}
	segs := make([]string, len(ast.Segments))
	for i, s := range ast.Segments {
		var es []string
		for _, e := range s.Elements {
			switch {
			case e.Ident != nil:
				es = append(es, "i"+hx(*e.Ident))
			case e.BindIdent != nil:
				es = append(es, "b"+hx(*e.BindIdent))
			case e.BindParameters != nil:
				var ps []string
				for _, p := range e.BindParameters.Parameters {
					switch {
					case p.Value.Literal != nil:
						ps = append(ps, hx(p.Ident)+":l"+hx(*p.Value.Literal))
					case p.Value.Regex != nil:
						ps = append(ps, hx(p.Ident)+":r"+hx(*p.Value.Regex))
					default:
						return "!"
					}
				}
				es = append(es, "p"+strings.Join(ps, ","))
			default:
				return "!"
			}
		}
		o := ""
		if s.Optional {
			o = "?"
		}
		segs[i] = o + strings.Join(es, "+")
	}
	return strings.Join(segs, ";")
}

type reqRecord struct {
	hid    int
	ran    int
	params map[string]string
	u0, u1 string
	ux     string // the URL of ANOTHER named route built by this request's handler without any value ("-": there is none)
	chains int
	dirty  int
	laws   []string
}

const poisonKey = "\x00written-by-a-handler"

type routerSession struct {
	f       *flamego.Flame
	handles map[int]*flamego.Route
	nameOrder []string // every name given successfully, in order (what the router's name table holds)
	combos  map[int]*flamego.ComboRoute // registrations made through Combo (no *Route handle: named through the combo)
	named   map[int]bool
	exprs   map[int]map[string]*regexp.Regexp // hid → bind name → ^(?:its own expression)$ (EngineLaws monitor)
	nested  []string                          // method and path of a request to be served from inside the next request's middleware
	trees   map[string]flamego.VerifTree
	shadow  map[int][]flamego.VerifLeaf
	cur     *reqRecord
	lastHid int
	autoHead bool // what the last AUTOHEAD line set (Flame.AutoHead); the shadow trees follow it
	groups  []string // GRP … END: the paths of the groups whose callbacks are running, outermost first
}

func showParams(ps map[string]string) string {
	keys := make([]string, 0, len(ps))
	for k := range ps {
		if k != "route" {
			keys = append(keys, k)
		}
	}
	sort.Slice(keys, func(i, j int) bool { return hx(keys[i]) < hx(keys[j]) })
	parts := make([]string, len(keys))
	for i, k := range keys {
		parts[i] = hx(k) + "=" + hx(ps[k])
	}
	return strings.Join(parts, ",")
}

func pairsOf(ps map[string]string, withOptional string) []string {
	keys := make([]string, 0, len(ps))
	for k := range ps {
		if k != "route" && k != "withOptional" {
			keys = append(keys, k)
		}
	}
	sort.Strings(keys)
	var out []string
	for _, k := range keys {
		out = append(out, k, ps[k])
	}
	return append(out, "withOptional", withOptional)
}

func safeStr(f func() string) (s string) {
	defer func() {
		if r := recover(); r != nil {
			s = "\x00panic"
		}
	}()
	return f()
}

func execRouter(args []string, lines [][]string) []string {
	s := &routerSession{
		f:       flamego.NewWithLogger(io.Discard),
		handles: map[int]*flamego.Route{},
		combos:  map[int]*flamego.ComboRoute{},
		named:   map[int]bool{},
		exprs:   map[int]map[string]*regexp.Regexp{},
		trees:   map[string]flamego.VerifTree{},
		shadow:  map[int][]flamego.VerifLeaf{},
	}
	for _, m := range allMethods {
		s.trees[m] = flamego.VerifNewTree()
	}
	// application middleware counts chains (C07); the not-found chain runs it too.
	// Three separate Use calls: the middleware slice then has spare capacity, like in a real application.
	s.f.Use(func(c flamego.Context) {
		if s.cur != nil {
			s.cur.chains++
		}
	})
	// NREQ: while the outer request is inside this middleware another request is served on the same
	// instance (single goroutine, deterministic); it must not influence the outer request's outcome
	s.f.Use(func(c flamego.Context) {
		if s.nested == nil {
			return
		}
		n := s.nested
		s.nested = nil
		outer := s.cur
		s.cur = &reqRecord{hid: -1}
		req := (&http.Request{
			Method: n[0], URL: &url.URL{Path: n[1]}, Header: http.Header{},
			Proto: "HTTP/1.1", ProtoMajor: 1, ProtoMinor: 1, Host: "x",
		}).WithContext(context.Background())
		func() {
			defer func() { _ = recover() }()
			s.f.ServeHTTP(httptest.NewRecorder(), req)
		}()
		s.cur = outer
	})
	s.f.Use(func(c flamego.Context) {})
	outs := []string{"new"}
	s.runLines(lines, 0, &outs)
	return outs
}

// runLines executes the operations from line i on.  `GRP <path>` calls Flame.Group with that path and runs the following
// lines INSIDE its callback, up to the matching `END` (or the end of the session); every other operation is executed where
// it stands — inside the callbacks of all groups that are open at that line.  Returns the index of the first line not
// consumed.
func (s *routerSession) runLines(lines [][]string, i int, outs *[]string) int {
	for i < len(lines) {
		l := lines[i]
		switch {
		case len(l) == 2 && l[0] == "GRP":
			*outs = append(*outs, "ok")
			next := i + 1
			path := unhx(l[1])
			func() {
				defer func() {
					if r := recover(); r != nil {
						// no operation lets a panic out of a group callback; if Group itself panics the rest is marked
						for len(*outs) < len(lines)+1 {
							*outs = append(*outs, "harness-panic")
						}
						next = len(lines)
					}
				}()
				s.f.Group(path, func() {
					s.groups = append(s.groups, path)
					next = s.runLines(lines, i+1, outs)
					s.groups = s.groups[:len(s.groups)-1]
				})
			}()
			i = next
		case len(l) == 1 && l[0] == "END":
			if len(s.groups) == 0 {
				*outs = append(*outs, "bad-op")
				i++
				continue
			}
			*outs = append(*outs, "ok")
			return i + 1
		default:
			*outs = append(*outs, s.op(l))
			i++
		}
	}
	return i
}

func (s *routerSession) op(l []string) (out string) {
	defer func() {
		if r := recover(); r != nil {
			out = "harness-panic"
		}
	}()
	if len(l) == 0 {
		return "bad-op"
	}
	switch l[0] {
	case "ADD":
		if len(l) != 5 {
			return "bad-op"
		}
		return s.add(atoi(l[1]), l[2], unhx(l[3]), l[4])
	case "AUTOHEAD":
		// AUTOHEAD <0|1>: Flame.AutoHead(v) — from now on Get (also Combo(…).Get) registers the HEAD twin as well
		if len(l) != 2 {
			return "bad-op"
		}
		s.autoHead = l[1] == "1"
		return okErr(func() { s.f.AutoHead(s.autoHead) })
	case "HDR":
		if len(l) < 2 || (len(l)-2)%3 != 0 {
			return "bad-op"
		}
		return s.hdr(atoi(l[1]), l[2:])
	case "NAME":
		if len(l) != 3 {
			return "bad-op"
		}
		var res string
		if c, ok := s.combos[atoi(l[1])]; ok {
			res = okErr(func() { c.Name(unhx(l[2])) })
		} else {
			rt, ok := s.handles[atoi(l[1])]
			if !ok {
				return "err"
			}
			res = okErr(func() { rt.Name(unhx(l[2])) })
		}
		if res == "ok" {
			s.nameOrder = append(s.nameOrder, unhx(l[2]))
		}
		return res
	case "REQ":
		if len(l) < 3 {
			return "bad-op"
		}
		return s.req(unhx(l[1]), unhx(l[2]), l[3:])
	case "NREQ":
		// NREQ <method> <path> <nested method> <nested path> <hdrs…>: like REQ, with a nested request served meanwhile
		if len(l) < 5 {
			return "bad-op"
		}
		s.nested = []string{unhx(l[3]), unhx(l[4])}
		out := s.req(unhx(l[1]), unhx(l[2]), l[5:])
		s.nested = nil
		return out
	case "TREQ", "IREQ": // IREQ: the model answers through its index-level matcher
		if len(l) < 3 {
			return "bad-op"
		}
		return s.treq(unhx(l[1]), unhx(l[2]), l[3:])
	case "URL":
		if len(l) < 2 {
			return "bad-op"
		}
		pairs := make([]string, len(l)-2)
		for i, p := range l[2:] {
			pairs[i] = unhx(p)
		}
		u := safeStr(func() string { return s.f.URLPath(unhx(l[1]), pairs...) })
		if u == "\x00panic" {
			return "panic"
		}
		return hx(u)
	}
	return "bad-op"
}

func okErr(f func()) (out string) {
	defer func() {
		if r := recover(); r != nil {
			out = "err"
		}
	}()
	f()
	return "ok"
}

func (s *routerSession) add(hid int, methods, own, wire string) string {
	// inside GRP … END the text on the line is the route's OWN part, handed to the router as it stands; the route is
	// the concatenation of the paths of the open groups and that part
	text := strings.Join(s.groups, "") + own
	if wireOfText(text) != wire {
		// the AST on the line is the real parser's for the CONCATENATED text (the model cross-checks it against its own
		// parse): a line that does not stand inside the groups it was written for is malformed on both sides
		return "ast-mismatch"
	}
	// "combo:GET,POST": the same registration through Combo(text).Get(h).Post(h), named through ComboRoute.Name
	combo := strings.HasPrefix(methods, "combo:")
	methods = strings.TrimPrefix(methods, "combo:")
	// "verb:GET": the registration through the verb method of that name (f.Get(text, h), f.Post(text, h) …); the Route
	// it returns is the handle for HDR / NAME
	verb := strings.HasPrefix(methods, "verb:")
	methods = strings.TrimPrefix(methods, "verb:")
	h := func(c flamego.Context) {
		if s.cur == nil {
			return
		}
		s.cur.hid = hid
		s.cur.ran++
		s.cur.params = map[string]string{}
		for k, v := range c.Params() {
			if k == poisonKey {
				s.cur.dirty = 1 // a value written by an EARLIER request's handler is visible to this request
				continue
			}
			s.cur.params[k] = v
		}
		// EngineLaws monitor (C02): every regex-constrained value matches its own declared expression in
		// full; checked on the values the handler receives when the path carries no escapes
		if !strings.Contains(c.Request().URL.Path, "%") {
			for name, re := range s.exprs[hid] {
				if v, ok := s.cur.params[name]; ok && !re.MatchString(v) {
					s.cur.laws = append(s.cur.laws, hx(name)) // judged against the winning form's binds by the comparator
				}
			}
		}
		// a handler may write to the map it was given; no later request may see this
		c.Params()[poisonKey] = "1"
		name := fmt.Sprintf("r%d", hid)
		if !s.named[hid] {
			// the registration panicked half-way (some methods are registered, no Route was returned to name)
			s.cur.u0, s.cur.u1 = "\x00na", "\x00na"
			return
		}
		s.cur.u0 = safeStr(func() string { return c.URLPath(name, pairsOf(s.cur.params, "false")...) })
		s.cur.u1 = safeStr(func() string { return c.URLPath(name, pairsOf(s.cur.params, "true")...) })
		// … and the URL of another named route WITHOUT any value: its binds stay visible as {bind}, whatever parameters
		// the request being served happens to have
		s.cur.ux = "-"
		for _, other := range s.nameOrder {
			if other != name {
				s.cur.ux = hx(safeStr(func() string { return c.URLPath(other) }))
				break
			}
		}
	}
	var rt *flamego.Route
	res := okErr(func() {
		switch {
		case combo:
			c := s.f.Combo(own)
			for _, m := range strings.Split(methods, ",") {
				verb, ok := map[string]func(...flamego.Handler) *flamego.ComboRoute{"GET": c.Get, "POST": c.Post, "PUT": c.Put, "DELETE": c.Delete,
					"PATCH": c.Patch, "OPTIONS": c.Options, "HEAD": c.Head, "CONNECT": c.Connect, "TRACE": c.Trace}[m]
				if !ok {
					panic("combo: no such verb " + m)
				}
				verb(h)
			}
			s.combos[hid] = c
		case verb:
			fn, ok := map[string]func(string, ...flamego.Handler) *flamego.Route{"GET": s.f.Get, "POST": s.f.Post, "PUT": s.f.Put,
				"DELETE": s.f.Delete, "PATCH": s.f.Patch, "OPTIONS": s.f.Options, "HEAD": s.f.Head, "CONNECT": s.f.Connect, "TRACE": s.f.Trace}[methods]
			if !ok {
				panic("no such verb " + methods)
			}
			rt = fn(text, h)
		case methods == "*":
			rt = s.f.Any(own, h)
		case strings.Contains(methods, ","):
			rt = s.f.Routes(own, methods, h)
		default:
			rt = s.f.Route(methods, own, []flamego.Handler{h})
		}
	})
	if res == "ok" && combo {
		s.exprs[hid] = bindExprs(text)
		if okErr(func() { s.combos[hid].Name(fmt.Sprintf("r%d", hid)) }) == "ok" {
			s.named[hid] = true
			s.nameOrder = append(s.nameOrder, fmt.Sprintf("r%d", hid))
		}
	}
	if res == "ok" && rt != nil {
		s.exprs[hid] = bindExprs(text)
		s.handles[hid] = rt
		if okErr(func() { rt.Name(fmt.Sprintf("r%d", hid)) }) == "ok" {
			s.named[hid] = true
			s.nameOrder = append(s.nameOrder, fmt.Sprintf("r%d", hid))
		}
	}
	// shadow trees, populated identically through the exported tree API
	shadow := "ok"
	func() {
		defer func() {
			if r := recover(); r != nil {
				shadow = "err"
			}
		}()
		ast, err := getParser().Parse(text)
		if err != nil {
			shadow = "err"
			return
		}
		var ms []string
		if methods == "*" {
			ms = allMethods
		} else {
			for _, m := range strings.Split(methods, ",") {
				ms = append(ms, strings.ToUpper(strings.TrimSpace(m)))
			}
		}
		// Get while AutoHead is on (directly or through Combo): the same route once more under HEAD, a registration of
		// its own — the Route that Get returns (the handle of HDR) is the GET registration's
		twin := -1
		if s.autoHead && (verb || combo) {
			for i, m := range ms {
				if m == "GET" {
					twin = i + 1
				}
			}
			if twin >= 0 {
				ms = append(ms[:twin:twin], append([]string{"HEAD"}, ms[twin:]...)...)
			}
		}
		for i, m := range ms {
			t, ok := s.trees[m]
			if !ok {
				shadow = "err"
				return
			}
			leaf, err := flamego.VerifAddRoute(t, ast, func(http.ResponseWriter, *http.Request, flamego.VerifParams) { s.lastHid = hid })
			if err != nil {
				shadow = "err"
				return
			}
			if i != twin {
				s.shadow[hid] = append(s.shadow[hid], leaf)
			}
		}
	}()
	if shadow != res {
		return res + "!shadow-" + shadow
	}
	return res
}

func (s *routerSession) hdr(hid int, fs []string) string {
	rt, ok := s.handles[hid]
	if !ok {
		return "err"
	}
	var pairs []string
	for i := 0; i+2 < len(fs); i += 3 {
		pairs = append(pairs, unhx(fs[i]), unhx(fs[i+2]))
	}
	// the arguments are handed over in a scratch slice that the caller goes on using (a table-driven set-up reusing one
	// buffer): what Headers() keeps must be its own
	scratch := append([]string(nil), pairs...)
	res := okErr(func() { rt.Headers(scratch...) })
	for i := range scratch {
		scratch[i] = "X-Scribbled-" + fmt.Sprint(i)
	}
	if res == "ok" {
		matches := map[string]*regexp.Regexp{}
		for i := 1; i < len(pairs); i += 2 {
			matches[pairs[i-1]] = regexp.MustCompile(pairs[i])
		}
		for _, leaf := range s.shadow[hid] {
			leaf.SetHeaderMatcher(flamego.VerifNewHeaderMatcher(matches))
		}
	}
	return res
}

func parseHdrFields(fs []string) http.Header {
	if len(fs) == 0 {
		// a request without any header field: the zero value of http.Request.Header, the nil map (what a hand-built or
		// in-process request carries) — an empty header set like any other
		return nil
	}
	h := http.Header{}
	for _, f := range fs {
		kv := strings.SplitN(f, "=", 2)
		if len(kv) != 2 {
			continue
		}
		// a repeated name is a header sent on several lines: all values are kept, in order (the code reads the
		// first one, Header.Get; the model looks the name up in the same list)
		k := unhx(kv[0])
		h[k] = append(h[k], unhx(kv[1]))
	}
	return h
}

func (s *routerSession) req(method, path string, hs []string) (out string) {
	rec := &reqRecord{hid: -1}
	s.cur = rec
	defer func() { s.cur = nil }()
	req := (&http.Request{
		Method: method, URL: &url.URL{Path: path}, Header: parseHdrFields(hs),
		Proto: "HTTP/1.1", ProtoMajor: 1, ProtoMinor: 1, Host: "x",
	}).WithContext(context.Background())
	w := httptest.NewRecorder()
	panicked := false
	func() {
		defer func() {
			if r := recover(); r != nil {
				panicked = true
			}
		}()
		s.f.ServeHTTP(w, req)
	}()
	if panicked {
		return "panic"
	}
	if rec.ran == 0 {
		return fmt.Sprintf("nf chains=%d code=%d", rec.chains, w.Code)
	}
	ux := rec.ux
	if ux == "" {
		ux = "-"
	}
	return fmt.Sprintf("h %d %s route=%s u0=%s u1=%s ux=%s chains=%d ran=%d dirty=%d laws=%s", rec.hid, showParams(rec.params),
		hx(rec.params["route"]), hx(rec.u0), hx(rec.u1), ux, rec.chains, rec.ran, rec.dirty, lawsField(rec.laws))
}

func (s *routerSession) treq(method, path string, hs []string) (out string) {
	defer func() {
		if r := recover(); r != nil {
			out = "panic"
		}
	}()
	t, ok := s.trees[method]
	if !ok {
		return "nf"
	}
	leaf, params, ok := t.Match(path, parseHdrFields(hs))
	if !ok {
		return "nf"
	}
	s.lastHid = -1
	leaf.Handler()(nil, nil, nil)
	ps := map[string]string{}
	for k, v := range params {
		ps[k] = v
	}
	vals := map[string]string{}
	for k, v := range ps {
		vals[k] = v
	}
	u0 := safeStr(func() string { return leaf.URLPath(copyMap(vals), false) })
	u1 := safeStr(func() string { return leaf.URLPath(copyMap(vals), true) })
	return fmt.Sprintf("h %d %s route=%s u0=%s u1=%s", s.lastHid, showParams(ps), hx(leaf.Route()), hx(u0), hx(u1))
}

func copyMap(m map[string]string) map[string]string {
	o := make(map[string]string, len(m))
	for k, v := range m {
		o[k] = v
	}
	return o
}

func canonHdr(name string) string { return textproto.CanonicalMIMEHeaderKey(name) }

// bindExprs returns, for every regex-constrained bind of the route text, its own expression anchored in full.
func bindExprs(text string) map[string]*regexp.Regexp {
	out := map[string]*regexp.Regexp{}
	defer func() { _ = recover() }()
	ast, err := getParser().Parse(text)
	if err != nil || ast == nil {
		return out
	}
	for _, seg := range ast.Segments {
		for _, e := range seg.Elements {
			if e.BindParameters == nil {
				continue
			}
			ps := e.BindParameters.Parameters
			if len(ps) > 0 && ps[0].Value.Literal != nil {
				continue // a match-all list: its further parameters are options (also `capture: /2/`), not constrained binds
			}
			for _, p := range ps {
				if p.Value.Regex != nil {
					if re, err := regexp.Compile("^(?:" + *p.Value.Regex + ")$"); err == nil {
						out[p.Ident] = re
					}
				}
			}
		}
	}
	return out
}

func lawsField(names []string) string {
	if len(names) == 0 {
		return "0"
	}
	sort.Strings(names)
	return strings.Join(names, ",")
}
