package main

// Session kind "appfull" — the correspondence tie of the COMPOSED application model (lean/Flamego/Model/AppFull.lean):
// one real flamego.NewWithLogger instance with Recovery / Static / Renderer / reflect.MakeFunc handlers whose
// parameters go through the real injector, whose return values go through the real ReturnHandler table, and whose
// writes go through the real response writer; requests are served once each, in order, on the same instance.
// Protocol and output format: lean/Flamego/Driver/AppFull.lean.
//
// What the GENERATOR keeps away from (executor and driver still implement it faithfully):
//   - status codes outside 100..999 anywhere (w acts, render statuses, `i:` return values, custom ReturnHandler
//     codes, Before hooks): net/http panics on them; the model has that panic only for return values, and behind a
//     Recovery the real writer's sync.Once is spent by the aborted WriteHeader (the F15 family) while the model's
//     writer is untouched;
//   - a returned value the table stringifies through reflect (a lone int, (int, int)): `Env.ph` is empty;
//   - request headers http.ServeContent interprets by itself (If-None-Match other than an ETag `inm=<id>` or an
//     unquoted word, If-Modified-Since, If-Match, If-Unmodified-Since, Range, If-Range) and response headers it
//     looks at (Content-Encoding, Transfer-Encoding): its conditional / range handling is outside Model/Static;
//   - request paths with bytes outside [A-Za-z0-9._/-] (what http.Redirect escapes is net/http's business);
//   - two registered types implementing one interface type in one scope (Go's map iteration would decide).

import (
	gocontext "context"
	"encoding/hex"
	"fmt"
	"io"
	"math/rand"
	"net/http"
	"net/http/httptest"
	"net/url"
	"os"
	"reflect"
	"sort"
	"strconv"
	"strings"
	"sync"

	"github.com/flamego/flamego"
)

func init() {
	execs["appfull"] = execAppFull
	gens["C07full"] = genAppFull
}

// ---------------------------------------------------------------------------- the universe: 17 types

const (
	afNTypes = 17
	tyRender = 16
)

var (
	afRenderType = reflect.TypeOf((*flamego.Render)(nil)).Elem()
	afErrorType  = reflect.TypeOf((*error)(nil)).Elem()
	afTypes      = append(append([]reflect.Type{}, injTypes...), afRenderType)
	afUniOnce    sync.Once
	afUni        string
)

// afUniverse renders "<n> <isInterface bits> <implements rows>" like universeArgs, over the 17 types.
func afUniverse() string {
	afUniOnce.Do(func() {
		if len(afTypes) != afNTypes {
			panic("appfull: the universe of harness/inject.go changed size")
		}
		var bits strings.Builder
		rows := make([]string, afNTypes)
		for k := 0; k < afNTypes; k++ {
			if afTypes[k].Kind() == reflect.Interface {
				bits.WriteByte('1')
			} else {
				bits.WriteByte('0')
			}
			var row strings.Builder
			for t := 0; t < afNTypes; t++ {
				if afTypes[t].Kind() == reflect.Interface && afTypes[k].Implements(afTypes[t]) {
					row.WriteByte('1')
				} else {
					row.WriteByte('0')
				}
			}
			rows[k] = row.String()
		}
		afUni = fmt.Sprintf("%d %s %s", afNTypes, bits.String(), strings.Join(rows, ","))
	})
	return afUni
}

// ---------------------------------------------------------------------------- the value table of render acts

const afNValues = 8

var (
	afValOnce  sync.Once
	afValSpecs []string
)

// afValues: value specs of harness/render.go; every one can be handed to r.JSON and to r.XML (some fail to encode).
func afValues() []string {
	afValOnce.Do(func() {
		afValSpecs = []string{"jmap", pickRT("jv:%d:1"), pickRT("jr:%d:0"), "jchan", pickRT("xpt:%d"), pickRT("xp:%d"), "xbadchan", "jnan"}
		if len(afValSpecs) != afNValues {
			panic("appfull: value table size")
		}
	})
	return afValSpecs
}

var afEncCache = map[string]string{}

// afEncLine: what the STANDARD encoder does for value v (never through flamego), as an ENC line.
func afEncLine(kind byte, head bool, indent string, v int) string {
	key := afEncKey(kind, head, indent, v)
	if l, ok := afEncCache[key]; ok {
		return l
	}
	val, _, _ := buildValue(afValues()[v])
	var ref []byte
	var msg string
	if kind == 'j' {
		ref, msg = refJSON(val, indent, head)
	} else {
		ref, msg = refXML(val, indent, head)
	}
	res := "ok"
	if msg != "" {
		res = "err:" + hx(msg)
	}
	h := 0
	if head {
		h = 1
	}
	l := fmt.Sprintf("ENC %c %d %s %d %s %s", kind, h, hx(indent), v, hx(string(ref)), res)
	afEncCache[key] = l
	return l
}

// ---------------------------------------------------------------------------- strict field parsers
// (the driver applies the same tests: lean/Flamego/Driver/AppFull.lean natTok / hexTok / …)

func afNat(s string) (int, bool) {
	if s == "" || len(s) > 6 {
		return 0, false
	}
	n := 0
	for i := 0; i < len(s); i++ {
		if s[i] < '0' || s[i] > '9' {
			return 0, false
		}
		n = n*10 + int(s[i]-'0')
	}
	return n, true
}

func afHex(s string) (string, bool) {
	if s == "-" {
		return "", true
	}
	b, err := hex.DecodeString(s)
	if err != nil {
		return "", false
	}
	return string(b), true
}

func afIntOk(s string) bool {
	s = strings.TrimPrefix(s, "-")
	_, ok := afNat(s)
	return ok
}

func afImplements(k, t int) bool {
	return afTypes[t].Kind() == reflect.Interface && afTypes[k].Implements(afTypes[t])
}

// afMapOk: a concrete key type carries a value of itself, an interface key type one of a concrete implementor.
func afMapOk(ty, cty int) bool {
	switch {
	case ty <= 7:
		return cty == ty
	case ty <= 11:
		return cty <= 7 && afImplements(cty, ty)
	}
	return false
}

// ---------------------------------------------------------------------------- handler programs

type afAct struct {
	op           byte // w b H n c p m M h j x y t
	n            int  // code / status
	kind         byte // panic kind
	s1, s2       string
	ty, cty, vid int
	v            int
}

type afHandler struct {
	kind byte // r s R f
	// s
	prefix, index string
	etag          bool
	// R
	vid             int
	charset, ji, xi string
	// f
	sig       []int
	acts      []afAct
	ret       []string
	hasRender bool
}

func afParseMapSpec(s string) (ty, cty, vid int, ok bool) {
	p := strings.Split(s, ".")
	if len(p) != 3 {
		return 0, 0, 0, false
	}
	ty, ok1 := afNat(p[0])
	cty, ok2 := afNat(p[1])
	vid, ok3 := afNat(p[2])
	if !ok1 || !ok2 || !ok3 || !afMapOk(ty, cty) {
		return 0, 0, 0, false
	}
	return ty, cty, vid, true
}

func afParseAct(a string) (afAct, bool) {
	if a == "" {
		return afAct{}, false
	}
	rest := a[1:]
	switch a[0] {
	case 'n', 'c':
		return afAct{op: a[0]}, rest == ""
	case 'p':
		if len(rest) != 1 || !strings.ContainsRune("SERTA", rune(rest[0])) {
			return afAct{}, false
		}
		return afAct{op: 'p', kind: rest[0]}, true
	case 'w':
		n, ok := afNat(rest)
		return afAct{op: 'w', n: n}, ok
	case 'b':
		b, ok := afHex(rest)
		return afAct{op: 'b', s1: b}, ok
	case 'H':
		p := strings.Split(rest, ".")
		if len(p) != 2 {
			return afAct{}, false
		}
		k, ok1 := afHex(p[0])
		v, ok2 := afHex(p[1])
		return afAct{op: 'H', s1: k, s2: v}, ok1 && ok2
	case 'm', 'M':
		ty, cty, vid, ok := afParseMapSpec(rest)
		return afAct{op: a[0], ty: ty, cty: cty, vid: vid}, ok
	case 'h':
		p := strings.Split(rest, ".")
		if len(p) != 2 {
			return afAct{}, false
		}
		c, ok1 := afNat(p[0])
		b, ok2 := afHex(p[1])
		return afAct{op: 'h', n: c, s1: b}, ok1 && ok2
	case 'j', 'x':
		p := strings.Split(rest, ".")
		if len(p) != 2 {
			return afAct{}, false
		}
		st, ok1 := afNat(p[0])
		v, ok2 := afNat(p[1])
		return afAct{op: a[0], n: st, v: v}, ok1 && ok2 && v < afNValues
	case 'y', 't':
		p := strings.Split(rest, ".")
		if len(p) != 2 {
			return afAct{}, false
		}
		st, ok1 := afNat(p[0])
		b, ok2 := afHex(p[1])
		return afAct{op: a[0], n: st, s1: b}, ok1 && ok2
	}
	return afAct{}, false
}

func afRetTokOk(t string) bool {
	f := strings.Split(t, ":")
	switch {
	case len(f) == 2 && f[0] == "s":
		_, ok := afHex(f[1])
		return ok
	case len(f) == 2 && f[0] == "b":
		_, ok := afHex(f[1])
		return f[1] == "nil" || ok
	case len(f) == 2 && f[0] == "i":
		return afIntOk(f[1])
	case len(f) == 2 && f[0] == "a" && f[1] == "nil":
		return true
	case len(f) == 4 && f[0] == "a" && f[1] == "e":
		_, ok := afHex(f[3])
		return (f[2] == "n" || f[2] == "w" || f[2] == "p" || f[2] == "v") && ok
	case len(f) == 3 && f[0] == "a" && f[1] == "ep" && f[2] == "d":
		return true
	}
	return false
}

func afParseHandler(s string) (afHandler, bool) {
	if s == "r" {
		return afHandler{kind: 'r'}, true
	}
	p := strings.Split(s, "/")
	switch {
	case len(p) == 4 && p[0] == "s":
		pre, ok1 := afHex(p[1])
		idx, ok2 := afHex(p[2])
		if !ok1 || !ok2 || (p[3] != "0" && p[3] != "1") {
			return afHandler{}, false
		}
		return afHandler{kind: 's', prefix: pre, index: idx, etag: p[3] == "1"}, true
	case len(p) == 5 && p[0] == "R":
		vid, ok0 := afNat(p[1])
		cs, ok1 := afHex(p[2])
		ji, ok2 := afHex(p[3])
		xi, ok3 := afHex(p[4])
		if !ok0 || !ok1 || !ok2 || !ok3 {
			return afHandler{}, false
		}
		return afHandler{kind: 'R', vid: vid, charset: cs, ji: ji, xi: xi}, true
	case len(p) == 4 && p[0] == "f":
		h := afHandler{kind: 'f'}
		if p[1] != "-" {
			for _, t := range strings.Split(p[1], ",") {
				n, ok := afNat(t)
				if !ok || n >= afNTypes {
					return h, false
				}
				h.sig = append(h.sig, n)
			}
		}
		needCtx := false
		if p[2] != "-" {
			for _, a := range strings.Split(p[2], ",") {
				act, ok := afParseAct(a)
				if !ok {
					return h, false
				}
				h.acts = append(h.acts, act)
				if act.op != 'p' {
					needCtx = true
				}
				if strings.IndexByte("jxyt", act.op) >= 0 {
					h.hasRender = true
				}
			}
		}
		if p[3] != "-" {
			toks := strings.Split(p[3], "+")
			if len(toks) > 2 {
				return h, false
			}
			for _, t := range toks {
				if !afRetTokOk(t) {
					return h, false
				}
			}
			h.ret = toks
		}
		if needCtx {
			has := false
			for _, t := range h.sig {
				has = has || t == tyCtx
			}
			if !has {
				return h, false
			}
		}
		return h, true
	}
	return afHandler{}, false
}

// optsKey: the renderer's options as `Renderer` parses them (an empty charset is "utf-8")
func (h *afHandler) optsKey() string {
	cs := h.charset
	if cs == "" {
		cs = "utf-8"
	}
	return hx(cs) + "/" + hx(h.ji) + "/" + hx(h.xi)
}

func afRetType(tok string) reflect.Type {
	switch tok[0] {
	case 's':
		return reflect.TypeOf("")
	case 'b':
		return reflect.TypeOf([]byte(nil))
	case 'i':
		return reflect.TypeOf(0)
	}
	return afErrorType
}

func afRetValue(tok string) reflect.Value {
	f := strings.Split(tok, ":")
	switch f[0] {
	case "s":
		return reflect.ValueOf(unhx(f[1]))
	case "b":
		return reflect.ValueOf(retToGo(f, "B"))
	case "i":
		return reflect.ValueOf(atoi(f[1]))
	}
	v := retToGo(f, "")
	if v == nil {
		return reflect.Zero(afErrorType)
	}
	return reflect.ValueOf(v)
}

// ---------------------------------------------------------------------------- one request's record

type afRun struct {
	events  []string
	befores []string
	stopped bool
	cancel  gocontext.CancelFunc
}

type afSession struct {
	f         *flamego.Flame
	inj       injSession
	appLogger interface{}
	cur       *afRun
	nmw, nbef int
	seq       int
	pending   map[int][]afHandler
	used      map[int]bool
	ropts     map[int]string
	indents   map[int][2]string // renderer id -> (JSON indent, XML indent)
	usedVals  map[[2]int]bool   // (j|x, value) some accepted handler may render
	encs      map[string]bool   // ENC lines seen: kind, head, indent, value
	// the tree Static serves
	fsLines [][]string
	fsKind  map[string]byte
	fsIDs   map[int]bool
	frozen  bool
	tree    *staticTree
	probe   *flamego.Flame
	etags   map[int]string
	// per-request services, by request number
	reqs []*http.Request
	recs []*httptest.ResponseRecorder
}

func execAppFull(args []string, lines [][]string) []string {
	if len(args) != 3 || strings.Join(args, " ") != afUniverse() {
		outs := []string{"bad-universe"}
		for range lines {
			outs = append(outs, "bad-universe")
		}
		return outs
	}
	prevEnv := flamego.Env()
	defer flamego.SetEnv(prevEnv)
	flamego.SetEnv(flamego.EnvTypeProd)
	s := &afSession{
		f:        flamego.NewWithLogger(io.Discard),
		pending:  map[int][]afHandler{},
		used:     map[int]bool{},
		ropts:    map[int]string{},
		indents:  map[int][2]string{},
		usedVals: map[[2]int]bool{},
		encs:     map[string]bool{},
		fsKind:   map[string]byte{},
		fsIDs:    map[int]bool{},
		etags:    map[int]string{},
	}
	s.appLogger = s.f.Value(loggerType).Interface()
	defer func() {
		if s.tree != nil {
			os.RemoveAll(s.tree.base)
		}
	}()
	outs := []string{"new"}
	for _, l := range lines {
		outs = append(outs, s.op(l))
	}
	return outs
}

func (s *afSession) ensureTree() {
	if s.tree != nil {
		return
	}
	s.tree = buildStaticTree(s.fsLines)
	if s.fsKind["."] != 'd' {
		// the served directory itself was not declared (then no entry below it was accepted either): it does not exist
		os.RemoveAll(s.tree.pub)
	}
	s.probe = flamego.NewWithLogger(io.Discard)
	s.probe.Use(flamego.Static(flamego.StaticOptions{Directory: s.tree.pub, SetETag: true}))
}

// etagOf: the ETag the real Static advertises for file id (what a client would send back).
func (s *afSession) etagOf(id int) string {
	if e, ok := s.etags[id]; ok {
		return e
	}
	e := fmt.Sprintf("\"no-etag-%d\"", id)
	if s.fsIDs[id] {
		s.ensureTree()
		rec := httptest.NewRecorder()
		req := httptest.NewRequest("GET", "/", nil)
		req.URL = &url.URL{Path: "/" + s.tree.relOfID[id]}
		s.probe.ServeHTTP(rec, req)
		if v := rec.Header().Get("ETag"); v != "" && rec.Code == 200 {
			e = v
		}
	}
	s.etags[id] = e
	return e
}

func afSegOk(seg string) bool {
	if seg == "" || seg == "." || seg == ".." {
		return false
	}
	for i := 0; i < len(seg); i++ {
		c := seg[i]
		if !(c >= 'a' && c <= 'z' || c >= 'A' && c <= 'Z' || c >= '0' && c <= '9' || c == '.' || c == '_' || c == '-') {
			return false
		}
	}
	return true
}

// fsAddOk: `.` or a clean relative path of plain segments, not declared yet, its parent declared as a directory.
func (s *afSession) fsAddOk(rel string) bool {
	if _, dup := s.fsKind[rel]; dup {
		return false
	}
	if rel == "." {
		return true
	}
	segs := strings.Split(rel, "/")
	for _, g := range segs {
		if !afSegOk(g) {
			return false
		}
	}
	parent := "."
	if len(segs) > 1 {
		parent = strings.Join(segs[:len(segs)-1], "/")
	}
	return s.fsKind[parent] == 'd'
}

// parseHandlers parses every handler of a line and checks that no renderer id gets two different option sets;
// nothing is committed unless all of the line is acceptable.
func (s *afSession) parseHandlers(fs []string) ([]afHandler, bool) {
	out := make([]afHandler, 0, len(fs))
	tentative := map[int]string{}
	for _, f := range fs {
		h, ok := afParseHandler(f)
		if !ok {
			return nil, false
		}
		if h.kind == 'R' {
			key := h.optsKey()
			if old, seen := s.ropts[h.vid]; seen && old != key {
				return nil, false
			}
			if old, seen := tentative[h.vid]; seen && old != key {
				return nil, false
			}
			tentative[h.vid] = key
		}
		out = append(out, h)
	}
	for vid, key := range tentative {
		s.ropts[vid] = key
	}
	for i := range out {
		h := &out[i]
		if h.kind == 'R' {
			s.indents[h.vid] = [2]string{h.ji, h.xi}
		}
		for _, a := range h.acts {
			if a.op == 'j' || a.op == 'x' {
				s.usedVals[[2]int{int(a.op), a.v}] = true
			}
		}
	}
	s.frozen = true
	return out, true
}

func afEncKey(kind byte, head bool, indent string, v int) string {
	return fmt.Sprintf("%c %v %q %d", kind, head, indent, v)
}

// encMissing: the session did not say what the standard encoder does for some value a handler may render under some
// declared renderer, for this kind of request; the request is then not served (the driver applies the same test).
func (s *afSession) encMissing(head bool) bool {
	for kv := range s.usedVals {
		for _, ind := range s.indents {
			k := 0
			if kv[0] == 'x' {
				k = 1
			}
			if !s.encs[afEncKey(byte(kv[0]), head, ind[k], kv[1])] {
				return true
			}
		}
	}
	return false
}

func (s *afSession) build(hs []afHandler, label func(j int) string) []flamego.Handler {
	out := make([]flamego.Handler, len(hs))
	for j := range hs {
		h := hs[j]
		s.seq++
		out[j] = s.handler(&h, label(j), s.seq)
	}
	return out
}

func (s *afSession) handler(h *afHandler, label string, seq int) flamego.Handler {
	switch h.kind {
	case 'r':
		return flamego.Recovery()
	case 's':
		s.ensureTree()
		return flamego.Static(flamego.StaticOptions{Directory: s.tree.pub, Prefix: h.prefix, Index: h.index, SetETag: h.etag})
	case 'R':
		return flamego.Renderer(flamego.RenderOptions{Charset: h.charset, JSONIndent: h.ji, XMLIndent: h.xi})
	}
	in := make([]reflect.Type, 0, len(h.sig)+1)
	ctxPos := -1
	for i, t := range h.sig {
		in = append(in, afTypes[t])
		if t == tyCtx && ctxPos < 0 {
			ctxPos = i
		}
	}
	if h.hasRender {
		in = append(in, afRenderType)
	}
	out := make([]reflect.Type, len(h.ret))
	for i, tok := range h.ret {
		out[i] = afRetType(tok)
	}
	ft := reflect.FuncOf(in, out, false)
	return reflect.MakeFunc(ft, func(args []reflect.Value) []reflect.Value {
		run := s.cur
		ids := make([]string, len(args))
		for i, a := range args {
			ids[i] = s.idOf(a.Interface())
		}
		shown := "-"
		if len(ids) > 0 {
			shown = strings.Join(ids, ",")
		}
		run.events = append(run.events, ">"+label+"["+shown+"]")
		done := false
		defer func() {
			// no recover here: the panic keeps travelling with its original value and stack
			if !done {
				run.events = append(run.events, "!"+label)
			}
		}()
		var c flamego.Context
		if ctxPos >= 0 {
			c = args[ctxPos].Interface().(flamego.Context)
		}
		var rnd flamego.Render
		if h.hasRender {
			rnd = args[len(args)-1].Interface().(flamego.Render)
		}
		for _, a := range h.acts {
			s.act(run, c, rnd, a, seq)
		}
		res := make([]reflect.Value, len(h.ret))
		for i, tok := range h.ret {
			res[i] = afRetValue(tok)
		}
		done = true
		run.events = append(run.events, "<"+label)
		return res
	}).Interface()
}

func (s *afSession) act(run *afRun, c flamego.Context, rnd flamego.Render, a afAct, seq int) {
	switch a.op {
	case 'w':
		c.ResponseWriter().WriteHeader(a.n)
	case 'b':
		_, _ = c.ResponseWriter().Write([]byte(a.s1))
	case 'H':
		c.ResponseWriter().Header().Set(a.s1, a.s2)
	case 'n':
		c.Next()
	case 'c':
		if seq%2 == 0 {
			run.cancel()
		} else {
			ctx, cancel := gocontext.WithCancel(c.Request().Context())
			c.Request().Request = c.Request().Request.WithContext(ctx)
			cancel()
		}
	case 'm':
		if isIfaceIdx(a.ty) {
			c.MapTo(mkVal(a.cty, a.vid), ifacePtrs[a.ty])
		} else {
			c.Map(mkVal(a.ty, a.vid))
		}
	case 'M':
		if isIfaceIdx(a.ty) {
			s.f.MapTo(mkVal(a.cty, a.vid), ifacePtrs[a.ty])
		} else {
			s.f.Map(mkVal(a.ty, a.vid))
		}
	case 'h':
		c.Map(retCustom(a.n, a.s1))
	case 'j':
		v, _, _ := buildValue(afValues()[a.v])
		rnd.JSON(a.n, v)
	case 'x':
		v, _, _ := buildValue(afValues()[a.v])
		rnd.XML(a.n, v)
	case 'y':
		rnd.Binary(a.n, []byte(a.s1))
	case 't':
		rnd.PlainText(a.n, a.s1)
	case 'p':
		switch a.kind {
		case 'S':
			panic("a string value")
		case 'E':
			panic(chainErr{})
		case 'R':
			var m map[string]int
			m["x"] = 1 // runtime error: assignment to entry in nil map
		case 'T':
			panic(chainStruct{1, 2, []string{"x"}})
		case 'A':
			panic(http.ErrAbortHandler)
		}
	}
}

// reqOfHeader: which request's recorder owns this header map (identity of the map, not its content).
func (s *afSession) reqOfHeader(h http.Header) int {
	if h == nil {
		return -1
	}
	p := reflect.ValueOf(h).Pointer()
	for k, rec := range s.recs {
		if reflect.ValueOf(rec.Header()).Pointer() == p {
			return k
		}
	}
	return -1
}

// idOf: the identity of an argument as the model numbers it (Context 1000+rid, ResponseWriter 2000+rid,
// *http.Request 3000+rid, the application's logger 4000, a flamego.Render `R`, else the id the value carries).
func (s *afSession) idOf(x interface{}) string {
	if s.appLogger != nil && x == s.appLogger {
		return "4000"
	}
	switch v := x.(type) {
	case flamego.Render:
		return "R"
	case flamego.Context:
		k := s.reqOfHeader(v.ResponseWriter().Header())
		if k < 0 {
			return "-1"
		}
		return strconv.Itoa(1000 + k)
	case http.ResponseWriter:
		k := s.reqOfHeader(v.Header())
		if k < 0 {
			return "-1"
		}
		return strconv.Itoa(2000 + k)
	case *http.Request:
		for k, r := range s.reqs {
			if r == v {
				return strconv.Itoa(3000 + k)
			}
		}
		return "-1"
	}
	return strconv.Itoa(s.inj.idOf(x))
}

func (s *afSession) op(l []string) (out string) {
	defer func() {
		if r := recover(); r != nil {
			out = "harness-panic"
		}
	}()
	if len(l) == 0 {
		return "bad-op"
	}
	switch l[0] {
	case "ENC":
		return s.enc(l)
	case "FM":
		if len(l) != 3 {
			return "bad-op"
		}
		ty, ok1 := afNat(l[1])
		vid, ok2 := afNat(l[2])
		if !ok1 || !ok2 || ty > 7 {
			return "bad-op"
		}
		s.f.Map(mkVal(ty, vid))
		return "ok"
	case "FMT":
		if len(l) != 4 {
			return "bad-op"
		}
		ity, ok1 := afNat(l[1])
		cty, ok2 := afNat(l[2])
		vid, ok3 := afNat(l[3])
		if !ok1 || !ok2 || !ok3 || ity < 8 || !afMapOk(ity, cty) {
			return "bad-op"
		}
		s.f.MapTo(mkVal(cty, vid), ifacePtrs[ity])
		return "ok"
	case "FRH":
		if len(l) != 3 {
			return "bad-op"
		}
		code, ok1 := afNat(l[1])
		body, ok2 := afHex(l[2])
		if !ok1 || !ok2 {
			return "bad-op"
		}
		s.f.Map(retCustom(code, body))
		return "ok"
	case "FS":
		return s.fs(l)
	case "B":
		return s.before(l)
	case "MW":
		if len(l) != 2 {
			return "bad-op"
		}
		hs, ok := s.parseHandlers(l[1:])
		if !ok {
			return "bad-op"
		}
		i := s.nmw
		s.nmw++
		s.f.Use(s.build(hs, func(int) string { return fmt.Sprintf("m%d", i) })...)
		return "h"
	case "RH":
		if len(l) < 2 {
			return "bad-op"
		}
		hid, ok := afNat(l[1])
		if !ok {
			return "bad-op"
		}
		hs, ok := s.parseHandlers(l[2:])
		if !ok {
			return "bad-op"
		}
		s.pending[hid] = hs
		return "h"
	case "ACT":
		if len(l) != 2 {
			return "bad-op"
		}
		hs, ok := s.parseHandlers(l[1:])
		if !ok {
			return "bad-op"
		}
		s.f.Action(s.build(hs, func(int) string { return "a" })[0])
		return "h"
	case "NF":
		hs, ok := s.parseHandlers(l[1:])
		if !ok {
			return "bad-op"
		}
		s.f.NotFound(s.build(hs, func(j int) string { return fmt.Sprintf("n%d", j) })...)
		return "h"
	case "ADD":
		if len(l) != 5 {
			return "bad-op"
		}
		hid, ok := afNat(l[1])
		if !ok || s.used[hid] {
			return "bad-op"
		}
		return s.add(hid, l[2], unhx(l[3]))
	case "REQ":
		if len(l) < 3 {
			return "bad-op"
		}
		method, ok1 := afHex(l[1])
		path, ok2 := afHex(l[2])
		if !ok1 || !ok2 {
			return "bad-op"
		}
		fields, ok := afParseReqFields(l[3:])
		if !ok {
			return "bad-op"
		}
		if s.encMissing(method == "HEAD") {
			return "missing-enc"
		}
		// everything on the line is acceptable: only now anything happens (the ETag probe needs the tree)
		s.frozen = true
		return s.serve(method, path, s.header(fields))
	}
	return "bad-op"
}

// enc: the line carries what the standard encoder does; the executor only confirms it (so that a hand-written
// replay cannot feed the model a wrong encoder).
func (s *afSession) enc(l []string) string {
	if len(l) != 7 || (l[1] != "j" && l[1] != "x") || (l[2] != "0" && l[2] != "1") {
		return "bad-op"
	}
	indent, ok1 := afHex(l[3])
	v, ok2 := afNat(l[4])
	_, ok3 := afHex(l[5])
	if !ok1 || !ok2 || !ok3 || v >= afNValues {
		return "bad-op"
	}
	if l[6] != "ok" {
		p := strings.Split(l[6], ":")
		if len(p) != 2 || p[0] != "err" {
			return "bad-op"
		}
		if _, ok := afHex(p[1]); !ok {
			return "bad-op"
		}
	}
	s.encs[afEncKey(l[1][0], l[2] == "1", indent, v)] = true
	if strings.Join(l, " ") != afEncLine(l[1][0], l[2] == "1", indent, v) {
		return "enc-mismatch"
	}
	return "enc"
}

func (s *afSession) fs(l []string) string {
	if s.frozen || len(l) < 3 {
		return "bad-op"
	}
	rel, ok := afHex(l[1])
	if !ok {
		return "bad-op"
	}
	switch {
	case len(l) == 3 && l[2] == "d":
		if !s.fsAddOk(rel) {
			return "bad-op"
		}
		s.fsKind[rel] = 'd'
	case len(l) == 4 && l[2] == "f":
		id, ok := afNat(l[3])
		if !ok || rel == "." || s.fsIDs[id] || !s.fsAddOk(rel) {
			return "bad-op"
		}
		s.fsKind[rel] = 'f'
		s.fsIDs[id] = true
	default:
		return "bad-op"
	}
	s.fsLines = append(s.fsLines, l)
	return "fs"
}

func (s *afSession) before(l []string) string {
	i := s.nbef
	name := fmt.Sprint(i)
	switch {
	case len(l) == 2 && l[1] == "p":
		s.f.Before(func(http.ResponseWriter, *http.Request) bool {
			s.cur.befores = append(s.cur.befores, name)
			return false
		})
	case len(l) == 3 && l[1] == "s" && l[2] == "-":
		s.f.Before(func(http.ResponseWriter, *http.Request) bool {
			s.cur.befores = append(s.cur.befores, name)
			s.cur.stopped = true
			return true
		})
	case len(l) == 3 && l[1] == "s":
		p := strings.Split(l[2], ":")
		if len(p) != 2 {
			return "bad-op"
		}
		code, ok1 := natField(p[0])
		n, ok2 := natField(p[1])
		if !ok1 || !ok2 {
			return "bad-op"
		}
		s.f.Before(func(w http.ResponseWriter, _ *http.Request) bool {
			s.cur.befores = append(s.cur.befores, name)
			s.cur.stopped = true
			w.WriteHeader(code)
			_, _ = w.Write([]byte(strings.Repeat("x", n)))
			return true
		})
	default:
		return "bad-op"
	}
	s.nbef++
	return "b"
}

func (s *afSession) add(hid int, methods, text string) string {
	s.used[hid] = true
	hs := s.build(s.pending[hid], func(j int) string { return fmt.Sprintf("r%d.%d", hid, j) })
	return okErr(func() {
		switch {
		case methods == "*":
			s.f.Any(text, hs...)
		case strings.Contains(methods, ","):
			s.f.Routes(text, methods, hs...)
		default:
			s.f.Route(methods, text, hs)
		}
	})
}

type afField struct {
	k, v string
	inm  int // >= 0: the value is the real ETag of this file id
}

func afParseReqFields(fs []string) ([]afField, bool) {
	var parsed []afField
	for _, f := range fs {
		p := strings.Split(f, "=")
		if len(p) != 2 {
			return nil, false
		}
		if p[0] == "inm" {
			id, ok := afNat(p[1])
			if !ok {
				return nil, false
			}
			parsed = append(parsed, afField{k: "If-None-Match", inm: id})
			continue
		}
		k, ok1 := afHex(p[0])
		v, ok2 := afHex(p[1])
		if !ok1 || !ok2 {
			return nil, false
		}
		parsed = append(parsed, afField{k: k, v: v, inm: -1})
	}
	return parsed, true
}

func (s *afSession) header(parsed []afField) http.Header {
	h := http.Header{}
	for _, e := range parsed {
		if _, dup := h[e.k]; dup { // the first value is what Header.Get sees
			continue
		}
		v := e.v
		if e.inm >= 0 {
			v = s.etagOf(e.inm)
		}
		h[e.k] = []string{v}
	}
	return h
}

func afClassify(esc interface{}) string {
	if str, ok := esc.(string); ok && strings.HasPrefix(str, "invalid WriteHeader code") {
		return "str"
	}
	return classifyPanic(esc)
}

func (s *afSession) serve(method, path string, hdr http.Header) string {
	ctx, cancel := gocontext.WithCancel(gocontext.Background())
	defer cancel()
	run := &afRun{cancel: cancel}
	s.cur = run
	rec := httptest.NewRecorder()
	req := (&http.Request{
		Method: method, URL: &url.URL{Path: path}, Header: hdr,
		Proto: "HTTP/1.1", ProtoMajor: 1, ProtoMinor: 1, Host: "x",
	}).WithContext(ctx)
	s.reqs = append(s.reqs, req)
	s.recs = append(s.recs, rec)
	var esc interface{}
	func() {
		defer func() { esc = recover() }()
		s.f.ServeHTTP(rec, req)
	}()
	dash := func(xs []string) string {
		if len(xs) == 0 {
			return "-"
		}
		return strings.Join(xs, ",")
	}
	kind, events := "run", dash(run.events)
	if run.stopped {
		kind, events = "stop", "-"
	}
	var names []string
	for k := range rec.Header() {
		names = append(names, k)
	}
	sort.Strings(names)
	return fmt.Sprintf("%s b=%s | %s | c%d %s | hdrs=%s | esc=%s", kind, dash(run.befores), events,
		rec.Code, hx(rec.Body.String()), dash(names), afClassify(esc))
}

// ---------------------------------------------------------------------------- generator

// afSess buffers one session: the ENC lines it needs are known only at the end.
type afSess struct {
	lines   []string
	used    map[[2]int]bool // (kind j/x, value) of render acts
	indents [2]map[string]bool
	head    bool
}

func newAfSess() *afSess {
	return &afSess{used: map[[2]int]bool{}, indents: [2]map[string]bool{{}, {}}}
}

func (b *afSess) add(format string, a ...interface{}) {
	b.lines = append(b.lines, fmt.Sprintf(format, a...))
}

func (b *afSess) flush(emit Emit) {
	emit("NEW appfull %s", afUniverse())
	var encs []string
	for kv := range b.used {
		k := 0
		if kv[0] == 'x' {
			k = 1
		}
		for ind := range b.indents[k] {
			encs = append(encs, afEncLine(byte(kv[0]), false, ind, kv[1]))
			if b.head {
				encs = append(encs, afEncLine(byte(kv[0]), true, ind, kv[1]))
			}
		}
	}
	sort.Strings(encs)
	for _, l := range encs {
		emit("%s", l)
	}
	for _, l := range b.lines {
		emit("%s", l)
	}
}

// renderer registers a Renderer spec with the session (its indents decide which ENC lines are needed).
func (b *afSess) renderer(vid int, charset, ji, xi string) string {
	b.indents[0][ji] = true
	b.indents[1][xi] = true
	return fmt.Sprintf("R/%d/%s/%s/%s", vid, hx(charset), hx(ji), hx(xi))
}

// fn registers the render acts of a function handler spec and returns it.
func (b *afSess) fn(sig []int, acts []string, ret string) string {
	for _, a := range acts {
		if a != "" && (a[0] == 'j' || a[0] == 'x') {
			p := strings.Split(a[1:], ".")
			b.used[[2]int{int(a[0]), atoi(p[1])}] = true
		}
	}
	as := "-"
	if len(acts) > 0 {
		as = strings.Join(acts, ",")
	}
	return "f/" + joinInts(sig) + "/" + as + "/" + ret
}

// raw registers the render acts of an already spelled handler list (small-scope programs).
func (b *afSess) raw(specs string) string {
	for _, sp := range strings.Fields(specs) {
		p := strings.Split(sp, "/")
		if len(p) == 4 && p[0] == "f" && p[2] != "-" {
			for _, a := range strings.Split(p[2], ",") {
				if a != "" && (a[0] == 'j' || a[0] == 'x') {
					q := strings.Split(a[1:], ".")
					b.used[[2]int{int(a[0]), atoi(q[1])}] = true
				}
			}
		}
		if len(p) == 5 && p[0] == "R" {
			b.indents[0][unhx(p[3])] = true
			b.indents[1][unhx(p[4])] = true
		}
	}
	return specs
}

func (b *afSess) req(method, path string, fields ...string) {
	if method == "HEAD" {
		b.head = true
	}
	l := "REQ " + hx(method) + " " + hx(path)
	for _, f := range fields {
		l += " " + f
	}
	b.lines = append(b.lines, l)
}

func (b *afSess) route(hid int, methods, text string) {
	b.add("ADD %d %s %s %s", hid, methods, hx(text), wireOfText(text))
}

var afTree3 = []string{"FS 2e d", "FS " + hx("index.html") + " f 1", "FS " + hx("a.txt") + " f 2", "FS " + hx("sub") + " d",
	"FS " + hx("sub/b.txt") + " f 3"}

type afProg struct {
	pre []string // lines before the middleware (FM / FMT / FRH)
	rh0 string   // handlers of GET,HEAD,POST /p
	rh1 string   // handlers of GET /q/{x}  ("" = the default one)
}

var afRetShapes = []string{"s:" + hx("hi"), "s:-", "b:nil", "b:-", "b:" + hx("by"), "a:nil", "a:e:v:" + hx("oops"), "a:ep:d",
	"i:201+s:" + hx("ok"), "i:204+s:-", "i:404+b:" + hx("nf"), "i:500+a:nil", "i:418+a:e:n:" + hx("tea"),
	"s:" + hx("st") + "+a:nil", "s:" + hx("st") + "+a:e:p:" + hx("boom"), "b:" + hx("by") + "+a:e:w:" + hx("w"),
	"s:" + hx("a") + "+s:" + hx("b"), "a:nil+s:" + hx("x"), "s:" + hx("x") + "+i:5", "b:nil+a:nil"}

func afPrograms() []afProg {
	H := func(k, v string) string { return "H" + hx(k) + "." + hx(v) }
	var ps []afProg
	// every return shape under the built-in table, a request-scope and an application-scope ReturnHandler
	for _, sh := range afRetShapes {
		ps = append(ps, afProg{rh0: "f/-/-/" + sh})
		ps = append(ps, afProg{rh0: "f/12/h299." + hx("RQ") + "/- f/14/-/" + sh})
		ps = append(ps, afProg{pre: []string{"FRH 298 " + hx("AP")}, rh0: "f/-/-/" + sh})
	}
	ps = append(ps,
		// the request-scope handler wins over the application's; a handler's own mapping decides its own return
		afProg{pre: []string{"FRH 298 " + hx("AP")}, rh0: "f/12/h299." + hx("RQ") + "/s:" + hx("v")},
		afProg{rh0: "f/12/h0.-/i:201+s:" + hx("lost")},
		afProg{rh0: "f/12/h0." + hx("B") + "/- f/-/-/s:" + hx("v") + "+a:nil"},
		// plain writes
		afProg{rh0: "f/12/w201,b" + hx("hi") + "/-"},
		afProg{rh0: "f/12/b" + hx("hi") + ",w404/-"},
		afProg{rh0: "f/12/" + H("X-A", "1") + ",w202/- f/12/b" + hx("never") + "/-"},
		afProg{rh0: "f/12/" + H("X-A", "1") + "/- f/12/b" + hx("second") + "/s:" + hx("third")},
		afProg{rh0: "f/12/n,b" + hx("after") + "/- f/12/" + H("X-B", "2") + "/-"},
		afProg{rh0: "f/12/c/- f/12/b" + hx("no") + "/-"},
		afProg{rh0: "f/12/n,c/i:202+s:" + hx("late")},
		// request-scope maps and later handlers that need the type
		afProg{rh0: "f/12/m0.0.5/- f/0,12/b" + hx("ok") + "/-"},
		afProg{rh0: "f/12/m0.0.5/- f/8/-/s:" + hx("got")},
		afProg{rh0: "f/12/m10.6.7/- f/10,8,9/-/-"},
		afProg{rh0: "f/12/m3.3.9,m3.3.10/- f/3,3/-/-"},
		afProg{rh0: "f/0,12/m0.0.5/-"},
		// unresolvable parameters
		afProg{rh0: "f/1/-/-"},
		afProg{rh0: "f/12,4/b" + hx("x") + "/-"},
		afProg{rh0: "f/12/w202,n/- f/5/-/-"},
		afProg{rh0: "f/12/n,b" + hx("unwound") + "/- f/11/-/-"},
		// application-scope values, shadowed by the request scope
		afProg{pre: []string{"FM 1 50"}, rh0: "f/1,8,9,10/-/-"},
		afProg{pre: []string{"FM 1 50", "FMT 8 0 51"}, rh0: "f/8,9/-/- f/12/m1.1.60/- f/1,9,8/-/-"},
		// the per-request services
		afProg{rh0: "f/12,13,14,15/-/- f/13/-/- f/15,14/-/-"},
		afProg{rh0: "f/16/-/- f/12,16/t200." + hx("txt") + "/-"},
		// render
		afProg{rh0: "f/12/j200.0/-"},
		afProg{rh0: "f/12/x201.4/-"},
		afProg{rh0: "f/12/y202." + hx("\x00\xff") + "/- f/12/b" + hx("no") + "/-"},
		afProg{rh0: "f/12/t203." + hx("text") + "/s:" + hx("more")},
		afProg{rh0: "f/12/j200.3/-"},
		afProg{rh0: "f/12/x200.6/-"},
		afProg{rh0: "f/12/w202,j200.1/-"},
		afProg{rh0: "f/12/" + H("Content-Type", "image/png") + ",t200." + hx("hi") + "/-"},
		afProg{rh0: "R/901/" + hx("gbk") + "/" + hx("  ") + "/" + hx("\t") + " f/12/j200.0,x200.5/-"},
		// panics
		afProg{rh0: "f/-/pS/-"},
		afProg{rh0: "f/12/w201,pE/-"},
		afProg{rh0: "f/12/n,pR/- f/12/" + H("X-A", "1") + "/-"},
		afProg{rh0: "f/12/b" + hx("part") + ",pT/-"},
		afProg{rh0: "f/-/pA/-"},
		// across requests: the request scope is fresh, the application scope persists
		afProg{rh0: "f/12/m3.3.9/- f/3/-/-", rh1: "f/3/-/s:" + hx("needs")},
		afProg{rh0: "f/12/M3.3.9/- f/3/-/-", rh1: "f/3/-/s:" + hx("sees")},
		afProg{rh0: "f/12/M9.2.11/-", rh1: "f/9,12/b" + hx("q") + "/-"},
		afProg{rh0: "f/12/h299." + hx("RQ") + "/s:" + hx("v"), rh1: "f/-/-/s:" + hx("table")},
	)
	return ps
}

// afSmallScope: a fixed application (Recovery, a Renderer, Static over a 3-file tree, two routes, an action) crossed
// with the programs in the route slot and with the middleware stack.
func afSmallScope(emit Emit, thorough bool) {
	statics := [][]string{
		{"GET", "/a.txt"}, {"HEAD", "/a.txt"}, {"POST", "/a.txt"}, {"GET", "/sub"}, {"GET", "/sub/"}, {"HEAD", "/sub"},
		{"GET", "/sub/b.txt"}, {"GET", "/"}, {"GET", "/index.html"}, {"GET", "/nope"}, {"GET", "/a.txt", "inm=2"},
		{"GET", "/a.txt", "inm=3"}, {"GET", "/sub/../a.txt"}, {"HEAD", "/nope"}, {"GET", "/a.txt", hx("If-None-Match") + "=" + hx("junk")},
		{"GET", "//sub"}, {"HEAD", "/", "inm=1"}, {"POST", "/nope"}, {"GET", "/sub/b.txt/"}, {"GET", "/q/zz", "inm=7"},
	}
	type stack struct {
		name string
		mw   func(b *afSess) []string
	}
	stacks := []stack{
		{"full", func(b *afSess) []string { return []string{"r", b.renderer(900, "", "", ""), "s/-/-/1"} }},
		{"norecovery", func(b *afSess) []string { return []string{b.renderer(900, "", "", ""), "s/-/-/1"} }},
		{"norenderer", func(b *afSess) []string { return []string{"r", "s/-/-/1"} }},
	}
	if thorough {
		stacks = append(stacks,
			stack{"prefixed", func(b *afSess) []string {
				return []string{"r", b.renderer(900, "gbk", "  ", "\t"), "s/" + hx("/st") + "/" + hx("a.txt") + "/0"}
			}},
			stack{"staticfirst", func(b *afSess) []string { return []string{"s/-/-/0", b.renderer(900, "", " ", ""), "r"} }},
			stack{"wrapped", func(b *afSess) []string {
				return []string{"r", b.fn([]int{12}, []string{"n", "H" + hx("X-W") + "." + hx("1")}, "-"), b.renderer(900, "", "", ""), "s/-/-/1"}
			}},
		)
	}
	k := 0
	for pi, p := range afPrograms() {
		for si, stk := range stacks {
			// the return shapes do not depend on the stack: under the full one only (and the panicking one without Recovery)
			if pi < 3*len(afRetShapes) && si > 0 && !(si == 1 && strings.Contains(p.rh0, "a:ep:d")) && !thorough {
				continue
			}
			b := newAfSess()
			for _, l := range afTree3 {
				b.add("%s", l)
			}
			for _, l := range p.pre {
				b.add("%s", l)
			}
			for _, m := range stk.mw(b) {
				b.add("MW %s", m)
			}
			b.add("RH 0 %s", b.raw(p.rh0))
			b.route(0, "GET,HEAD,POST", "/p")
			rh1 := p.rh1
			if rh1 == "" {
				rh1 = "f/12,14/-/i:201+s:" + hx("one")
			}
			b.add("RH 1 %s", b.raw(rh1))
			b.route(1, "GET", "/q/{x}")
			b.add("ACT %s", b.fn([]int{12}, []string{"H" + hx("X-Act") + "." + hx("1")}, "-"))
			b.req("GET", "/p")
			st := statics[k%len(statics)]
			b.req(st[0], st[1], st[2:]...)
			b.req("GET", "/q/a")
			b.req([]string{"HEAD", "POST", "GET"}[k%3], "/p")
			st = statics[(k+7)%len(statics)]
			b.req(st[0], st[1], st[2:]...)
			if thorough {
				b.req("GET", "/p")
			}
			k++
			b.flush(emit)
		}
	}
}

// ---- random sessions

type afRand struct {
	r    *rand.Rand
	b    *afSess
	vid  int
	rvid int
	// key types that may be registered in the application scope / in a request scope: chosen so that no interface
	// type has two implementors in one scope (Go's map iteration would decide then)
	pApp, pReq []int
	known      []int // types some scope may hold by now (bias for signatures)
	appKnown   []int // types registered on the Flame by FM / FMT lines so far
	hasTree    bool
	files      []string // paths (relative to the served directory) of files and directories
	fileIDs    []int
	prefixes   []string
	hasRender  bool
	routes     []afRoute
	hid        int
}

type afRoute struct {
	text    string
	methods string
	inst    []string
}

var afRoutePool = []afRoute{
	{"/p", "", []string{"/p"}}, {"/q/{x}", "", []string{"/q/a", "/q/zz"}}, {"/n/{id: /[0-9]+/}", "", []string{"/n/7", "/n/42", "/n/x"}},
	{"/u/?v", "", []string{"/u", "/u/v"}}, {"/a.txt", "", []string{"/a.txt"}}, {"/sub/{name}", "", []string{"/sub/b.txt", "/sub/zz"}},
	{"/idx", "", []string{"/idx", "/idx/"}}, {"/w/{**: **}", "", []string{"/w/a/b", "/w/x"}}, {"/st/{f}", "", []string{"/st/a.txt", "/st/k"}},
	{"/{a}/{b}", "", []string{"/x/y", "/sub/b.txt"}},
}

// afPalette: a random set of key types (concrete 0..7 and interface 8..10) with at most one implementor per
// interface type other than the interface type itself.
func afPalette(r *rand.Rand) []int {
	for {
		n := 1 + r.Intn(5)
		seen := map[int]bool{}
		var p []int
		for len(p) < n {
			t := r.Intn(11)
			if !seen[t] {
				seen[t] = true
				p = append(p, t)
			}
		}
		ok := true
		for it := 8; it <= 11 && ok; it++ {
			c := 0
			for _, k := range p {
				if k != it && afImplements(k, it) {
					c++
				}
			}
			ok = c <= 1
		}
		if ok {
			return p
		}
	}
}

func (g *afRand) mapSpec(pal []int) string {
	ty := pal[g.r.Intn(len(pal))]
	cty := ty
	if ty >= 8 {
		var cs []int
		for c := 0; c <= 7; c++ {
			if afImplements(c, ty) {
				cs = append(cs, c)
			}
		}
		cty = cs[g.r.Intn(len(cs))]
	}
	g.vid++
	g.known = append(g.known, ty)
	return fmt.Sprintf("%d.%d.%d", ty, cty, g.vid)
}

var afCodes = []int{200, 201, 202, 204, 302, 404, 418, 500}
var afBodies = []string{"", "a", "hello", "x\x00y", "<b>", "0123456789"}
var afHdrKeys = []string{"X-A", "X-B", "Content-Type", "Cache-Control"}
var afHdrVals = []string{"", "1", "text/x", "no-store"}

func (g *afRand) sigType() int {
	r := g.r
	switch k := r.Intn(100); {
	case k < 25 && len(g.appKnown) > 0:
		return g.appKnown[r.Intn(len(g.appKnown))] // registered on the Flame: resolvable from now on
	case k < 37 && len(g.known) > 0:
		return g.known[r.Intn(len(g.known))] // registered by some handler: resolvable only behind it, in its own scope
	case k < 84:
		return 12 + r.Intn(4)
	case k < 92:
		return 8 + r.Intn(3) // an interface some registered type may implement
	default:
		return r.Intn(12) // mostly unresolvable
	}
}

func (g *afRand) randRet() string {
	if g.r.Intn(100) < 60 {
		return "-"
	}
	return afRetShapes[g.r.Intn(len(afRetShapes))]
}

func (g *afRand) randAct() string {
	r := g.r
	switch k := r.Intn(100); {
	case k < 22:
		return "n"
	case k < 34:
		return fmt.Sprintf("w%d", afCodes[r.Intn(len(afCodes))])
	case k < 46:
		return "b" + hx(afBodies[r.Intn(len(afBodies))])
	case k < 54:
		return "H" + hx(afHdrKeys[r.Intn(len(afHdrKeys))]) + "." + hx(afHdrVals[r.Intn(len(afHdrVals))])
	case k < 58:
		return "c"
	case k < 68:
		return "m" + g.mapSpec(g.pReq)
	case k < 73:
		return "M" + g.mapSpec(g.pApp)
	case k < 78:
		return fmt.Sprintf("h%d.%s", []int{0, 299, 203, 404}[r.Intn(4)], hx([]string{"", "RQ", "c"}[r.Intn(3)]))
	case k < 92:
		if !g.hasRender && r.Intn(4) != 0 {
			return "n"
		}
		st := afCodes[r.Intn(len(afCodes))]
		switch r.Intn(4) {
		case 0:
			return fmt.Sprintf("j%d.%d", st, r.Intn(afNValues))
		case 1:
			return fmt.Sprintf("x%d.%d", st, r.Intn(afNValues))
		case 2:
			return fmt.Sprintf("y%d.%s", st, hx(afBodies[r.Intn(len(afBodies))]))
		default:
			return fmt.Sprintf("t%d.%s", st, hx(afBodies[r.Intn(len(afBodies))]))
		}
	default:
		return "p" + string("SERTA"[r.Intn(5)])
	}
}

// randFn: a function handler; wrapper = it calls Next somewhere.
func (g *afRand) randFn(wrapper bool) string {
	r := g.r
	n := r.Intn(4)
	sig := make([]int, n)
	for i := range sig {
		sig[i] = g.sigType()
	}
	var acts []string
	for i := r.Intn(4); i > 0; i-- {
		acts = append(acts, g.randAct())
	}
	if wrapper {
		at := r.Intn(len(acts) + 1)
		acts = append(acts[:at], append([]string{"n"}, acts[at:]...)...)
	}
	needCtx := false
	for _, a := range acts {
		needCtx = needCtx || a[0] != 'p'
	}
	if needCtx {
		has := false
		for _, t := range sig {
			has = has || t == 12
		}
		if !has {
			at := r.Intn(len(sig) + 1)
			sig = append(sig[:at], append([]int{12}, sig[at:]...)...)
		}
	}
	return g.b.fn(sig, acts, g.randRet())
}

func (g *afRand) randRenderer() string {
	g.rvid++
	g.hasRender = true
	return g.b.renderer(900+g.rvid, pick(g.r, []string{"", "", "utf-8", "gbk"}), pick(g.r, []string{"", "", "  ", "\t"}), pick(g.r, []string{"", "", " ", "\t"}))
}

func (g *afRand) randStatic() string {
	pre := pick(g.r, []string{"", "", "", "/st", "st/", "/a/b"})
	norm := ""
	if pre != "" {
		norm = "/" + strings.Trim(pre, "/")
	}
	g.prefixes = append(g.prefixes, norm)
	return fmt.Sprintf("s/%s/%s/%d", hx(pre), hx(pick(g.r, []string{"", "", "home.htm", "a.txt"})), g.r.Intn(2))
}

func (g *afRand) middleware(first bool) string {
	r := g.r
	if first && r.Intn(100) < 30 {
		return "r"
	}
	switch k := r.Intn(100); {
	case k < 8:
		return "r"
	case k < 36:
		return g.randRenderer()
	case k < 64 && g.hasTree:
		return g.randStatic()
	case k < 82:
		return g.randFn(true)
	default:
		return g.randFn(false)
	}
}

func (g *afRand) routeHandler() string {
	switch k := g.r.Intn(40); {
	case k == 0:
		return "r"
	case k == 1:
		return g.randRenderer()
	case k == 2 && g.hasTree:
		return g.randStatic()
	}
	return g.randFn(g.r.Intn(6) == 0)
}

func (g *afRand) addRoute() {
	r := g.r
	rt := afRoutePool[r.Intn(len(afRoutePool))]
	rt.methods = pick(r, []string{"GET", "GET", "GET,HEAD", "GET,HEAD,POST", "*", "POST"})
	nh := []int{0, 1, 1, 2, 2, 3}[r.Intn(6)]
	if nh > 0 {
		parts := make([]string, nh)
		for j := range parts {
			parts[j] = g.routeHandler()
		}
		g.b.add("RH %d %s", g.hid, strings.Join(parts, " "))
	}
	g.b.route(g.hid, rt.methods, rt.text)
	g.routes = append(g.routes, rt)
	g.hid++
}

func (g *afRand) tree() {
	r := g.r
	b := g.b
	id := 0
	file := func(rel string) {
		id++
		b.add("FS %s f %d", hx(rel), id)
		g.files = append(g.files, rel)
		g.fileIDs = append(g.fileIDs, id)
	}
	b.add("FS 2e d")
	if r.Intn(2) == 0 {
		file("index.html")
	}
	names := []string{"a.txt", "b.css", "c", "d.json", "x.html", "home.htm"}
	r.Shuffle(len(names), func(i, j int) { names[i], names[j] = names[j], names[i] })
	for _, n := range names[:1+r.Intn(3)] {
		file(n)
	}
	dirs := []string{"sub", "img", "a"}
	r.Shuffle(len(dirs), func(i, j int) { dirs[i], dirs[j] = dirs[j], dirs[i] })
	for _, d := range dirs[:r.Intn(3)] {
		b.add("FS %s d", hx(d))
		g.files = append(g.files, d)
		for _, n := range []string{"index.html", "b.txt", "home.htm"} {
			if r.Intn(2) == 0 {
				file(d + "/" + n)
			}
		}
		if r.Intn(3) == 0 {
			b.add("FS %s d", hx(d+"/b"))
			g.files = append(g.files, d+"/b")
			if r.Intn(2) == 0 {
				file(d + "/b/a.txt")
			}
		}
	}
}

func (g *afRand) request() {
	r := g.r
	method := pick(r, []string{"GET", "GET", "GET", "GET", "HEAD", "POST"})
	var path string
	switch k := r.Intn(100); {
	case k < 45 && len(g.routes) > 0:
		rt := g.routes[r.Intn(len(g.routes))]
		path = pick(r, rt.inst)
		if r.Intn(4) != 0 {
			ms := rt.methods
			if ms == "*" {
				ms = "GET,POST,PUT,HEAD"
			}
			method = pick(r, strings.Split(ms, ","))
		}
	case k < 75 && g.hasTree && len(g.files) > 0:
		pre := ""
		if len(g.prefixes) > 0 {
			pre = pick(r, g.prefixes)
		}
		path = pre + "/" + pick(r, g.files)
		switch r.Intn(8) {
		case 0:
			path += "/"
		case 1:
			path = pre + "/sub/../" + pick(r, g.files)
		case 2:
			path = pre
			if path == "" {
				path = "/"
			}
		case 3:
			path = pre + "/"
		}
	case k < 85:
		path = "/"
	default:
		path = pick(r, []string{"/nope", "/p/x", "/q", "/sub/none.txt", "/..", "/a.txt/zz", "//p"})
	}
	var fields []string
	if r.Intn(6) == 0 {
		fields = append(fields, hx("X-K")+"="+hx("v"))
	}
	if g.hasTree && r.Intn(5) == 0 {
		if len(g.fileIDs) > 0 && r.Intn(5) != 0 {
			fields = append(fields, fmt.Sprintf("inm=%d", g.fileIDs[r.Intn(len(g.fileIDs))]))
		} else {
			fields = append(fields, pick(r, []string{"inm=77", hx("If-None-Match") + "=" + hx("junk")}))
		}
	}
	g.b.req(method, path, fields...)
}

func (g *afRand) appMap() {
	ty := g.pApp[g.r.Intn(len(g.pApp))]
	g.vid++
	g.appKnown = append(g.appKnown, ty)
	if ty >= 8 {
		spec := g.mapSpec([]int{ty})
		p := strings.Split(spec, ".")
		g.b.add("FMT %s %s %s", p[0], p[1], p[2])
		return
	}
	g.b.add("FM %d %d", ty, g.vid)
}

func afRandomSession(r *rand.Rand, emit Emit) {
	g := &afRand{r: r, b: newAfSess(), pApp: afPalette(r), pReq: afPalette(r)}
	b := g.b
	g.hasTree = r.Intn(100) < 55
	if g.hasTree {
		g.tree()
	}
	for i := r.Intn(3); i > 0; i-- {
		g.appMap()
	}
	if r.Intn(8) == 0 {
		b.add("FRH %d %s", []int{0, 298, 203}[r.Intn(3)], hx(pick(r, []string{"", "AP", "z"})))
	}
	if r.Intn(10) == 0 {
		b.add("B p")
		if r.Intn(3) == 0 {
			b.add("B s %d:%d", afCodes[r.Intn(len(afCodes))], r.Intn(4))
		}
	}
	nmw := r.Intn(4)
	for i := 0; i < nmw; i++ {
		b.add("MW %s", g.middleware(i == 0))
	}
	if r.Intn(3) == 0 {
		b.add("ACT %s", g.randFn(false))
	}
	notFound := func() {
		parts := []string{"NF"}
		for i := r.Intn(3); i > 0; i-- {
			parts = append(parts, g.randFn(false))
		}
		b.add("%s", strings.Join(parts, " "))
	}
	if r.Intn(4) == 0 {
		notFound()
	}
	for i := 1 + r.Intn(4); i > 0; i-- {
		g.addRoute()
	}
	nq := 4 + r.Intn(5)
	for j := 0; j < nq; j++ {
		if r.Intn(6) == 0 {
			// the application changes between requests
			switch r.Intn(7) {
			case 0, 1:
				g.appMap()
			case 2:
				b.add("FRH %d %s", []int{0, 298, 203}[r.Intn(3)], hx(pick(r, []string{"", "AP", "z"})))
			case 3:
				b.add("MW %s", g.middleware(false))
			case 4:
				b.add("ACT %s", g.randFn(false))
			case 5:
				notFound()
			default:
				g.addRoute()
			}
		}
		g.request()
	}
	b.flush(emit)
}

func genAppFull(r *rand.Rand, tier string, emit Emit) {
	n := 250
	if tier == "thorough" {
		n = 5000
	}
	afSmallScope(emit, tier == "thorough")
	for i := 0; i < n; i++ {
		afRandomSession(r, emit)
	}
	// malformed stream: executor and driver must agree on rejecting these, and nothing may change
	emit("NEW appfull %s", afUniverse())
	emit("FS 2e d")
	emit("FS %s f 1", hx("a.txt"))
	for _, bad := range []string{
		"FS " + hx("a.txt") + " f 2", "FS " + hx("b.txt") + " f 1", "FS " + hx("x/y.txt") + " f 3", "FS " + hx("../z") + " f 4", "FS 2e f 5", "FS zz d",
		"FM 8 1", "FM 1", "FM x 1", "FMT 8 2 1", "FMT 3 3 1", "FMT 11 0 1", "FRH 1x -", "FRH 200 zz", "ENC j 0 - 99 - ok", "ENC q 0 - 0 - ok",
		"B", "B x", "B s 1", "MW", "MW q", "MW f/12", "MW f/12/q/-", "MW f/-/w200/-", "MW f/17/-/-", "MW f/12/w/-", "MW f/12/bzz/-",
		"MW f/12/H41/-", "MW f/12/m0.1.5/-", "MW f/12/m8.2.5/-", "MW f/12/m12.12.5/-", "MW f/12/M0.0/-", "MW f/12/h200/-", "MW f/12/j200.8/-",
		"MW f/12/j200/-", "MW f/12/y200.zz/-", "MW f/12/pX/-", "MW f/12/n,/-", "MW f/12//-", "MW f/12/-/i:1+i:2+i:3", "MW f/12/-/q:1", "MW f/12/-/a:e:t:41",
		"MW f/12/-/s:zz", "MW f/12/-/i:", "MW s/-/-", "MW s/-/-/2", "MW s/zz/-/0", "MW R/x/-/-/-", "MW R/1/-/-", "MW r x",
		"RH x f/-/-/-", "RH 1 f/-/-/- q", "ACT", "ACT r r", "NF f/-/-/- zz", "ADD x GET " + hx("/p") + " " + wireOfText("/p"),
		"REQ", "REQ zz " + hx("/"), "REQ " + hx("GET") + " " + hx("/") + " a=b=c", "REQ " + hx("GET") + " " + hx("/") + " inm=x", "REQ " + hx("GET") + " " + hx("/") + " zz=41", "FOO",
	} {
		emit("%s", bad)
	}
	emit("MW R/5/-/-/-")
	emit("MW R/5/%s/-/-", hx("gbk")) // the same renderer id with other options
	emit("MW R/5/%s/-/-", hx("utf-8"))
	emit("RH 0 f/12/t200.%s/-", hx("ok"))
	emit("ADD 0 GET %s %s", hx("/p"), wireOfText("/p"))
	emit("ADD 0 GET %s %s", hx("/again"), wireOfText("/again")) // a handle is used once
	emit("FS %s f 9", hx("late.txt"))                           // after the first handler: refused
	emit("REQ %s %s", hx("GET"), hx("/p"))
	emit("REQ %s %s", hx("GET"), hx("/a.txt"))
}
