package main

// Generators for the router suites C01 C02 C07 C08 C09 C10 C12 (all use session kind "router").

import (
	"fmt"
	"math/rand"
	"regexp"
	"strings"
)

type routerKnobs struct {
	prof       *profile
	routesMax  int
	reqs       int
	hdrPct     int  // chance that a route gets header constraints
	reHdr      bool // constraints re-specified several times
	urlOps     int  // URL / NAME operations per session
	treq       bool // every request also against the shadow tree
	rawPaths   bool // arbitrary byte strings as paths, odd methods
	repeat     bool // every request issued twice
	interleave bool // registrations, Headers() and requests interleaved
	autoHeadPct int // chance that the session configures AutoHead (and registers through the verb methods Get, Post, …)
	groups     bool // a share of the sessions declares its routes inside a random tree of groups (GRP … END)
	sessions   [2]int
	small      [2]int // exhaustive small scope: max routes per set, max path segments (0 = off), quick / thorough pairs below
	smallT     [2]int
}

func init() {
	withDsl := func(g func(r *rand.Rand, tier string, emit Emit), quick, thorough int) func(r *rand.Rand, tier string, emit Emit) {
		return func(r *rand.Rand, tier string, emit Emit) {
			g(r, tier, emit)
			n := quick
			if tier == "thorough" {
				n = thorough
			}
			genDslSlice(r, emit, n)
		}
	}
	gens["C01"] = withDsl(routerGen(routerKnobs{prof: profDefault, routesMax: 8, reqs: 14, hdrPct: 8, treq: true, autoHeadPct: 10,
		sessions: [2]int{1500, 40000}, small: [2]int{2, 3}, smallT: [2]int{3, 4}}), 250, 4000)
	c02router := routerGen(routerKnobs{prof: profBinds, routesMax: 6, reqs: 14, hdrPct: 5, treq: true,
		sessions: [2]int{1500, 40000}})
	gens["C02"] = func(r *rand.Rand, tier string, emit Emit) {
		c02router(r, tier, emit)
		// a bind NAMED `route`: the reserved parameter shadows it (the handler sees the route text under that key; the
		// theorems exclude the name) — served through the router only, next to ordinary binds that must still arrive
		texts := []string{"/{route}/x", "/p/{route: /[a-z]+/}", "/{a}/{route}", "/f/{route: **}", "/{route}-{b}/y", "/o/{a}/?{route}"}
		paths := []string{"/v/x", "/p/abc", "/1/2", "/f/a/b", "/u-w/y", "/o/1", "/o/1/2", "/p/ABC", "/v/x/"}
		for i := 0; i < 12; i++ {
			emit("NEW router")
			for j := 0; j < 1+r.Intn(3); j++ {
				t := texts[r.Intn(len(texts))]
				emit("ADD %d GET %s %s", j, hx(t), wireOfText(t))
			}
			for j := 0; j < 6; j++ {
				emit("REQ %s %s", hx("GET"), hx(paths[r.Intn(len(paths))]))
			}
		}
	}
	c07router := routerGen(routerKnobs{prof: profDefault, routesMax: 6, reqs: 16, hdrPct: 15, rawPaths: true, repeat: true,
		sessions: [2]int{1200, 30000}})
	// C07 = the router sessions, then whole applications behind Flame.ServeHTTP (harness/app.go)
	gens["C07"] = func(r *rand.Rand, tier string, emit Emit) {
		c07router(r, tier, emit)
		genApp(r, tier, emit)
		genAppFull(r, tier, emit)
	}
	gens["C08"] = withDsl(routerGen(routerKnobs{prof: profDefault, routesMax: 12, reqs: 8, hdrPct: 0, treq: false,
		sessions: [2]int{2500, 60000}}), 250, 4000)
	gens["C09"] = routerGen(routerKnobs{prof: profStaticMix, routesMax: 5, reqs: 14, hdrPct: 75, reHdr: true, treq: true, autoHeadPct: 15,
		sessions: [2]int{1500, 40000}})
	gens["C10"] = routerGen(routerKnobs{prof: profStatic, routesMax: 7, reqs: 14, hdrPct: 30, reHdr: true, treq: true, interleave: true, autoHeadPct: 35,
		sessions: [2]int{1500, 40000}})
	gens["C12"] = routerGen(routerKnobs{prof: profBinds, routesMax: 4, reqs: 6, hdrPct: 0, urlOps: 10, treq: false, autoHeadPct: 10, groups: true,
		sessions: [2]int{1500, 40000}})
}

var profStaticMix = &profile{weights: [6]int{55, 70, 80, 86, 94, 98}, plainStatic: true, maxSegs: 4, optionalPct: 40, innerOptPct: 5}

var hdrNames = []string{"X-K", "x-k", "Accept", "X-Mode", "x-mode"}
var hdrExprs = []string{"v", "^v$", "", "a|b", "[0-9]+", "^$", "x.x", `\d+`, "(?i)V", "v+?x", "^V$", "^[a-z]+$", "(?i)^v$", "(?i)^websocket$"}
var hdrVals = []string{"v", "vv", "", "a", "7", "xvx", "b", "x-x", "V", "A", "websocket", "WebSocket"}
var reqMethods = []string{"GET", "GET", "GET", "GET", "POST", "POST", "HEAD", "PUT", "get", "Post"}
var oddMethods = []string{"get", "", "FOO", "G\xffT", "GET ", "*", "TRACE", "CONNECT"}

func methodsFor(r *rand.Rand) string {
	switch k := r.Intn(20); {
	case k < 12:
		return "GET"
	case k < 15:
		return "POST"
	case k < 16:
		return "*"
	case k < 17:
		return pick(r, []string{"GET,POST", "GET,POST", "get,post", "Get,POST", "post,GET,put"})
	case k < 18:
		return "get"
	case k < 19:
		return "HEAD"
	case k < 20 && r.Intn(3) == 0:
		// a list in which a known method stands next to an unknown or empty one: the whole registration is refused
		return pick(r, []string{"GET,BREW", "BREW,GET", "POST,", ",GET", "PUT,,PATCH", "GET,POST,PROPFIND", "get,brew"})
	default:
		return pick(r, []string{"FOO", "", "PUT", "DELETE,PATCH"})
	}
}

func hdrFields(r *rand.Rand) string {
	if r.Intn(3) == 0 {
		return ""
	}
	var fs []string
	n := 1 + r.Intn(3)
	for i := 0; i < n; i++ {
		name := canonHdr(pick(r, hdrNames))
		fs = append(fs, hx(name)+"="+hx(pick(r, hdrVals)))
		if r.Intn(4) == 0 { // the same header on a second line: only the first value counts
			fs = append(fs, hx(name)+"="+hx(pick(r, hdrVals)))
		}
	}
	return " " + strings.Join(fs, " ")
}

// hdrCon: one constraint of a Headers() call, as the generator remembers it for the requests that follow
type hdrCon struct{ canon, expr string }

// hdrOpCons returns the HDR line and the constraint set it installs (nil, false when an expression does not compile: the
// call panics and the route keeps what it had).
func hdrOpCons(r *rand.Rand, hid int) (string, []hdrCon, bool) {
	n := r.Intn(4)
	if r.Intn(4) != 0 && n == 0 {
		n = 1
	}
	parts := []string{fmt.Sprintf("HDR %d", hid)}
	byRaw := map[string]hdrCon{}
	var raws []string
	ok := true
	for i := 0; i < n; i++ {
		name := pick(r, hdrNames)
		e := pick(r, hdrExprs)
		if r.Intn(40) == 0 {
			e = "("
		}
		if _, err := hdrRegexp(e); err != nil {
			ok = false
		}
		parts = append(parts, hx(name), hx(canonHdr(name)), hx(e))
		if _, seen := byRaw[name]; !seen {
			raws = append(raws, name)
		}
		byRaw[name] = hdrCon{canonHdr(name), e} // the same raw name again replaces the expression
	}
	if !ok {
		return strings.Join(parts, " "), nil, false
	}
	cons := []hdrCon{}
	for _, raw := range raws {
		cons = append(cons, byRaw[raw])
	}
	return strings.Join(parts, " "), cons, true
}

func hdrOp(r *rand.Rand, hid int) string {
	line, _, _ := hdrOpCons(r, hid)
	return line
}

var hdrRegexps = map[string]*regexp.Regexp{}

func hdrRegexp(e string) (*regexp.Regexp, error) {
	if re, ok := hdrRegexps[e]; ok {
		return re, nil
	}
	re, err := regexp.Compile(e)
	if err == nil {
		hdrRegexps[e] = re
	}
	return re, err
}

// more values than hdrVals for the requests aimed at a constrained route: what clients really send, next to the small
// alphabet the expressions of hdrExprs speak about
var hdrValsWide = []string{"v", "vv", "a", "7", "xvx", "b", "x-x", "V", "A", "websocket", "WebSocket", "42", "vx", "vvx", "xax",
	"curl/8.5", "s3cr3t", "abc", "text/html", "x x", "2024", "Vv"}

// satisfying picks a non-empty value that every one of the expressions finds (any value when there is none in the pool).
func satisfying(r *rand.Rand, exprs []string) string {
	for _, i := range r.Perm(len(hdrValsWide)) {
		v, ok := hdrValsWide[i], true
		for _, e := range exprs {
			if re, err := hdrRegexp(e); err != nil || !re.MatchString(v) {
				ok = false
			}
		}
		if ok {
			return v
		}
	}
	return pick(r, hdrValsWide)
}

// reqMethodOf: a request method under which a registration with this method list can be reached
func reqMethodOf(r *rand.Rand, ms string) string {
	ms = strings.TrimPrefix(strings.TrimPrefix(ms, "combo:"), "verb:")
	if ms == "*" {
		return pick(r, allMethods)
	}
	m := strings.ToUpper(strings.TrimSpace(pick(r, strings.Split(ms, ","))))
	for _, k := range allMethods {
		if k == m {
			return m
		}
	}
	return "GET"
}

// hdrHistoryReqs: requests aimed at ONE header-constrained route, as a little history on the same method and path —
//   1. a request every constraint of the route accepts (values looked for with Go's regexp in a pool),
//   2. the same request with the accepted values MOVED: rotated among the constrained headers, or one of them replaced by
//      a value that an earlier request of the session carried (under whatever name), or by an arbitrary one,
//   3. the first request once more.
// Whether a request is admitted depends on the route's constraints and the request's own (header, value) pairs only —
// not on which values were accepted before, under this header or another one, by this route or another one.
func hdrHistoryReqs(r *rand.Rand, k routerKnobs, emit Emit, rt gRoute, ms string, cons []hdrCon, seen *[]string) {
	method := reqMethodOf(r, ms)
	path := "/" + strings.Join(rt.instance(r), "/")
	var names []string
	exprs := map[string][]string{}
	for _, c := range cons {
		if _, ok := exprs[c.canon]; !ok {
			names = append(names, c.canon)
		}
		exprs[c.canon] = append(exprs[c.canon], c.expr)
	}
	vals := make([]string, len(names))
	for i, n := range names {
		vals[i] = satisfying(r, exprs[n])
	}
	fields := func(vs []string) string {
		var fs []string
		for i, n := range names {
			fs = append(fs, hx(n)+"="+hx(vs[i]))
		}
		if r.Intn(3) == 0 { // a header the route says nothing about
			fs = append(fs, hx("X-Other")+"="+hx(pick(r, hdrValsWide)))
		}
		if len(fs) == 0 {
			return ""
		}
		return " " + strings.Join(fs, " ")
	}
	send := func(h string) {
		emit("REQ %s %s%s", hx(method), hx(path), h)
		if k.treq {
			emit("TREQ %s %s%s", hx(method), hx(path), h)
		}
	}
	first := fields(vals)
	send(first)
	moved := append([]string(nil), vals...)
	switch c := r.Intn(4); {
	case len(moved) == 0:
	case c < 2 && len(moved) > 1:
		sh := 1 + r.Intn(len(moved)-1)
		for i := range moved {
			moved[i] = vals[(i+sh)%len(vals)]
		}
	case c < 3 && len(*seen) > 0:
		moved[r.Intn(len(moved))] = (*seen)[r.Intn(len(*seen))]
	default:
		moved[r.Intn(len(moved))] = pick(r, hdrValsWide)
	}
	send(fields(moved))
	send(first)
	*seen = append(*seen, vals...)
}

// slashSession: routes of the suite's own profile spelled with and without a trailing slash (one of the two forms, or
// both as the two different routes they are), then for every registered form an instance of it and the SAME path with
// the trailing slash toggled. "/docs/" has one more (empty) final segment than "/docs": neither admits the other's path,
// whatever the style of the segments before — static routes (shortcut table and tree) included.
func slashSession(r *rand.Rand, k routerKnobs, emit Emit) {
	emit("NEW router")
	prof := *k.prof
	if prof.maxSegs > 3 {
		prof.maxSegs = 3
	}
	id := 0
	type reg struct {
		rt gRoute
		m  string
	}
	var regs []reg
	n := 2 + r.Intn(3)
	for i := 0; i < n; i++ {
		rt := genRoute(r, &prof)
		bare := rt
		if l := len(rt.segs); l > 1 && len(rt.segs[l-1].elems) == 0 {
			bare = gRoute{segs: rt.segs[:l-1 : l-1]}
		}
		forms := []gRoute{bare}
		if !bare.segs[len(bare.segs)-1].optional {
			slashed := gRoute{segs: append(bare.segs[:len(bare.segs):len(bare.segs)], gSeg{inst: constInst("")})}
			switch r.Intn(10) {
			case 0, 1, 2:
			case 3, 4, 5, 6:
				forms = []gRoute{slashed}
			case 7, 8:
				forms = []gRoute{bare, slashed}
			default:
				forms = []gRoute{slashed, bare}
			}
		}
		m := "GET"
		if r.Intn(4) == 0 {
			m = pick(r, []string{"POST", "HEAD", "*", "GET,POST"})
		}
		for _, f := range forms {
			t := f.text()
			emit("ADD %d %s %s %s", id, m, hx(t), wireOfText(t))
			id++
			regs = append(regs, reg{f, m})
		}
	}
	r.Shuffle(len(regs), func(i, j int) { regs[i], regs[j] = regs[j], regs[i] })
	for _, g := range regs {
		segs := g.rt.instance(r)
		m := reqMethodOf(r, g.m)
		for _, p := range []string{"/" + strings.Join(segs, "/"), "/" + strings.Join(toggleTrailingSlash(append([]string(nil), segs...)), "/")} {
			emit("REQ %s %s", hx(m), hx(p))
			if k.treq {
				emit("TREQ %s %s", hx(m), hx(p))
			}
			if k.rawPaths {
				emit("IREQ %s %s", hx(m), hx(p))
			}
		}
	}
}

func routerGen(k routerKnobs) func(r *rand.Rand, tier string, emit Emit) {
	return func(r *rand.Rand, tier string, emit Emit) {
		ti := 0
		if tier == "thorough" {
			ti = 1
		}
		small := k.small
		if ti == 1 {
			small = k.smallT
		}
		if small[0] > 0 {
			exhaustiveSmall(emit, small[0], small[1], k.treq)
		}
		for i := 0; i < k.sessions[ti]; i++ {
			routerSession1(r, k, emit)
		}
	}
}

// wideSession: many alternatives under ONE node (more than a dozen leaves / subtrees), several of equal rank
// admitting the same segment — the order among equals must still be the registration order.
func wideSession(r *rand.Rand, k routerKnobs, emit Emit) {
	emit("NEW router")
	prefix := ""
	if r.Intn(2) == 0 {
		prefix = "/" + pick(r, plainLits)
	}
	suffix := ""
	if r.Intn(3) == 0 {
		suffix = "/" + pick(r, plainLits) // alternatives are subtrees instead of leaves
	}
	overl := []string{"{a: /[0-9]+/}", "{b: /[a-z0-9-]+/}", "{c: /.+/}", "{d: /[0-9a-f]+/}", "{e}", "{f: /[\\w]+/}", "{g: /.*/}"}
	n := 13 + r.Intn(12)
	var texts []string
	for i := 0; i < n; i++ {
		if r.Intn(3) == 0 {
			texts = append(texts, prefix+"/"+pick(r, overl)+suffix)
		} else {
			texts = append(texts, fmt.Sprintf("%s/page%d%s", prefix, i, suffix))
		}
	}
	r.Shuffle(len(texts), func(i, j int) { texts[i], texts[j] = texts[j], texts[i] })
	for i, t := range texts {
		emit("ADD %d GET %s %s", i, hx(t), wireOfText(t))
	}
	for j := 0; j < k.reqs+6; j++ {
		seg := pick(r, []string{"123", "abc", "a-1", "page3", "page77", "7f", "x_y", "", "9"})
		p := prefix + "/" + seg + suffix
		emit("REQ %s %s", hx("GET"), hx(p))
		if k.treq {
			emit("TREQ %s %s", hx("GET"), hx(p))
		}
	}
}

// deepFamilySession: a family of routes sharing a LONG prefix of bind segments (1..7 of them) that diverge into
// sibling subtrees of different styles, followed by probe registrations that reuse a bind name of an ancestor
// (must be refused), the sibling's own name (refused) and the OTHER sibling's name (a different path of the
// tree: must be accepted) — per-node bookkeeping about "the binds above me" is exercised at every depth.
func deepFamilySession(r *rand.Rand, k routerKnobs, emit Emit) {
	emit("NEW router")
	L := 1 + r.Intn(7)
	var pre []string  // segment texts of the shared prefix
	var inst []string // one request segment per prefix segment
	var names []string
	for i := 0; i < L; i++ {
		n := fmt.Sprintf("n%d", i)
		switch c := r.Intn(10); {
		case c < 6:
			pre, names = append(pre, "{"+n+"}"), append(names, n)
		case c < 9:
			pre, names = append(pre, "{"+n+": /[0-9a-z]+/}"), append(names, n)
		default:
			pre = append(pre, "s"+n)
		}
		inst = append(inst, fmt.Sprintf("v%d", i))
		if strings.HasPrefix(pre[i], "s") {
			inst[i] = pre[i]
		}
	}
	prefix := "/" + strings.Join(pre, "/")
	type sib struct{ seg, name, inst string }
	all := []sib{{"{dir}", "dir", "src"}, {"{rev: /[0-9a-f]+/}", "rev", "7f"}, {"lit", "", "lit"}, {"{rest: **}", "rest", "a/b"},
		{"x-{tag}", "tag", "x-1"}}
	r.Shuffle(len(all), func(i, j int) { all[i], all[j] = all[j], all[i] })
	sibs := all[:2+r.Intn(2)]
	tails := []string{"/{file}", "/t", "/{f2}/x", "/{file: /[a-z.]+/}"}
	id := 0
	add := func(t string) {
		emit("ADD %d GET %s %s", id, hx(t), wireOfText(t))
		id++
	}
	var reqs []string
	for _, sb := range sibs {
		tl := pick(r, tails)
		add(prefix + "/" + sb.seg + tl)
		reqs = append(reqs, "/"+strings.Join(inst, "/")+"/"+sb.inst+strings.NewReplacer("{file}", "f.go", "{f2}", "g", "{file: /[a-z.]+/}", "f.go").Replace(tl))
	}
	for i, sb := range sibs {
		through := prefix + "/" + sb.seg
		if len(names) > 0 {
			anc := names[r.Intn(len(names))]
			add(through + pick(r, []string{"/{" + anc + "}", "/sub/{" + anc + "}", "/{" + anc + ": /[0-9]+/}", "/?{" + anc + "}", "/a-{" + anc + "}"}))
		}
		if sb.name != "" {
			add(through + pick(r, []string{"/{" + sb.name + "}", "/sub/{" + sb.name + "}", "/{" + sb.name + ": **}"}))
		}
		other := sibs[(i+1)%len(sibs)]
		if other.name != "" && other.name != sb.name {
			add(through + pick(r, []string{"/sub/{" + other.name + "}", "/{" + other.name + "}/y", "/s2/{" + other.name + ": /[0-9]+/}"}))
			reqs = append(reqs, "/"+strings.Join(inst, "/")+"/"+sb.inst+"/sub/9", "/"+strings.Join(inst, "/")+"/"+sb.inst+"/9/y")
		}
	}
	// one more family member registered late, and the first route again (duplicate)
	add(prefix + "/" + sibs[0].seg + "/late/{z9}")
	for _, p := range reqs {
		emit("REQ %s %s", hx("GET"), hx(p))
		if k.treq {
			emit("TREQ %s %s", hx("GET"), hx(p))
		}
	}
}

// groupedSession: the routes are declared inside a random tree of groups — groups opened and closed in any order up to
// three deep (a closed group followed by further declarations of the enclosing one, siblings, a group or a route with
// the path ""), one to three segments of any kind per group path and per route, requests and URL building interleaved
// with the declarations (while groups are still open) and afterwards.  Every route is named (`r<hid>`) by the executor,
// so every dispatched request rebuilds its own URL; the model registers the concatenated texts.
func groupedSession(r *rand.Rand, k routerKnobs, emit Emit) {
	emit("NEW router")
	type frame struct {
		segs []gSeg
		used map[string]bool
	}
	copyUsed := func(m map[string]bool) map[string]bool {
		o := map[string]bool{}
		for k, v := range m {
			o[k] = v
		}
		return o
	}
	stack := []frame{{used: map[string]bool{}}}
	var routes []gRoute
	var hids []int
	emitReq := func() {
		method := pick(r, reqMethods)
		path := randomSmallPath(r)
		if len(routes) > 0 && r.Intn(8) != 0 {
			rt := routes[r.Intn(len(routes))]
			if r.Intn(4) == 0 {
				path = mutatePath(r, rt.instance(r))
			} else {
				path = "/" + strings.Join(rt.instance(r), "/")
			}
		}
		emit("REQ %s %s", hx(method), hx(path))
	}
	vals := []string{"1", "a", "", "{x}", "a/b", "x", "%41", "é"}
	emitURL := func() {
		if len(hids) == 0 {
			return
		}
		parts := []string{"URL", hx(fmt.Sprintf("r%d", hids[r.Intn(len(hids))]))}
		for p := r.Intn(4); p > 0; p-- {
			parts = append(parts, hx(pick(r, bindNames)), hx(pick(r, vals)))
		}
		if r.Intn(2) == 0 {
			parts = append(parts, hx("withOptional"), hx(pick(r, []string{"true", "false"})))
		}
		emit("%s", strings.Join(parts, " "))
	}
	id := 0
	steps := 4 + r.Intn(8)
	for st := 0; st < steps; st++ {
		top := stack[len(stack)-1]
		switch c := r.Intn(10); {
		case c < 3 && len(stack) <= 3:
			used := copyUsed(top.used)
			n := 1 + r.Intn(2)
			if r.Intn(8) == 0 {
				n = 0 // Group("", …)
			}
			segs := append([]gSeg(nil), top.segs...)
			var own gRoute
			for i := 0; i < n; i++ {
				sg := genSeg(r, used, k.prof, false)
				sg.optional = false
				own.segs = append(own.segs, sg)
			}
			emit("GRP %s", hx(own.text()))
			stack = append(stack, frame{segs: append(segs, own.segs...), used: used})
		case c < 5 && len(stack) > 1:
			emit("END")
			stack = stack[:len(stack)-1]
		default:
			used := copyUsed(top.used)
			n := 1 + r.Intn(3)
			if len(stack) > 1 && r.Intn(10) == 0 {
				n = 0 // the route of the group's own path
			}
			var own gRoute
			for i := 0; i < n; i++ {
				sg := genSeg(r, used, k.prof, i == n-1)
				sg.optional = i == n-1 && r.Intn(100) < k.prof.optionalPct
				own.segs = append(own.segs, sg)
			}
			full := gRoute{segs: append(append([]gSeg(nil), top.segs...), own.segs...)}
			ms := methodsFor(r)
			if r.Intn(5) == 0 {
				for _, v := range []string{"GET", "POST", "PUT", "HEAD"} {
					if ms == v {
						ms = "combo:" + ms
					}
				}
			}
			emit("ADD %d %s %s %s", id, ms, hx(own.text()), wireOfText(full.text()))
			if len(full.segs) > 0 {
				routes = append(routes, full)
			}
			hids = append(hids, id)
			id++
			switch r.Intn(4) {
			case 0:
				emitReq()
			case 1:
				emitURL()
			}
		}
	}
	for len(stack) > 1 && r.Intn(12) != 0 {
		emit("END")
		stack = stack[:len(stack)-1]
	}
	for j := 0; j < k.reqs+4; j++ {
		emitReq()
	}
	for j := 0; j < k.urlOps/2; j++ {
		emitURL()
	}
}

func routerSession1(r *rand.Rand, k routerKnobs, emit Emit) {
	if k.groups && r.Intn(4) == 0 {
		groupedSession(r, k, emit)
		return
	}
	if k.urlOps == 0 && r.Intn(25) == 0 {
		wideSession(r, k, emit)
		return
	}
	if !k.rawPaths && k.urlOps == 0 && r.Intn(20) == 0 {
		deepFamilySession(r, k, emit)
		return
	}
	if k.urlOps == 0 && r.Intn(20) == 0 {
		slashSession(r, k, emit)
		return
	}
	emit("NEW router")
	n := 1 + r.Intn(k.routesMax)
	var routes []gRoute
	var hids []int
	var names []string
	var mss []string           // the method list of every registration
	cons := map[int][]hdrCon{} // the constraint set every route carries at this point of the session (non-empty ones only)
	var seenVals []string      // header values that requests aimed at constrained routes carried so far
	// AutoHead: configured before the first registration, and now and then switched in the middle of the session; while
	// the session uses it, single-method registrations go through the verb methods (f.Get, f.Post, …) half of the time
	verbs := r.Intn(100) < k.autoHeadPct
	autoHead := false
	if verbs && r.Intn(5) != 0 {
		autoHead = true
		emit("AUTOHEAD 1")
	}
	hdr := func(hid int) {
		line, cs, ok := hdrOpCons(r, hid)
		emit("%s", line)
		if ok {
			delete(cons, hid)
			if len(cs) > 0 {
				cons[hid] = cs
			}
		}
	}
	emitReq := func() {
		if len(cons) > 0 && r.Intn(5) == 0 {
			var cands []int
			for _, h := range hids {
				if len(cons[h]) > 0 {
					cands = append(cands, h)
				}
			}
			h := cands[r.Intn(len(cands))]
			hdrHistoryReqs(r, k, emit, routes[h], mss[h], cons[h], &seenVals)
			return
		}
		var path, method string
		method = pick(r, reqMethods)
		if verbs && r.Intn(4) == 0 {
			method = "HEAD"
		}
		switch c := r.Intn(20); {
		case len(routes) > 0 && c < 2:
			// the route's own text as a literal path (route syntax such as '?' inside a path)
			path = routes[r.Intn(len(routes))].text()
		case len(routes) > 0 && c < 15:
			rt := routes[r.Intn(len(routes))]
			path = mutatePath(r, rt.instance(r))
		case c < 18:
			path = randomSmallPath(r)
		default:
			path = randomBytesPath(r)
		}
		if k.rawPaths {
			switch r.Intn(6) {
			case 5:
				// an unknown method token that, glued to the path, spells a known method + a registered route text
				if len(routes) > 0 {
					t := routes[r.Intn(len(routes))].text()
					i := r.Intn(len(t) + 1)
					method, path = pick(r, []string{"GET", "POST", ""})+t[:i], t[i:]
				}
			case 0:
				path = randomBytesPath(r)
			case 1:
				method = pick(r, oddMethods)
			case 2:
				path = strings.Repeat(path, 1+r.Intn(40))
			}
		}
		h := hdrFields(r)
		emit("REQ %s %s%s", hx(method), hx(path), h)
		if k.repeat {
			emit("REQ %s %s%s", hx(method), hx(path), h)
			// the same request again, with another request served on the instance meanwhile
			np := randomSmallPath(r)
			if len(routes) > 0 && r.Intn(3) != 0 {
				np = mutatePath(r, routes[r.Intn(len(routes))].instance(r))
			}
			emit("NREQ %s %s %s %s%s", hx(method), hx(path), hx(pick(r, reqMethods)), hx(np), h)
		}
		if k.treq {
			emit("TREQ %s %s%s", hx(method), hx(path), h)
		}
		if k.rawPaths {
			emit("IREQ %s %s%s", hx(method), hx(path), h)
		}
		if k.hdrPct > 0 && r.Intn(3) == 0 {
			// the SAME method and path again under other headers (and then under the first ones once more): the
			// outcome is a function of the routes and THIS request, never of what an earlier request of the same
			// path resolved to
			h2 := hdrFields(r)
			emit("REQ %s %s%s", hx(method), hx(path), h2)
			if k.treq {
				emit("TREQ %s %s%s", hx(method), hx(path), h2)
			}
			emit("REQ %s %s%s", hx(method), hx(path), h)
		}
	}
	for i := 0; i < n; i++ {
		var rt gRoute
		if len(routes) > 0 && r.Intn(6) == 0 {
			// near-duplicate of an earlier route: same prefix, different tail (or exact duplicate)
			base := routes[r.Intn(len(routes))]
			cut := r.Intn(len(base.segs) + 1)
			rt = gRoute{segs: append([]gSeg(nil), base.segs[:cut]...)}
			if r.Intn(3) != 0 || cut == 0 {
				tail := genRoute(r, k.prof)
				rt.segs = append(rt.segs, tail.segs...)
			}
			for j := range rt.segs[:len(rt.segs)-1] {
				rt.segs[j].optional = false
			}
			if cut == len(base.segs) && len(rt.segs) == len(base.segs) && r.Intn(2) == 0 {
				// the same route with the optional mark of its last segment toggled
				rt.segs[len(rt.segs)-1].optional = !rt.segs[len(rt.segs)-1].optional
				if r.Intn(2) == 0 {
					// … and with its binds renamed: the same shape under other names ("/f/{path: **}" then "/f/?{rest: **}")
					rt = renameBinds(rt)
				}
			}
		} else {
			rt = genRoute(r, k.prof)
		}
		text := rt.text()
		ms := methodsFor(r)
		if k.urlOps > 0 && k.hdrPct == 0 && r.Intn(4) == 0 {
			// through Combo (one verb call per method) and ComboRoute.Name: only method lists Combo can spell
			ok, seen := ms != "", map[string]bool{}
			for _, m := range strings.Split(ms, ",") {
				known := false
				for _, v := range []string{"GET", "POST", "PUT", "DELETE", "PATCH", "OPTIONS", "HEAD", "CONNECT", "TRACE"} {
					known = known || v == m
				}
				if !known || seen[m] {
					ok = false
				}
				seen[m] = true
			}
			if ok {
				ms = "combo:" + ms
			}
		}
		if r.Intn(60) == 0 {
			text = pick(r, []string{"", "a", "/a b", "/{", "/{x", "/a//b", "/{x}{", "/a?b", "/{x:}", "//", "/?", "/a/?"})
		} else if r.Intn(30) == 0 && len(text) > 0 {
			// one byte of punctuation dropped into an otherwise well-formed text (also a purely static one): inside or
			// outside the grammar is the parser's decision, byte by byte (`,` `;` `=` are not identifier bytes, `$` `~` are)
			i := r.Intn(len(text) + 1)
			text = text[:i] + pick(r, []string{",", ";", "=", "!", "~", "@", "&", "'", "$", "%", " ", "+", "*", "(", ")", "|", "^", "\\", "\"", "<", "#"}) + text[i:]
		}
		if verbs {
			if r.Intn(12) == 0 {
				autoHead = !autoHead
				emit("AUTOHEAD %d", map[bool]int{false: 0, true: 1}[autoHead])
			}
			for _, v := range allMethods {
				if ms == v && r.Intn(2) == 0 {
					ms = "verb:" + ms
				}
			}
		}
		emit("ADD %d %s %s %s", i, ms, hx(text), wireOfText(text))
		routes = append(routes, rt)
		hids = append(hids, i)
		mss = append(mss, ms)
		if r.Intn(100) < k.hdrPct {
			hdr(i)
			if k.reHdr && r.Intn(2) == 0 {
				hdr(i)
			}
		}
		if k.urlOps > 0 && r.Intn(2) == 0 {
			nm := pick(r, []string{"home", "user", "n1", "n2", "", "home"})
			emit("NAME %d %s", i, hx(nm))
			names = append(names, nm)
		}
		if k.interleave && r.Intn(2) == 0 {
			emitReq()
		}
	}
	for j := 0; j < k.reqs; j++ {
		if k.reHdr && len(hids) > 0 && r.Intn(8) == 0 {
			hdr(hids[r.Intn(len(hids))])
		}
		emitReq()
	}
	for j := 0; j < k.urlOps; j++ {
		var nm string
		switch c := r.Intn(10); {
		case c < 5 && len(hids) > 0:
			nm = fmt.Sprintf("r%d", hids[r.Intn(len(hids))])
		case c < 8 && len(names) > 0:
			nm = names[r.Intn(len(names))]
		default:
			nm = pick(r, []string{"nope", "", "r99"})
		}
		parts := []string{"URL", hx(nm)}
		np := r.Intn(5)
		vals := []string{"1", "a", "", "{x}", "{y}", "a/b", "}{", "x", "%41", "é"}
		for p := 0; p < np; p++ {
			key := pick(r, bindNames)
			if r.Intn(8) == 0 {
				key = pick(r, []string{"nosuch", "route", "capture"})
			}
			parts = append(parts, hx(key), hx(pick(r, vals)))
		}
		if r.Intn(2) == 0 {
			parts = append(parts, hx("withOptional"), hx(pick(r, []string{"true", "false", "1"})))
		}
		if r.Intn(12) == 0 {
			parts = append(parts, hx("dangling"))
		}
		emit("%s", strings.Join(parts, " "))
		if r.Intn(4) == 0 {
			// two different assignments whose texts coincide once joined with a separator: (k1 = v1<sep>k2<sep>v2)
			// versus (k1 = v1, k2 = v2) — built one after the other on the same router
			k1, k2 := pick(r, bindNames), pick(r, bindNames)
			v1, v2 := pick(r, vals), pick(r, vals)
			sep := pick(r, []string{"&", "=", ",", " ", "/", "\x00", "?"})
			a := []string{"URL", hx(nm), hx(k1), hx(v1 + sep + k2 + sep + v2)}
			b := []string{"URL", hx(nm), hx(k1), hx(v1), hx(k2), hx(v2)}
			if r.Intn(2) == 0 {
				a, b = b, a
			}
			emit("%s", strings.Join(a, " "))
			emit("%s", strings.Join(b, " "))
		}
	}
}

// exhaustiveSmall: all ordered route sets of up to maxRoutes routes from a fixed 12-route pool
// × all paths of up to maxSegs segments over {a,b,1,""}.
func exhaustiveSmall(emit Emit, maxRoutes, maxSegs int, treq bool) {
	pool := []string{"/a", "/{x}", "/a/b", "/a/{y}", "/{x: /[a-z]+/}/b", "/{p: **}", "/a/{p: **}/b", "/a/?b",
		"/{x}/?{y}", "/a/{p: **, capture: 2}", "/{x: /[0-9]+/}", "/"}
	var paths []string
	var recp func(prefix []string)
	recp = func(prefix []string) {
		if len(prefix) > 0 {
			paths = append(paths, "/"+strings.Join(prefix, "/"))
		}
		if len(prefix) == maxSegs {
			return
		}
		for _, s := range smallSegs {
			recp(append(prefix[:len(prefix):len(prefix)], s))
		}
	}
	recp(nil)
	wires := make([]string, len(pool))
	for i, t := range pool {
		wires[i] = wireOfText(t)
	}
	var rec func(set []int)
	rec = func(set []int) {
		if len(set) > 0 {
			emit("NEW router")
			for i, ri := range set {
				emit("ADD %d GET %s %s", i, hx(pool[ri]), wires[ri])
			}
			for _, p := range paths {
				emit("REQ %s %s", hx("GET"), hx(p))
				if treq {
					emit("TREQ %s %s", hx("GET"), hx(p))
				}
			}
		}
		if len(set) == maxRoutes {
			return
		}
		for i := range pool {
			used := false
			for _, s := range set {
				if s == i {
					used = true
				}
			}
			if !used {
				rec(append(set[:len(set):len(set)], i))
			}
		}
	}
	rec(nil)
}

// renameBinds returns the route with every bind name changed (same shape, other names).
func renameBinds(rt gRoute) gRoute {
	out := gRoute{}
	for _, sg := range rt.segs {
		ns := gSeg{optional: sg.optional, inst: sg.inst}
		for _, e := range sg.elems {
			ne := gElem{kind: e.kind, text: e.text}
			if e.kind == 'b' && e.text != "**" {
				ne.text = e.text + "2"
			}
			for i, p := range e.params {
				np := p
				if i == 0 || p.regex {
					np.ident = p.ident + "2"
				}
				ne.params = append(ne.params, np)
			}
			ns.elems = append(ns.elems, ne)
		}
		out.segs = append(out.segs, ns)
	}
	return out
}
