package main

// C05 — concurrent serving against one Flame, meant to be built with -race:
//
//	go build -race -tags verif -o harness-race . && GORACE="halt_on_error=1 log_path=<dir>/race" ./harness-race conc <seed> <tier> <dir>
//
// One Flame with routes of every kind is built once (set-up), a request mix is served SERIALLY and every
// response recorded, then the shuffled mix is served from N goroutines and every response is compared with
// its serial outcome.  Exit 0: no divergence (and, under -race, no race report); exit 1: first divergent
// response written to <dir>/divergence.json; exit 66 (GORACE default): the detector's report is in <dir>/race.*.
// This run is the SEARCH for a failing input and supporting evidence — the proof is lean/Flamego/Props/C05.lean.

import (
	"encoding/json"
	"fmt"
	"io"
	"math/rand"
	"net/http"
	"net/http/httptest"
	"os"
	"path/filepath"
	"reflect"
	"runtime"
	"sort"
	"strconv"
	"strings"
	"sync"
	"sync/atomic"

	"github.com/charmbracelet/log"

	"github.com/flamego/flamego"
)

func init() {
	cmds["conc"] = concMain
	gens["C05"] = func(r *rand.Rand, tier string, emit Emit) {
		// one trivial session (the whole-application race run of `conc` below compares responses, not lines), then the
		// `concreq` sessions: per-request observations under concurrency against the request machine of Model/ConcReq.
		emit("NEW noop")
		emit("nop")
		// the per-request observations under concurrency, against the request machine (harness/concreq.go)
		genConcReq(r, tier, emit)
	}
	execs["noop"] = func(args []string, lines [][]string) []string {
		out := []string{"noop"}
		for range lines {
			out = append(out, "noop")
		}
		return out
	}
}

type concReq struct {
	Kind   string            `json:"kind"`
	Method string            `json:"method"`
	Path   string            `json:"path"`
	Header map[string]string `json:"header,omitempty"`
}

type concResp struct {
	Status int      `json:"status"`
	Header []string `json:"header"`
	Body   string   `json:"body"`
}

type reqScoped struct{ ID, Path string }

// application-level services, mapped on the Flame by CONCRETE type and asked for by INTERFACE: the injector then
// has to search its type map for an implementor (and the request injector falls back to the shared Flame injector)
type greeter interface{ Greet(name string) string } // two implementors registered: either may be picked,
type greeterA struct{ salt string }                 // so both answer identically
type greeterB struct{ salt string }

func (g *greeterA) Greet(name string) string { return "hello " + name + g.salt }
func (g *greeterB) Greet(name string) string { return "hello " + name + g.salt }

type clock interface{ Tick() string } // one implementor registered
type fixedClock struct{ t string }

func (c *fixedClock) Tick() string { return c.t }

type sizer interface{ Size(s string) int } // one implementor, a non-pointer type
type lenSizer int

func (l lenSizer) Size(s string) int { return len(s) + int(l) }

// a request-scoped value that a middleware maps only when the request carries X-Tenant, and a custom
// inject.FastInvoker that needs it: without the header the injection fails (500 through Recovery)
type tenantInfo struct{ name, id string }

type tenantInvoker func(c flamego.Context, t *tenantInfo)

func (invoke tenantInvoker) Invoke(args []interface{}) ([]reflect.Value, error) {
	invoke(args[0].(flamego.Context), args[1].(*tenantInfo))
	return nil, nil
}

// request-scoped service mapped by concrete type per request and asked for by interface
type whoami interface{ Who() string }
type reqWho struct{ id string }

func (w *reqWho) Who() string { return "who=" + w.id }

func echoParams(c flamego.Context) string {
	ps := c.Params()
	keys := make([]string, 0, len(ps))
	for k := range ps {
		keys = append(keys, k)
	}
	sort.Strings(keys)
	parts := make([]string, 0, len(keys))
	for _, k := range keys {
		parts = append(parts, k+"="+ps[k])
	}
	return strings.Join(parts, ",")
}

func echo(tag string, c flamego.Context) string {
	runtime.Gosched() // invite an interleaving between routing and the handler's reads
	return fmt.Sprintf("%s|%s|%s|%s|id=%s|q=%s", tag, c.Request().Method, c.Request().URL.Path, echoParams(c),
		c.Request().Header.Get("X-Req-Id"), c.Request().URL.RawQuery)
}

// routes of the family of regex segments with several bind parameters (harness/concreq.go `crRegexRoute`), of five
// shapes, shapes / expressions / separators / tails drawn from the run's seed (set once by concMain, before the first build)
var concRx []crRoute

func genConcRx(r *rand.Rand) []crRoute {
	var out []crRoute
	// (every route costs every one of the ~450 instances the run builds a registration: five shapes per run here; the
	// concreq sessions go through all of them on every run)
	shapes := rxShapes()
	for k, i := range r.Perm(len(shapes))[:5] {
		out = append(out, crRegexRoute(r, k, shapes[i]))
	}
	return out
}

func buildConcApp(dir string) *flamego.Flame {
	flamego.SetEnv(flamego.EnvTypeProd) // Recovery answers with a constant body (no stack trace)
	f := flamego.NewWithLogger(io.Discard)
	// Before hooks of the Flame: one that looks at every request and passes it on, a liveness probe that answers with a
	// body, one that answers without writing anything (the client sees an empty 200) — such requests never reach the router
	f.Before(func(w http.ResponseWriter, r *http.Request) bool { return r.Header.Get("X-Never-Set") != "" })
	f.Before(func(w http.ResponseWriter, r *http.Request) bool {
		if r.URL.Path != "/healthz" {
			return false
		}
		w.Header().Set("X-Probe", r.Header.Get("X-Req-Id"))
		_, _ = w.Write([]byte("ok " + r.Method))
		return true
	})
	f.Before(func(w http.ResponseWriter, r *http.Request) bool {
		if r.URL.Path == "/ping/quiet" {
			return true
		}
		if strings.HasPrefix(r.URL.Path, "/ping/") {
			w.WriteHeader(http.StatusNoContent)
			return true
		}
		return false
	})
	for i, rt := range concRx {
		tag := fmt.Sprintf("rx%d", i)
		f.Get(rt.text, func(c flamego.Context) string { return echo(tag, c) })
	}
	f.Use(flamego.Logger(), flamego.Recovery(), flamego.Renderer(), flamego.Static(flamego.StaticOptions{
		Directory: dir, Prefix: "assets", SetETag: true,
		CacheControl: func() string { return "max-age=60" },
	}))
	f.Map(&greeterA{salt: "!"}, &greeterB{salt: "!"}, &fixedClock{t: "noon"}, lenSizer(1)) // by concrete type
	// a middleware with a Before hook on the response writer and request-scoped values
	f.Use(func(c flamego.Context) {
		id := c.Request().Header.Get("X-Req-Id")
		c.ResponseWriter().Before(func(w flamego.ResponseWriter) { w.Header().Set("X-Echo-Id", id) })
		c.Map(&reqScoped{ID: id, Path: c.Request().URL.Path})
		c.Map(&reqWho{id: id}) // concrete type; handlers ask for the interface `whoami`
		if t := c.Request().Header.Get("X-Tenant"); t != "" {
			c.Map(&tenantInfo{name: t, id: id})
		}
		// middleware that STORES into the request's bind parameters (nil for NotFound contexts)
		if ps := c.Params(); ps != nil {
			ps["mw"] = id
		}
	})
	f.AutoHead(true)
	f.Get("/", func(c flamego.Context) string { return echo("root", c) })                                  // static shortcut
	f.Get("/static/deep/path", func(c flamego.Context) string { return echo("static", c) })                // static shortcut
	f.Get("/users/{name}", func(c flamego.Context) string { return echo("user", c) }).Name("user")         // placeholder, named
	f.Get("/posts/{id: /[0-9]+/}", func(c flamego.Context) string { return echo("post", c) }).Name("post") // regex
	f.Get("/posts/{slug}", func(c flamego.Context) string { return echo("postslug", c) })                  // fallback after regex
	f.Get("/pair/{x}-{y: /[a-z]+/}", func(c flamego.Context) string { return echo("pair", c) })            // several binds
	f.Get("/files/{path: **}", func(c flamego.Context) string { return echo("files", c) })                 // match-all leaf
	f.Get("/cap/{p: **, capture: 2}/end", func(c flamego.Context) string { return echo("cap", c) })        // match-all subtree with limit
	f.Get("/opt/{a}/?{b}", func(c flamego.Context) string { return echo("opt", c) }).Name("opt")           // optional
	f.Get("/hdr/{v}", func(c flamego.Context) string { return echo("hdr", c) }).Headers("X-Kind", "^a")    // header-constrained
	// two constrained headers with DIFFERENT expressions: the same value string means one thing under one name and another
	// under the other (a verdict remembered per value would be carried from one request to the next)
	f.Get("/hdr2/{v}", func(c flamego.Context) string { return echo("hdr2", c) }).Headers("X-Api-Version", "^2$", "X-Shard", "^[0-9]+$")
	f.Any("/any/{v}", func(c flamego.Context) string { return echo("any", c) })
	f.Combo("/combo/{v}").Get(func(c flamego.Context) string { return echo("combo-get", c) }).
		Post(func(c flamego.Context) string { return echo("combo-post", c) })
	f.Group("/scoped", func() {
		f.Get("/{x}", func(c flamego.Context, rs *reqScoped) (int, string) {
			runtime.Gosched()
			return http.StatusAccepted, fmt.Sprintf("scoped|%s|%s|%s|hdr=%s", rs.ID, rs.Path, echoParams(c), c.Request().Header.Get("X-Req-Id"))
		})
		f.Get("/chain/{x}", func(c flamego.Context) { c.Map("inner:" + c.Param("x")) }, func(c flamego.Context, s string, rs *reqScoped) string {
			return "chain|" + s + "|" + rs.ID + "|" + echoParams(c)
		})
	})
	f.Get("/link/{name}", func(c flamego.Context) string { // URLPath on named routes (Route.String / leaf.URLPath)
		return c.URLPath("user", "name", c.Param("name")) + " " + c.URLPath("post", "id", "7") + " " +
			c.URLPath("opt", "a", c.Param("name"), "b", "z", "withOptional", "true")
	})
	f.Get("/json/{k}", func(c flamego.Context, r flamego.Render) {
		r.JSON(http.StatusOK, map[string]string{"k": c.Param("k"), "id": c.Request().Header.Get("X-Req-Id")})
	})
	f.Get("/text/{k}", func(c flamego.Context, r flamego.Render) { r.PlainText(http.StatusCreated, echo("text", c)) })
	f.Get("/panic/{why}", func(c flamego.Context) string { panic("boom " + c.Param("why")) })
	f.Get("/redir/{to}", func(c flamego.Context) { c.Redirect("/users/" + c.Param("to")) })
	f.Get("/cookie/{v}", func(c flamego.Context) string {
		c.SetCookie(http.Cookie{Name: "v", Value: c.Param("v") + " " + c.Request().Header.Get("X-Req-Id")})
		return "cookie|" + c.Cookie("in")
	})
	f.Get("/query", func(c flamego.Context) string {
		return fmt.Sprintf("query|%s|%d|%v", c.Query("a", "dflt"), c.QueryInt("n"), c.QueryStrings("m"))
	})
	// handlers that store a per-request value into c.Params() and read it back, on fully static and on dynamic routes
	tenant := func(tag string) func(c flamego.Context) string {
		return func(c flamego.Context) string {
			id := c.Request().Header.Get("X-Req-Id")
			c.Params()["tenant"] = id
			runtime.Gosched()
			c.Params()["seen"] = c.Params()["tenant"] + "/" + c.Params()["mw"]
			return echo(tag, c) + "|tenant=" + c.Params()["tenant"]
		}
	}
	f.Get("/tenant", tenant("tenant-static"))
	f.Get("/tenant/fixed/path", tenant("tenant-static-deep"))
	f.Post("/tenant", tenant("tenant-static-post"))
	f.Get("/tenant/dyn/{x}", tenant("tenant-dyn"))
	f.Get("/tenant/all/{rest: **}", tenant("tenant-all"))
	// fast-invoker handlers (ContextInvoker / LoggerInvoker / a custom FastInvoker) that echo the request's id
	f.Get("/fi/ctx/{n}", func(c flamego.Context) { // wrapped as ContextInvoker
		runtime.Gosched()
		_, _ = c.ResponseWriter().Write([]byte(echo("fi-ctx", c)))
	})
	f.Get("/fi/log/{n}", flamego.LoggerInvoker(func(c flamego.Context, l *log.Logger) {
		l.Print("fi", "n", c.Param("n"))
		runtime.Gosched()
		_, _ = c.ResponseWriter().Write([]byte(echo("fi-log", c)))
	}))
	f.Get("/fi/custom/{n}", tenantInvoker(func(c flamego.Context, t *tenantInfo) {
		runtime.Gosched()
		_, _ = c.ResponseWriter().Write([]byte(echo("fi-custom", c) + "|tenant=" + t.name + "/" + t.id))
	}))
	f.Get("/fi/chain/{n}", func(c flamego.Context) { c.Next() }, tenantInvoker(func(c flamego.Context, t *tenantInfo) {
		_, _ = c.ResponseWriter().Write([]byte(echo("fi-chain", c) + "|tenant=" + t.name + "/" + t.id))
	}))
	// services by interface (app level: found in the shared Flame injector; request level: in the request's own)
	f.Get("/svc/greet/{n}", func(c flamego.Context, g greeter) string {
		return "greet|" + g.Greet(c.Param("n")) + "|" + echoParams(c)
	})
	f.Get("/svc/clock/{n}", func(c flamego.Context, k clock, l *log.Logger) string {
		l.Print("clock", "n", c.Param("n"))
		return "clock|" + k.Tick() + "|" + echoParams(c)
	})
	f.Get("/svc/all/{n}", func(c flamego.Context, g greeter, k clock, z sizer, w whoami, r flamego.Render) {
		runtime.Gosched()
		r.PlainText(http.StatusOK, fmt.Sprintf("all|%s|%s|%d|%s|hdr=%s", g.Greet(c.Param("n")), k.Tick(), z.Size(c.Param("n")), w.Who(), c.Request().Header.Get("X-Req-Id")))
	})
	f.Post("/svc/size/{n}", func(c flamego.Context, z sizer, w whoami) (int, string) {
		return http.StatusCreated, fmt.Sprintf("size|%d|%s", z.Size(c.Param("n")), w.Who())
	})
	f.Get("/svc/who/{n}", func(w whoami, rs *reqScoped, l *log.Logger) string {
		l.Print("who", "id", rs.ID)
		return "who|" + w.Who() + "|" + rs.ID
	})
	f.Get("/svc/log/{n}", func(c flamego.Context, l *log.Logger) (int, string) {
		l.Print("log", "n", c.Param("n"))
		return http.StatusOK, "log|" + echoParams(c)
	})
	f.NotFound(func(c flamego.Context) (int, string) { return http.StatusNotFound, echo("notfound", c) })
	return f
}

func concRequests(r *rand.Rand, n int) []concReq {
	words := []string{"alice", "bob", "x", "42", "007", "a-b", "zed", "%41", "q.r", "long-name-0123456789"}
	w := func() string { return words[r.Intn(len(words))] }
	var out []concReq
	for i := 0; i < n; i++ {
		q := concReq{Method: "GET", Header: map[string]string{"X-Req-Id": fmt.Sprintf("r%d", i)}}
		switch k := r.Intn(50); k {
		case 0:
			q.Kind, q.Path = "static-root", "/"
		case 1:
			q.Kind, q.Path = "static-deep", "/static/deep/path"
		case 2:
			q.Kind, q.Path = "placeholder", "/users/"+w()
		case 3:
			q.Kind, q.Path = "regex", fmt.Sprintf("/posts/%d", r.Intn(1000))
		case 4:
			q.Kind, q.Path = "regex-fallback", "/posts/"+w()
		case 5:
			q.Kind, q.Path = "multi-bind", "/pair/"+w()+"-"+strings.Repeat("k", 1+r.Intn(3))
		case 6:
			q.Kind, q.Path = "match-all", "/files/"+w()+"/"+w()+"/"+w()
		case 7:
			q.Kind, q.Path = "match-all-capture", "/cap/"+w()+"/"+w()+"/end"
		case 8:
			q.Kind, q.Path = "match-all-capture-over", "/cap/"+w()+"/"+w()+"/"+w()+"/end"
		case 9:
			q.Kind, q.Path = "optional-long", "/opt/"+w()+"/"+w()
		case 10:
			q.Kind, q.Path = "optional-short", "/opt/"+w()
		case 11:
			q.Kind, q.Path = "header-match", "/hdr/"+w()
			q.Header["X-Kind"] = "abc"
		case 12:
			q.Kind, q.Path = "header-miss", "/hdr/"+w()
			q.Header["X-Kind"] = "zzz"
		case 13:
			q.Kind, q.Path = "any", "/any/"+w()
			q.Method = []string{"GET", "POST", "PUT", "DELETE", "PATCH"}[r.Intn(5)]
		case 14:
			q.Kind, q.Path = "combo", "/combo/"+w()
			q.Method = []string{"GET", "POST", "PUT"}[r.Intn(3)]
		case 15:
			q.Kind, q.Path = "scoped", "/scoped/"+w()
		case 16:
			q.Kind, q.Path = "scoped-chain", "/scoped/chain/"+w()
		case 17:
			q.Kind, q.Path = "urlpath", "/link/"+w()
		case 18:
			q.Kind, q.Path = "render-json", "/json/"+w()
		case 19:
			q.Kind, q.Path = "render-text", "/text/"+w()
		case 20:
			q.Kind, q.Path = "panic", "/panic/"+w()
		case 21:
			q.Kind, q.Path = "redirect", "/redir/"+w()
		case 22:
			q.Kind, q.Path = "cookie", "/cookie/"+w()
			q.Header["Cookie"] = "in=" + w()
		case 23:
			q.Kind, q.Path = "query", fmt.Sprintf("/query?a=%s&n=%d&m=%s&m=%s", w(), r.Intn(99), w(), w())
		case 24:
			q.Kind = "static-file"
			q.Path = []string{"/assets/a.txt", "/assets/", "/assets/sub/b.txt", "/assets/missing.txt", "/assets/sub"}[r.Intn(5)]
			if r.Intn(3) == 0 {
				q.Method = "HEAD"
			}
		case 25:
			q.Kind, q.Path = "svc-iface-two-impl", "/svc/greet/"+w()
		case 26:
			q.Kind, q.Path = "svc-iface-logger", "/svc/clock/"+w()
		case 27:
			q.Kind, q.Path = "svc-iface-all-render", "/svc/all/"+w()
		case 28:
			q.Kind, q.Path, q.Method = "svc-iface-post", "/svc/size/"+w(), "POST"
		case 29:
			q.Kind, q.Path = "svc-request-scoped-iface", "/svc/who/"+w()
		case 30:
			q.Kind, q.Path = "svc-logger", "/svc/log/"+w()
		case 31:
			q.Kind, q.Path = "params-store-static", "/tenant"
			if r.Intn(3) == 0 {
				q.Method = "POST"
			}
		case 32:
			q.Kind, q.Path = "params-store-static-deep", "/tenant/fixed/path"
		case 33:
			q.Kind, q.Path = "params-store-dynamic", "/tenant/dyn/"+w()
		case 34:
			q.Kind, q.Path = "params-store-match-all", "/tenant/all/"+w()+"/"+w()
		case 35:
			q.Kind, q.Path = "fi-context-invoker", "/fi/ctx/"+w()
		case 36:
			q.Kind, q.Path = "fi-logger-invoker", "/fi/log/"+w()
		case 37, 38:
			q.Kind, q.Path = "fi-custom", []string{"/fi/custom/", "/fi/chain/"}[r.Intn(2)]+w()
			q.Header["X-Tenant"] = w()
		case 39:
			q.Kind, q.Path = "fi-custom-missing", []string{"/fi/custom/", "/fi/chain/"}[r.Intn(2)]+w() // no X-Tenant: injection fails
		case 41:
			// the same two value strings under the two constrained names, either way round (only one way satisfies both)
			q.Kind, q.Path = "header-two-names", "/hdr2/"+w()
			a, b := []string{"2", "7", "x"}[r.Intn(3)], []string{"2", "7", "x"}[r.Intn(3)]
			q.Header["X-Api-Version"], q.Header["X-Shard"] = a, b
		case 42:
			// a method no route was registered for, and one the framework has never heard of: serving must not create
			// anything for it
			q.Kind, q.Path = "method-without-routes", []string{"/users/" + w(), "/", "/nowhere"}[r.Intn(3)]
			q.Method = []string{"OPTIONS", "TRACE", "CONNECT", "PROPFIND", "brew", "LOCK", "M-SEARCH"}[r.Intn(7)]
		case 43, 44:
			// a regex segment with several binds (some with capturing groups of their own), as a leaf or inside the tree
			if len(concRx) > 0 {
				q.Kind = "regex-multi-bind"
				q.Path, _ = concRx[r.Intn(len(concRx))].mk(w()+strconv.Itoa(i), w())
			} else {
				q.Kind, q.Path = "not-found", "/nowhere/"+w()
			}
		case 45, 46:
			// answered by a Before hook of the Flame (with a body / with a bare status / with nothing); the last two are
			// near misses that go on to the router
			q.Kind = "before-hook"
			q.Path = []string{"/healthz", "/healthz", "/ping/" + w(), "/ping/quiet", "/healthz/" + w(), "/ping"}[r.Intn(6)]
			q.Method = []string{"GET", "GET", "HEAD", "POST"}[r.Intn(4)]
		case 40:
			// not found AFTER the matcher has bound something: a leading bind segment matches, a later segment fails
			q.Kind = "not-found-after-bind"
			q.Path = []string{"/users/" + w() + "/extra", "/pair/" + w() + "-kk/extra", "/opt/" + w() + "/" + w() + "/" + w(), "/cap/" + w() + "/" + w() + "/nope", "/tenant/dyn/" + w() + "/x", "/posts/7/zz"}[r.Intn(6)]
		default:
			q.Kind, q.Path = "not-found", "/nowhere/"+w()
			if r.Intn(2) == 0 {
				q.Method = "HEAD"
				q.Path = "/users/" + w()
				q.Kind = "auto-head"
			}
		}
		if r.Intn(12) == 0 {
			// what a reverse proxy adds: nothing a request announces about ITSELF may change how any other request is served
			k := r.Intn(7)
			q.Header[[]string{"X-Forwarded-Prefix", "X-Forwarded-For", "X-Real-IP", "X-Forwarded-Host", "X-Http-Method-Override", "X-Original-URL", "X-Forwarded-Proto"}[k]] =
				[]string{"/users", "10.1.2.3", "10.9.8.7", "other.example", "DELETE", "/tenant", "https"}[k]
		}
		out = append(out, q)
	}
	return out
}

func serveOne(f *flamego.Flame, q concReq) concResp {
	req := httptest.NewRequest(q.Method, q.Path, nil)
	for k, v := range q.Header {
		req.Header.Set(k, v)
	}
	rec := httptest.NewRecorder()
	f.ServeHTTP(rec, req)
	var hs []string
	for k, vs := range rec.Header() {
		for _, v := range vs {
			hs = append(hs, k+": "+v)
		}
	}
	sort.Strings(hs)
	return concResp{Status: rec.Code, Header: hs, Body: rec.Body.String()}
}

func sameResp(a, b concResp) bool {
	if a.Status != b.Status || a.Body != b.Body || len(a.Header) != len(b.Header) {
		return false
	}
	for i := range a.Header {
		if a.Header[i] != b.Header[i] {
			return false
		}
	}
	return true
}

func concMain(args []string) {
	if len(args) < 3 {
		fatal("usage: harness conc <seed> <tier> <outdir>")
	}
	seed, tier, dir := int64(atoi(args[0])), args[1], args[2]
	if err := os.MkdirAll(filepath.Join(dir, "public", "sub"), 0o755); err != nil {
		fatal(err)
	}
	for name, body := range map[string]string{"a.txt": "file a\n", "index.html": "<p>index</p>\n", "sub/b.txt": "file b\n"} {
		if err := os.WriteFile(filepath.Join(dir, "public", name), []byte(body), 0o644); err != nil {
			fatal(err)
		}
	}
	workers, distinct, rounds, twins := 8, 400, 3, 8
	if tier == "thorough" {
		workers, distinct, rounds, twins = 32, 1200, 5, 24
	}
	r := rand.New(rand.NewSource(seed))
	concRx = genConcRx(rand.New(rand.NewSource(seed + 7919)))
	f := buildConcApp(filepath.Join(dir, "public"))
	cold := buildConcApp(filepath.Join(dir, "public")) // ---- set-up ends here
	reqs := concRequests(r, distinct)

	// serial pass, twice: the serial outcome itself must be repeatable (else the comparison means nothing)
	serial := make([]concResp, len(reqs))
	kinds := map[string]int{}
	statuses := map[int]int{}
	for i, q := range reqs {
		serial[i] = serveOne(f, q)
		kinds[q.Kind]++
		statuses[serial[i].Status]++
	}
	// "served alone" taken literally: the same request on an instance that has served nothing else. A request served
	// AFTER others on one instance (no overlap at all) must already get that answer — state carried from one request
	// to the next (a recycled parameter map, a shared renderer) shows here deterministically, before any goroutine starts.
	for i, q := range reqs {
		if alone := serveOne(buildConcApp(filepath.Join(dir, "public")), q); !sameResp(alone, serial[i]) {
			out, _ := json.MarshalIndent(map[string]interface{}{"what": "a response served after other requests on the same instance differs from the response the same request gets on an instance that served nothing else",
				"pass": "serial", "request": q, "alone": alone, "after_others": serial[i], "position_in_serial_pass": i, "seed": seed, "tier": tier}, "", " ")
			_ = os.WriteFile(filepath.Join(dir, "divergence.json"), out, 0o644)
			fmt.Println(`{"result":"divergent","pass":"serial"}`)
			os.Exit(1)
		}
	}
	for i, q := range reqs {
		if again := serveOne(f, q); !sameResp(again, serial[i]) {
			// The first time round this request got, on this instance, the answer it gets on an instance that served nothing
			// else (checked above). If an instance that served nothing else STILL gives that answer, the handlers of this
			// application are repeatable and it is the instance that changed while serving: state carried from earlier
			// requests (this very request included) into a later one.
			if alone := serveOne(buildConcApp(filepath.Join(dir, "public")), q); sameResp(alone, serial[i]) {
				out, _ := json.MarshalIndent(map[string]interface{}{"what": "a response served after other requests on the same instance (the whole mix, this request included, was served once before) differs from the response the same request gets on an instance that served nothing else",
					"pass": "serial, second time round", "request": q, "alone": alone, "after_others": again, "position_in_serial_pass": i, "seed": seed, "tier": tier}, "", " ")
				_ = os.WriteFile(filepath.Join(dir, "divergence.json"), out, 0o644)
				fmt.Println(`{"result":"divergent","pass":"serial-again"}`)
				os.Exit(1)
			}
			out, _ := json.MarshalIndent(map[string]interface{}{"what": "the SERIAL outcome is not repeatable (harness problem or a stateful route)",
				"request": q, "first": serial[i], "second": again}, "", " ")
			_ = os.WriteFile(filepath.Join(dir, "divergence.json"), out, 0o644)
			fmt.Println(`{"result":"serial-not-repeatable"}`)
			os.Exit(3)
		}
	}

	// concurrent passes: first against a COLD twin (same set-up, nothing served yet: lazily initialised state such
	// as the sync.Once string caches is filled under contention), then against the Flame that served the serial pass
	var served int64
	var failed atomic.Bool
	var failing, fast []int // failed injections (500) and fast-invoker / params-storing requests that echo their own id
	for i, q := range reqs {
		if q.Kind == "fi-custom-missing" {
			failing = append(failing, i)
		}
		if strings.HasPrefix(q.Kind, "fi-") || strings.HasPrefix(q.Kind, "params-store") {
			fast = append(fast, i)
		}
	}
	var lazy []int // requests whose first service makes the framework fill something lazily (injector search, Once strings)
	for i, q := range reqs {
		if strings.HasPrefix(q.Kind, "svc-") || q.Kind == "urlpath" || q.Kind == "scoped" || q.Kind == "render-json" || q.Kind == "method-without-routes" {
			lazy = append(lazy, i)
		}
	}
	// burst > 0: a short pass meant for a FRESH instance — every goroutine starts at the same instant (barrier) with a
	// few `lazy` requests, so that first lookups overlap with other requests' reads of the same shared structures
	pass := func(app *flamego.Flame, label string, salt int64, burst int) {
		var once sync.Once
		var wg, ready sync.WaitGroup
		start := make(chan struct{})
		ready.Add(workers)
		for wk := 0; wk < workers; wk++ {
			order := make([]int, 0, len(reqs)*rounds/workers+1)
			pr := rand.New(rand.NewSource(seed*1000 + salt*100 + int64(wk)))
			if burst > 0 {
				if len(failing) > 0 { // an injection failure first, then many fast-invoker calls
					order = append(order, failing[pr.Intn(len(failing))])
				}
				for k := 0; k < 4 && len(lazy) > 0; k++ {
					order = append(order, lazy[pr.Intn(len(lazy))])
				}
				for k := 0; k < 12 && len(fast) > 0; k++ {
					order = append(order, fast[pr.Intn(len(fast))])
				}
				for k := 0; k < burst; k++ {
					order = append(order, pr.Intn(len(reqs)))
				}
			} else {
				for k := 0; k < rounds; k++ {
					for _, i := range pr.Perm(len(reqs)) {
						if (i+k)%workers == wk || pr.Intn(workers) == 0 {
							order = append(order, i)
						}
					}
				}
			}
			wg.Add(1)
			go func(wk int, order []int) {
				defer wg.Done()
				ready.Done()
				<-start
				for _, i := range order {
					if failed.Load() {
						return
					}
					got := serveOne(app, reqs[i])
					atomic.AddInt64(&served, 1)
					if !sameResp(got, serial[i]) {
						failed.Store(true)
						once.Do(func() {
							out, _ := json.MarshalIndent(map[string]interface{}{
								"what":    "a response served concurrently differs from the response the same request gets when served alone",
								"pass":    label,
								"request": reqs[i], "serial": serial[i], "concurrent": got, "worker": wk, "seed": seed, "tier": tier,
							}, "", " ")
							_ = os.WriteFile(filepath.Join(dir, "divergence.json"), out, 0o644)
						})
						return
					}
				}
			}(wk, order)
		}
		ready.Wait() // all goroutines exist and are parked on `start`
		close(start)
		wg.Wait()
	}
	for t := 0; t < twins && !failed.Load(); t++ {
		fresh := buildConcApp(filepath.Join(dir, "public"))
		pass(fresh, fmt.Sprintf("fresh twin #%d, burst start (nothing served before)", t), int64(10+t), 24)
	}
	if !failed.Load() {
		pass(cold, "cold twin (nothing served before), full mix", 1, 0)
	}
	if !failed.Load() {
		pass(f, "the Flame that served the serial pass", 2, 0)
	}
	sum := map[string]interface{}{"result": "ok", "goroutines": workers, "distinct_requests": len(reqs), "served_concurrently": served,
		"request_kinds": kinds, "statuses": statuses, "gomaxprocs": runtime.GOMAXPROCS(0), "fresh_twins": twins}
	if failed.Load() {
		sum["result"] = "divergent"
	}
	out, _ := json.Marshal(sum)
	fmt.Println(string(out))
	if failed.Load() {
		os.Exit(1)
	}
}
