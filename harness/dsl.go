package main

// C11 — registration programs (Group / Combo / Routes / Any / AutoHead / Get…Trace / Route, panics
// raised inside group bodies and recovered by the caller) executed against a REAL Flame twice:
// once as written and once as the flat sequence of f.Route(singleMethod, fullPath, allHandlers)
// calls computed by this file's own flattening (flatRun, which never calls Group/Combo/Routes/
// Any/AutoHead/Get…); then probe requests are served by both.  A Headers() call on the *Route a declaration returned
// is, in the flat list, the same call on the *Route of every single-method registration that declaration stands for
// (Get under AutoHead returns the GET route only), made once all of them are registered.
//
//	NEW dsl <m|x> <wrap 0|1>     m: also compared with the Lean model; x: rich paths, program vs flat only
//	S route <method> <path> <ids> | S verb <name> <path> <ids> | S any <path> <ids>
//	S routes <path> <methods> <args> | S combo <path> <ids> <calls>
//	S group <path> <ids> … S end | S recover … S end | S autohead <0|1> | S panic      -> "s"
//	S headers <k:v,k:v,…|->              mode x only, right after a route / verb / any / routes line: .Headers(k, v, …) is
//	                                     called on the *Route that declaration returned (several lines = several calls)
//	RUN                                  -> "run <outcome> <recovered panics> <eq|NEQ>"   (x: "run x <eq|NEQ>")
//	Q <method> <route> <request path>    -> "<reg <handler trace>|none> <eq|NEQ>"          (x: "x <eq|NEQ>")
//	Q <method> <route> <request path> <k:v,…>   mode x only: the request carries these header fields
//
// strings are hex; ids are "1.2.3" or "-"; args are "s:<hex>,f:<id>,…"; calls are "post:5.6;put:-".
// Handler k appends k to the per-request trace and returns nothing; its Go type is chosen by
// k%3 (func(Context) / func(ResponseWriter,*Request) / func(Context,*Request) — the last one is
// not a fast-invoker shape, so an installed HandlerWrapper applies to it; the wrapper records 0).
// "reg" is observed behaviourally: the request was dispatched (200) to the leaf whose route
// text is <route>; the trace is what ran.  eq/NEQ: status, trace and sorted params of the
// program's router against the flat router's.

import (
	"fmt"
	"io"
	"math/rand"
	"net/http"
	"net/http/httptest"
	"sort"
	"strconv"
	"strings"

	"github.com/flamego/flamego"
)

func init() {
	execs["dsl"] = execDsl
	gens["C11"] = genDsl
}

// ------------------------------------------------------------------------------------ AST

type dArg struct {
	str bool
	s   string
	id  int
}

type dCall struct {
	verb string
	ids  []int
	hs   []flamego.Handler
}

type dStmt struct {
	kind    string // route verb any routes combo group autohead panic recover
	method  string // route: the method string; verb: get|post|…
	path    string
	methods string
	ids     []int
	args    []dArg
	calls   []dCall
	on      bool
	body    []*dStmt

	hs   []flamego.Handler // prepared handler slice (spare capacity / shared backing array)
	argv []flamego.Handler // routes: strings and funcs
	hdrs [][]string        // the Headers() calls made on the returned *Route, each a list of key, expression, …
	gp   dPath             // generator only: the FULL path of a call (all enclosing group paths ++ its own)
	own  dPath             // generator only: the statement's own path (calls and groups)
}

var dVerbs = []string{"get", "post", "put", "delete", "patch", "options", "head", "connect", "trace"}
var dMethodsAll = []string{"GET", "POST", "PUT", "DELETE", "PATCH", "OPTIONS", "HEAD", "CONNECT", "TRACE"}

func dIds(ids []int) string {
	if len(ids) == 0 {
		return "-"
	}
	p := make([]string, len(ids))
	for i, v := range ids {
		p[i] = strconv.Itoa(v)
	}
	return strings.Join(p, ".")
}

// dNat: a non-empty string of at most 9 decimal digits
func dNat(s string) (int, bool) {
	if s == "" || len(s) > 9 {
		return 0, false
	}
	n := 0
	for _, c := range s {
		if c < '0' || c > '9' {
			return 0, false
		}
		n = n*10 + int(c-'0')
	}
	return n, true
}

func dParseIds(s string) ([]int, bool) {
	if s == "-" {
		return nil, true
	}
	var out []int
	for _, p := range strings.Split(s, ".") {
		n, ok := dNat(p)
		if !ok {
			return nil, false
		}
		out = append(out, n)
	}
	return out, true
}

func dHexOK(s string) (string, bool) {
	if s == "-" {
		return "", true
	}
	if len(s)%2 != 0 {
		return "", false
	}
	for _, c := range s {
		if !(c >= '0' && c <= '9' || c >= 'a' && c <= 'f' || c >= 'A' && c <= 'F') {
			return "", false
		}
	}
	return unhx(strings.ToLower(s)), true
}

func dIsVerb(v string) bool {
	for _, x := range dVerbs {
		if x == v {
			return true
		}
	}
	return false
}

func dPairs(ps []string) string {
	if len(ps) == 0 {
		return "-"
	}
	var out []string
	for i := 0; i+1 < len(ps); i += 2 {
		out = append(out, hx(ps[i])+":"+hx(ps[i+1]))
	}
	return strings.Join(out, ",")
}

// dParsePairs: "-" or a comma list of <hex>:<hex>
func dParsePairs(s string) ([]string, bool) {
	if s == "-" {
		return nil, true
	}
	var out []string
	for _, it := range strings.Split(s, ",") {
		kv := strings.Split(it, ":")
		if len(kv) != 2 {
			return nil, false
		}
		k, ok1 := dHexOK(kv[0])
		v, ok2 := dHexOK(kv[1])
		if !ok1 || !ok2 {
			return nil, false
		}
		out = append(out, k, v)
	}
	return out, true
}

func dReturnsRoute(kind string) bool {
	return kind == "route" || kind == "verb" || kind == "any" || kind == "routes"
}

func emitStmts(emit Emit, ss []*dStmt) {
	for _, s := range ss {
		switch s.kind {
		case "route":
			emit("S route %s %s %s", hx(s.method), hx(s.path), dIds(s.ids))
		case "verb":
			emit("S verb %s %s %s", s.method, hx(s.path), dIds(s.ids))
		case "any":
			emit("S any %s %s", hx(s.path), dIds(s.ids))
		case "routes":
			var a []string
			for _, x := range s.args {
				if x.str {
					a = append(a, "s:"+hx(x.s))
				} else {
					a = append(a, "f:"+strconv.Itoa(x.id))
				}
			}
			as := "-"
			if len(a) > 0 {
				as = strings.Join(a, ",")
			}
			emit("S routes %s %s %s", hx(s.path), hx(s.methods), as)
		case "combo":
			var c []string
			for _, x := range s.calls {
				c = append(c, x.verb+":"+dIds(x.ids))
			}
			cs := "-"
			if len(c) > 0 {
				cs = strings.Join(c, ";")
			}
			emit("S combo %s %s %s", hx(s.path), dIds(s.ids), cs)
		case "group":
			emit("S group %s %s", hx(s.path), dIds(s.ids))
			emitStmts(emit, s.body)
			emit("S end")
		case "recover":
			emit("S recover")
			emitStmts(emit, s.body)
			emit("S end")
		case "autohead":
			b := 0
			if s.on {
				b = 1
			}
			emit("S autohead %d", b)
		case "panic":
			emit("S panic")
		}
		for _, h := range s.hdrs {
			emit("S headers %s", dPairs(h))
		}
	}
}

// dParseLine parses one `S …` line; open=+1 for group/recover, -1 for end
func dParseLine(l []string) (st *dStmt, open int, ok bool) {
	if len(l) < 2 || l[0] != "S" {
		return nil, 0, false
	}
	switch {
	case l[1] == "route" && len(l) == 5:
		m, ok1 := dHexOK(l[2])
		p, ok2 := dHexOK(l[3])
		ids, ok3 := dParseIds(l[4])
		return &dStmt{kind: "route", method: m, path: p, ids: ids}, 0, ok1 && ok2 && ok3
	case l[1] == "verb" && len(l) == 5:
		p, ok2 := dHexOK(l[3])
		ids, ok3 := dParseIds(l[4])
		return &dStmt{kind: "verb", method: l[2], path: p, ids: ids}, 0, dIsVerb(l[2]) && ok2 && ok3
	case l[1] == "any" && len(l) == 4:
		p, ok2 := dHexOK(l[2])
		ids, ok3 := dParseIds(l[3])
		return &dStmt{kind: "any", path: p, ids: ids}, 0, ok2 && ok3
	case l[1] == "routes" && len(l) == 5:
		p, ok1 := dHexOK(l[2])
		ms, ok2 := dHexOK(l[3])
		s := &dStmt{kind: "routes", path: p, methods: ms}
		if l[4] != "-" {
			for _, a := range strings.Split(l[4], ",") {
				switch {
				case strings.HasPrefix(a, "s:"):
					v, ok := dHexOK(a[2:])
					if !ok {
						return nil, 0, false
					}
					s.args = append(s.args, dArg{str: true, s: v})
				case strings.HasPrefix(a, "f:"):
					n, ok := dNat(a[2:])
					if !ok {
						return nil, 0, false
					}
					s.args = append(s.args, dArg{id: n})
				default:
					return nil, 0, false
				}
			}
		}
		return s, 0, ok1 && ok2
	case l[1] == "combo" && len(l) == 5:
		p, ok1 := dHexOK(l[2])
		ids, ok2 := dParseIds(l[3])
		s := &dStmt{kind: "combo", path: p, ids: ids}
		if l[4] != "-" {
			for _, c := range strings.Split(l[4], ";") {
				i := strings.IndexByte(c, ':')
				if i < 0 || !dIsVerb(c[:i]) {
					return nil, 0, false
				}
				cids, ok := dParseIds(c[i+1:])
				if !ok {
					return nil, 0, false
				}
				s.calls = append(s.calls, dCall{verb: c[:i], ids: cids})
			}
		}
		return s, 0, ok1 && ok2
	case l[1] == "group" && len(l) == 4:
		p, ok1 := dHexOK(l[2])
		ids, ok2 := dParseIds(l[3])
		return &dStmt{kind: "group", path: p, ids: ids}, 1, ok1 && ok2
	case l[1] == "recover" && len(l) == 2:
		return &dStmt{kind: "recover"}, 1, true
	case l[1] == "end" && len(l) == 2:
		return nil, -1, true
	case l[1] == "autohead" && len(l) == 3 && (l[2] == "0" || l[2] == "1"):
		return &dStmt{kind: "autohead", on: l[2] == "1"}, 0, true
	case l[1] == "panic" && len(l) == 2:
		return &dStmt{kind: "panic"}, 0, true
	}
	return nil, 0, false
}

// ------------------------------------------------------------------------- running for real

type dRec struct {
	trace  []int
	seen   bool
	params map[string]string
}

var dCur *dRec

type dUserPanic struct{}
type dTok string // a panic raised by flatRun for an error its own reading of the program detects

func dToken(r interface{}) string {
	switch v := r.(type) {
	case dUserPanic:
		return "user"
	case dTok:
		return string(v)
	case string:
		switch {
		case strings.HasPrefix(v, "unknown HTTP method"):
			return "unknownMethod"
		case strings.HasPrefix(v, "unable to parse route"), strings.HasPrefix(v, "unable to add route"):
			return "rejected"
		case strings.HasPrefix(v, "empty methods"):
			return "emptyMethods"
		case strings.HasPrefix(v, "handler must be a callable function"):
			return "badHandler"
		case strings.HasPrefix(v, "duplicated method"):
			return "comboDup"
		}
		return "other-panic"
	}
	return "other-panic"
}

type dRun struct {
	f      *flamego.Flame
	caught []string
	arena  []flamego.Handler
	n      int
}

func dNewFlame(wrap bool) *flamego.Flame {
	f := flamego.NewWithLogger(io.Discard)
	f.Use(func(c flamego.Context) {
		dCur.seen = true
		dCur.params = map[string]string{}
		for k, v := range c.Params() {
			dCur.params[k] = v
		}
	})
	if wrap {
		f.HandlerWrapper(func(h flamego.Handler) flamego.Handler {
			return func(c flamego.Context, r *http.Request) {
				dCur.trace = append(dCur.trace, 0)
				_, _ = c.Invoke(h)
			}
		})
	}
	return f
}

func dHandler(id int) flamego.Handler {
	switch id % 3 {
	case 0:
		return func(c flamego.Context) { dCur.trace = append(dCur.trace, id) }
	case 1:
		return func(w http.ResponseWriter, r *http.Request) { dCur.trace = append(dCur.trace, id) }
	default:
		return func(c flamego.Context, r *http.Request) { dCur.trace = append(dCur.trace, id) }
	}
}

// slice builds the handler slice for one call site: exact, with spare capacity, or cut out of a
// shared arena (its capacity then runs into the slices prepared after it).
func (x *dRun) slice(ids []int) []flamego.Handler {
	x.n++
	switch x.n % 3 {
	case 0:
		hs := make([]flamego.Handler, 0, len(ids))
		for _, id := range ids {
			hs = append(hs, dHandler(id))
		}
		return hs
	case 1:
		hs := make([]flamego.Handler, 0, len(ids)+4)
		for _, id := range ids {
			hs = append(hs, dHandler(id))
		}
		return hs
	default:
		start := len(x.arena)
		for _, id := range ids {
			x.arena = append(x.arena, dHandler(id))
		}
		return x.arena[start:len(x.arena)]
	}
}

func (x *dRun) prepare(ss []*dStmt) {
	for _, s := range ss {
		switch s.kind {
		case "routes":
			s.argv = make([]flamego.Handler, 0, len(s.args)+3)
			for _, a := range s.args {
				if a.str {
					s.argv = append(s.argv, a.s)
				} else {
					s.argv = append(s.argv, dHandler(a.id))
				}
			}
		case "combo":
			s.hs = x.slice(s.ids)
			for i := range s.calls {
				s.calls[i].hs = x.slice(s.calls[i].ids)
			}
		case "group":
			s.hs = x.slice(s.ids)
			x.prepare(s.body)
		case "recover":
			x.prepare(s.body)
		case "route", "verb", "any":
			s.hs = x.slice(s.ids)
		}
	}
}

func dVerbFn(f *flamego.Flame, v string) func(string, ...flamego.Handler) *flamego.Route {
	switch v {
	case "get":
		return f.Get
	case "post":
		return f.Post
	case "put":
		return f.Put
	case "delete":
		return f.Delete
	case "patch":
		return f.Patch
	case "options":
		return f.Options
	case "head":
		return f.Head
	case "connect":
		return f.Connect
	}
	return f.Trace
}

func dComboFn(c *flamego.ComboRoute, v string) func(...flamego.Handler) *flamego.ComboRoute {
	switch v {
	case "get":
		return c.Get
	case "post":
		return c.Post
	case "put":
		return c.Put
	case "delete":
		return c.Delete
	case "patch":
		return c.Patch
	case "options":
		return c.Options
	case "head":
		return c.Head
	case "connect":
		return c.Connect
	}
	return c.Trace
}

// dHeaders makes the statement's Headers() calls on the routes given (the one *Route the declaration returned; in the
// flat reading the *Route of every single-method registration it stands for)
func dHeaders(s *dStmt, rts ...*flamego.Route) {
	for _, h := range s.hdrs {
		for _, rt := range rts {
			rt.Headers(h...)
		}
	}
}

// exec runs the program as written, through the DSL of the real router
func (x *dRun) exec(ss []*dStmt) {
	f := x.f
	for _, s := range ss {
		s := s
		switch s.kind {
		case "route":
			dHeaders(s, f.Route(s.method, s.path, s.hs))
		case "verb":
			dHeaders(s, dVerbFn(f, s.method)(s.path, s.hs...))
		case "any":
			dHeaders(s, f.Any(s.path, s.hs...))
		case "routes":
			dHeaders(s, f.Routes(s.path, s.methods, s.argv...))
		case "combo":
			c := f.Combo(s.path, s.hs...)
			for _, cl := range s.calls {
				dComboFn(c, cl.verb)(cl.hs...)
			}
		case "group":
			f.Group(s.path, func() { x.exec(s.body) }, s.hs...)
		case "autohead":
			f.AutoHead(s.on)
		case "panic":
			panic(dUserPanic{})
		case "recover":
			func() {
				defer func() {
					if r := recover(); r != nil {
						x.caught = append(x.caught, dToken(r))
					}
				}()
				x.exec(s.body)
			}()
		}
	}
}

// ---------------------------------------------------------------- the harness's own flattening

func dMethodsOf(m string) []string {
	u := strings.ToUpper(m)
	if u == "*" {
		return dMethodsAll
	}
	for _, k := range dMethodsAll {
		if k == u {
			return []string{k}
		}
	}
	return nil
}

// flatRoute: one f.Route per single method, fresh exact slices, full path, full handler list
func (x *dRun) flatRoute(method, path string, ids []int) (rts []*flamego.Route) {
	ms := dMethodsOf(method)
	if ms == nil {
		panic(dTok("unknownMethod"))
	}
	for _, m := range ms {
		hs := make([]flamego.Handler, 0, len(ids))
		for _, id := range ids {
			hs = append(hs, dHandler(id))
		}
		rts = append(rts, x.f.Route(m, path, hs))
	}
	return rts
}

func dCat(a, b []int) []int {
	out := make([]int, 0, len(a)+len(b))
	out = append(out, a...)
	return append(out, b...)
}

// flatRun reads the program with the group prefix as an environment; only the AutoHead flag is
// carried from statement to statement (in `ah`, never in the router).
func (x *dRun) flatRun(ss []*dStmt, pfx string, hpfx []int, ah *bool) {
	verb := func(v, path string, ids []int) []*flamego.Route {
		rts := x.flatRoute(strings.ToUpper(v), pfx+path, dCat(hpfx, ids))
		if v == "get" && *ah {
			x.flatRoute("HEAD", pfx+path, dCat(hpfx, ids)) // Get returns the GET route; the HEAD twin is a registration of its own
		}
		return rts
	}
	for _, s := range ss {
		switch s.kind {
		case "route":
			dHeaders(s, x.flatRoute(s.method, pfx+s.path, dCat(hpfx, s.ids))...)
		case "verb":
			dHeaders(s, verb(s.method, s.path, s.ids)...)
		case "any":
			var rts []*flamego.Route
			for _, m := range dMethodsAll {
				rts = append(rts, x.flatRoute(m, pfx+s.path, dCat(hpfx, s.ids))...)
			}
			dHeaders(s, rts...)
		case "routes":
			if s.methods == "" {
				panic(dTok("emptyMethods"))
			}
			var ms []string
			for _, m := range strings.Split(s.methods, ",") {
				ms = append(ms, strings.TrimSpace(m))
			}
			i := 0
			for i < len(s.args) && s.args[i].str {
				ms = append(ms, s.args[i].s)
				i++
			}
			var ids []int
			if i == len(s.args) && i > 0 {
				panic(dTok("badHandler")) // nothing but strings: they all stay handlers
			}
			for _, a := range s.args[i:] {
				if a.str {
					panic(dTok("badHandler"))
				}
				ids = append(ids, a.id)
			}
			var rts []*flamego.Route
			for _, m := range ms {
				rts = append(rts, x.flatRoute(m, pfx+s.path, dCat(hpfx, ids))...)
			}
			dHeaders(s, rts...)
		case "combo":
			seen := map[string]bool{}
			for _, cl := range s.calls {
				if seen[cl.verb] {
					panic(dTok("comboDup"))
				}
				seen[cl.verb] = true
				verb(cl.verb, s.path, dCat(s.ids, cl.ids))
			}
		case "group":
			x.flatRun(s.body, pfx+s.path, dCat(hpfx, s.ids), ah)
		case "autohead":
			*ah = s.on
		case "panic":
			panic(dUserPanic{})
		case "recover":
			func() {
				defer func() {
					if r := recover(); r != nil {
						x.caught = append(x.caught, dToken(r))
					}
				}()
				x.flatRun(s.body, pfx, hpfx, ah)
			}()
		}
	}
}

func dTop(run func()) (tok string) {
	defer func() {
		if r := recover(); r != nil {
			tok = dToken(r)
		}
	}()
	run()
	return "ok"
}

func dServe(f *flamego.Flame, method, path string, hdr []string) (int, *dRec) {
	rec := &dRec{}
	dCur = rec
	w := httptest.NewRecorder()
	req, err := http.NewRequest(method, "http://h/", nil)
	if err != nil {
		return -1, rec
	}
	req.URL.Path = path
	for i := 0; i+1 < len(hdr); i += 2 {
		req.Header.Add(hdr[i], hdr[i+1])
	}
	code := -2
	func() {
		defer func() {
			if r := recover(); r != nil {
				code = -3
			}
		}()
		f.ServeHTTP(w, req)
		code = w.Code
	}()
	return code, rec
}

func dParams(m map[string]string) string {
	ks := make([]string, 0, len(m))
	for k := range m {
		ks = append(ks, k)
	}
	sort.Strings(ks)
	var b strings.Builder
	for _, k := range ks {
		fmt.Fprintf(&b, "%s=%s;", hx(k), hx(m[k]))
	}
	return b.String()
}

func execDsl(args []string, lines [][]string) []string {
	model := len(args) > 0 && args[0] == "m"
	wrap := len(args) > 1 && args[1] == "1"
	outs := []string{"new"}
	// build the tree
	type frame struct {
		st   *dStmt
		body []*dStmt
	}
	stack := []frame{{}}
	bad := false
	ran := false
	var prog []*dStmt
	var fp, ff *flamego.Flame
	for _, l := range lines {
		switch {
		case len(l) > 0 && l[0] == "S":
			if ran {
				outs = append(outs, "bad-op")
				continue
			}
			if len(l) == 3 && l[1] == "headers" {
				// a call on what the LAST declaration of the open block returned
				body := stack[len(stack)-1].body
				pairs, ok := dParsePairs(l[2])
				if model || !ok || len(body) == 0 || !dReturnsRoute(body[len(body)-1].kind) {
					bad = true
					outs = append(outs, "bad-op")
					continue
				}
				last := body[len(body)-1]
				last.hdrs = append(last.hdrs, pairs)
				outs = append(outs, "s")
				continue
			}
			st, open, ok := dParseLine(l)
			if !ok || (open == -1 && len(stack) == 1) {
				bad = true
				outs = append(outs, "bad-op")
				continue
			}
			switch open {
			case 1:
				stack = append(stack, frame{st: st})
			case -1:
				top := stack[len(stack)-1]
				stack = stack[:len(stack)-1]
				top.st.body = top.body
				stack[len(stack)-1].body = append(stack[len(stack)-1].body, top.st)
			default:
				stack[len(stack)-1].body = append(stack[len(stack)-1].body, st)
			}
			outs = append(outs, "s")
		case len(l) == 1 && l[0] == "RUN":
			if bad || len(stack) != 1 || ran {
				bad = true
				outs = append(outs, "bad-program")
				continue
			}
			ran = true
			prog = stack[0].body
			px := &dRun{f: dNewFlame(wrap), arena: make([]flamego.Handler, 0, 4096)}
			px.prepare(prog)
			fp = px.f
			ptok := dTop(func() { px.exec(prog) })
			fx := &dRun{f: dNewFlame(wrap)}
			ff = fx.f
			ah := false
			ftok := dTop(func() { fx.flatRun(prog, "", nil, &ah) })
			verdict := "eq"
			if ptok != ftok || strings.Join(px.caught, ",") != strings.Join(fx.caught, ",") {
				verdict = "NEQ"
			}
			if model {
				c := "-"
				if len(px.caught) > 0 {
					c = strings.Join(px.caught, ",")
				}
				outs = append(outs, fmt.Sprintf("run %s %s %s", ptok, c, verdict))
			} else {
				outs = append(outs, "run x "+verdict)
			}
		case (len(l) == 4 || len(l) == 5 && !model) && l[0] == "Q":
			if bad || !ran {
				outs = append(outs, "bad-program")
				continue
			}
			route, ok1 := dHexOK(l[2])
			reqp, ok2 := dHexOK(l[3])
			var hdr []string
			ok3 := true
			if len(l) == 5 {
				hdr, ok3 = dParsePairs(l[4])
			}
			if !ok1 || !ok2 || !ok3 {
				outs = append(outs, "bad-op")
				continue
			}
			c1, r1 := dServe(fp, l[1], reqp, hdr)
			c2, r2 := dServe(ff, l[1], reqp, hdr)
			verdict := "eq"
			if c1 != c2 || dIds(r1.trace) != dIds(r2.trace) || r1.seen != r2.seen || dParams(r1.params) != dParams(r2.params) {
				verdict = "NEQ"
			}
			if model {
				obs := "none"
				if c1 == 200 && r1.seen && r1.params["route"] == route {
					obs = "reg " + dIds(r1.trace)
				}
				outs = append(outs, obs+" "+verdict)
			} else {
				outs = append(outs, "x "+verdict)
			}
		default:
			outs = append(outs, "bad-op")
		}
	}
	return outs
}

// ------------------------------------------------------------------------------- generators

// a path as the generator knows it: the route text, a request path that instantiates it, and
// (when the last segment is optional) the request path of the short form
type dPath struct {
	text, long, short string
	opt               bool
}

func (a dPath) cat(b dPath) dPath {
	return dPath{text: a.text + b.text, long: a.long + b.long, short: a.long + b.short, opt: b.opt}
}

type dGen struct {
	r    *rand.Rand
	mode string
	next int // next handler id
}

func (g *dGen) ids(max int) []int {
	n := g.r.Intn(max + 1)
	var out []int
	for i := 0; i < n; i++ {
		g.next++
		out = append(out, g.next)
	}
	return out
}

// segM: a segment for mode m — static from a small alphabet, or the placeholder `{p<abs>}`
// (bind names are a function of the absolute position, so two routes never differ only in a
// bind name and a request built from a route text can be dispatched to that route only)
func (g *dGen) segM(abs int, alphabet []string) dPath {
	if g.r.Intn(10) < 3 {
		return dPath{text: fmt.Sprintf("/{p%d}", abs), long: fmt.Sprintf("/v%d", abs)}
	}
	a := alphabet[g.r.Intn(len(alphabet))]
	return dPath{text: "/" + a, long: "/" + a}
}

var dRichSegs = []dPath{
	{text: "/a", long: "/a"}, {text: "/b", long: "/b"}, {text: "/a.b", long: "/a.b"},
	{text: "/{x}", long: "/vx"}, {text: "/{y}", long: "/vy"},
	{text: "/{n: /[0-9]+/}", long: "/42"}, {text: "/{s: /[a-z]+/}", long: "/abc"},
	{text: "/u-{x}", long: "/u-7"}, {text: "/{w: **}", long: "/m1/m2"}, {text: "/{**}", long: "/m3"},
	{text: "/", long: "/"}, {text: "", long: ""}, {text: "c", long: "c"}, {text: "/{", long: "/{"},
	// slashes on both sides of a joint between a group's path and what is declared inside it (two, three or more in a row)
	{text: "/g/", long: "/g/"}, {text: "//b", long: "//b"}, {text: "/h//", long: "/h//"},
}

func (g *dGen) path(abs int, group bool) (dPath, int) {
	if g.mode == "x" {
		if group && g.r.Intn(4) == 0 {
			// a group whose path ENDS in one or two slashes: whatever is declared inside starts with a slash of its own,
			// so the joint has two, three or four in a row (an empty inner segment each time beyond the first)
			return []dPath{{text: "/g/", long: "/g/"}, {text: "/h//", long: "/h//"}}[g.r.Intn(2)], abs + 1
		}
		n := 1 + g.r.Intn(2)
		p := dPath{}
		for i := 0; i < n; i++ {
			s := dRichSegs[g.r.Intn(len(dRichSegs))]
			if g.r.Intn(3) > 0 {
				s = dRichSegs[g.r.Intn(7)]
			}
			p = p.cat(s)
		}
		if !group && g.r.Intn(8) == 0 {
			o := []dPath{{text: "/?o1", long: "/o1", short: "", opt: true}, {text: "/?{z}", long: "/vz", short: "", opt: true}}[g.r.Intn(2)]
			p = p.cat(o)
		}
		return p, abs + n
	}
	alphabet := []string{"a", "b", "c"}
	if group {
		alphabet = []string{"g", "h"}
	}
	if !group && abs > 0 && g.r.Intn(12) == 0 {
		return dPath{}, abs // own path "" inside a group
	}
	n := 1 + g.r.Intn(2)
	p := dPath{}
	for i := 0; i < n; i++ {
		p = p.cat(g.segM(abs+i, alphabet))
	}
	abs += n
	if !group && g.r.Intn(7) == 0 {
		o := fmt.Sprintf("o%d", 1+g.r.Intn(2))
		p = p.cat(dPath{text: "/?" + o, long: "/" + o, short: "", opt: true})
		abs++
	}
	return p, abs
}

var dRouteMethods = []string{"GET", "POST", "get", "Put", "*", "HEAD", "FOO", "", "OPTIONS", "patch", "trace", "CONNECT", "DELETE", "GET", "HEAD"}
var dRoutesMethods = []string{"GET", "GET,POST", "get, post", " PUT ,DELETE", "GET,,POST", "*", "", "GET,FOO", "HEAD", "GET,HEAD", "GET,GET", "POST,\tPATCH ", "head,get"}
var dExtraMethods = []string{"POST", "patch", "BAD", "HEAD", "PUT"}

// header constraints put on a declared route, and the header fields probe requests carry (each constraint set is
// satisfied by some of them and failed by others, an absent header included)
var dHdrCalls = [][]string{{"X-A", "1"}, {"X-A", "^1$", "X-B", ""}, {}, {"x-b", "a|b"}, {"X-A", "2"}, {"X-A", "1"}}
var dReqHdrs = [][]string{{"X-A", "1"}, {"X-A", "2"}, {"X-A", "1", "X-B", "a"}, {"X-B", "b"}}

// stmt: in mode x a declaration that returns a *Route is, one time in three, followed by Headers() on it (sometimes by
// a second call, which replaces the first)
func (g *dGen) stmt(depth, abs int, chain dPath) *dStmt {
	s := g.stmt0(depth, abs, chain)
	if g.mode == "x" && dReturnsRoute(s.kind) && g.r.Intn(3) == 0 {
		s.hdrs = append(s.hdrs, dHdrCalls[g.r.Intn(len(dHdrCalls))])
		if g.r.Intn(5) == 0 {
			s.hdrs = append(s.hdrs, dHdrCalls[g.r.Intn(len(dHdrCalls))])
		}
	}
	return s
}

func dHasHdrs(ss []*dStmt) bool {
	for _, s := range ss {
		if len(s.hdrs) > 0 || dHasHdrs(s.body) {
			return true
		}
	}
	return false
}

func (g *dGen) stmt0(depth, abs int, chain dPath) *dStmt {
	k := g.r.Intn(100)
	switch {
	case k < 26:
		p, _ := g.path(abs, false)
		return &dStmt{kind: "verb", method: dVerbs[g.r.Intn(len(dVerbs))], path: p.text, ids: g.ids(2), own: p, gp: chain.cat(p)}
	case k < 32:
		// Get is the interesting verb
		p, _ := g.path(abs, false)
		return &dStmt{kind: "verb", method: "get", path: p.text, ids: g.ids(2), own: p, gp: chain.cat(p)}
	case k < 41:
		p, _ := g.path(abs, false)
		return &dStmt{kind: "route", method: dRouteMethods[g.r.Intn(len(dRouteMethods))], path: p.text, ids: g.ids(2), own: p, gp: chain.cat(p)}
	case k < 45:
		p, _ := g.path(abs, false)
		return &dStmt{kind: "any", path: p.text, ids: g.ids(2), own: p, gp: chain.cat(p)}
	case k < 56:
		p, _ := g.path(abs, false)
		s := &dStmt{kind: "routes", path: p.text, methods: dRoutesMethods[g.r.Intn(len(dRoutesMethods))], own: p, gp: chain.cat(p)}
		if g.r.Intn(3) == 0 {
			for i := g.r.Intn(3); i > 0; i-- {
				s.args = append(s.args, dArg{str: true, s: dExtraMethods[g.r.Intn(len(dExtraMethods))]})
			}
		}
		for _, id := range g.ids(2) {
			s.args = append(s.args, dArg{id: id})
		}
		if g.r.Intn(20) == 0 {
			s.args = append(s.args, dArg{str: true, s: "GET"})
		}
		return s
	case k < 68:
		p, _ := g.path(abs, false)
		s := &dStmt{kind: "combo", path: p.text, ids: g.ids(2), own: p, gp: chain.cat(p)}
		n := 1 + g.r.Intn(4)
		for i := 0; i < n; i++ {
			v := dVerbs[g.r.Intn(len(dVerbs))]
			if g.r.Intn(3) == 0 {
				v = []string{"get", "head", "post"}[g.r.Intn(3)]
			}
			s.calls = append(s.calls, dCall{verb: v, ids: g.ids(2)})
		}
		return s
	case k < 84 && depth < 3:
		p, abs2 := g.path(abs, true)
		gids := g.ids(2)
		if g.r.Intn(8) == 0 {
			// Group("", fn) — and half of the time with no handlers either: contributes nothing
			// to its routes, but is still a level of the stack
			p, abs2 = dPath{}, abs
			if g.r.Intn(2) == 0 {
				gids = nil
			}
		}
		s := &dStmt{kind: "group", path: p.text, ids: gids, own: p}
		s.body = g.block(depth+1, abs2, chain.cat(p), 1+g.r.Intn(3))
		if g.r.Intn(5) == 0 {
			// a panic somewhere in the body, recovered by the caller
			i := g.r.Intn(len(s.body) + 1)
			s.body = append(s.body[:i:i], append([]*dStmt{{kind: "panic"}}, s.body[i:]...)...)
			return &dStmt{kind: "recover", body: []*dStmt{s}}
		}
		if g.r.Intn(4) == 0 {
			return &dStmt{kind: "recover", body: []*dStmt{s}}
		}
		return s
	case k < 92:
		return &dStmt{kind: "autohead", on: g.r.Intn(3) > 0}
	case k < 97:
		return &dStmt{kind: "recover", body: g.block(depth, abs, chain, 1+g.r.Intn(2))}
	default:
		if depth == 0 {
			return &dStmt{kind: "autohead", on: true}
		}
		return &dStmt{kind: "panic"}
	}
}

func (g *dGen) block(depth, abs int, chain dPath, n int) []*dStmt {
	var out []*dStmt
	for i := 0; i < n; i++ {
		out = append(out, g.stmt(depth, abs, chain))
	}
	return out
}

// candidate (route text, request paths) pairs to probe
type dCand struct {
	route string
	reqs  []string
}

func dCandOf(p dPath) dCand {
	c := dCand{route: p.text, reqs: []string{p.long}}
	if p.opt {
		c.reqs = append(c.reqs, p.short)
	}
	return c
}

// every call's full path, and the methods the program mentions
func dCollect(ss []*dStmt, out *[]dCand, methods map[string]bool) {
	for _, s := range ss {
		switch s.kind {
		case "group", "recover":
			dCollect(s.body, out, methods)
		case "route", "verb", "any", "routes", "combo":
			*out = append(*out, dCandOf(s.gp))
			switch s.kind {
			case "route":
				for _, m := range dMethodsOf(s.method) {
					methods[m] = true
				}
			case "verb":
				methods[strings.ToUpper(s.method)] = true
			case "combo":
				for _, c := range s.calls {
					methods[strings.ToUpper(c.verb)] = true
				}
			case "routes":
				for _, m := range strings.Split(s.methods, ",") {
					for _, k := range dMethodsOf(strings.TrimSpace(m)) {
						methods[k] = true
					}
				}
				for _, a := range s.args {
					if a.str {
						for _, k := range dMethodsOf(a.s) {
							methods[k] = true
						}
					}
				}
			}
		}
	}
}

// own path and the wrongly nested variants (used to notice a prefix that is missing, doubled
// or in the wrong order)
func dWrong(ss []*dStmt, chain []dPath, out *[]dCand) {
	for _, s := range ss {
		switch s.kind {
		case "group":
			dWrong(s.body, append(chain[:len(chain):len(chain)], s.own), out)
		case "recover":
			dWrong(s.body, chain, out)
		case "route", "verb", "any", "routes", "combo":
			variants := [][]dPath{}
			if len(chain) >= 1 {
				variants = append(variants, nil, chain[:len(chain)-1], append(chain[:len(chain):len(chain)], chain[len(chain)-1]))
			}
			if len(chain) >= 2 {
				rev := make([]dPath, len(chain))
				for i, c := range chain {
					rev[len(chain)-1-i] = c
				}
				variants = append(variants, rev, chain[1:])
			}
			for _, v := range variants {
				p := dPath{}
				for _, c := range v {
					p = p.cat(c)
				}
				p = p.cat(s.own)
				if p.text == "" {
					continue
				}
				*out = append(*out, dCandOf(p))
			}
		}
	}
}

func dEmitSession(emit Emit, mode string, wrap int, prog []*dStmt) {
	emit("NEW dsl %s %d", mode, wrap)
	emitStmts(emit, prog)
	emit("RUN")
	var cands, wrong []dCand
	methods := map[string]bool{"HEAD": true, "GET": true}
	dCollect(prog, &cands, methods)
	dWrong(prog, nil, &wrong)
	seen := map[string]bool{}
	hdrs := mode == "x" && dHasHdrs(prog)
	q := func(m string, c dCand) {
		for _, rq := range c.reqs {
			k := m + " " + c.route + " " + rq
			if seen[k] || rq == "" {
				continue
			}
			seen[k] = true
			emit("Q %s %s %s", m, hx(c.route), hx(rq))
			if hdrs && methods[m] {
				// some route of the program has header constraints: the same request under header fields that
				// satisfy / fail them (the request above carries none)
				for _, h := range dReqHdrs {
					emit("Q %s %s %s %s", m, hx(c.route), hx(rq), dPairs(h))
				}
			}
		}
	}
	for _, c := range cands {
		for _, m := range dMethodsAll {
			q(m, c)
		}
	}
	var ms []string
	for _, m := range dMethodsAll {
		if methods[m] {
			ms = append(ms, m)
		}
	}
	for _, c := range wrong {
		for _, m := range ms {
			q(m, c)
		}
	}
	// misses
	for i, c := range cands {
		if i >= 2 {
			break
		}
		q("GET", dCand{route: c.route + "/zz", reqs: []string{c.reqs[0] + "/zz"}})
	}
	q("POST", dCand{route: "/zz", reqs: []string{"/zz"}})
}

// ---- small-scope exhaustive: sequences of (wrapper × atom) items

func dAtoms(g *dGen) []func() *dStmt {
	id := func() int { g.next++; return g.next }
	P := func(t string) dPath { return dPath{text: t, long: t} }
	return []func() *dStmt{
		func() *dStmt {
			return &dStmt{kind: "verb", method: "get", path: "/a", ids: []int{id()}, own: P("/a"), gp: P("/a")}
		},
		func() *dStmt {
			return &dStmt{kind: "verb", method: "post", path: "/a", ids: []int{id(), id()}, own: P("/a"), gp: P("/a")}
		},
		func() *dStmt {
			return &dStmt{kind: "verb", method: "head", path: "/a", ids: []int{id()}, own: P("/a"), gp: P("/a")}
		},
		func() *dStmt {
			return &dStmt{kind: "route", method: "get", path: "/a", ids: []int{id()}, own: P("/a"), gp: P("/a")}
		},
		func() *dStmt {
			return &dStmt{kind: "route", method: "FOO", path: "/a", ids: []int{id()}, own: P("/a"), gp: P("/a")}
		},
		func() *dStmt { return &dStmt{kind: "any", path: "/b", ids: []int{id()}, own: P("/b"), gp: P("/b")} },
		func() *dStmt {
			return &dStmt{kind: "routes", path: "/a", methods: "GET, post", args: []dArg{{id: id()}}, own: P("/a"), gp: P("/a")}
		},
		func() *dStmt {
			return &dStmt{kind: "routes", path: "/b", methods: "GET", args: []dArg{{str: true, s: "PUT"}, {id: id()}, {id: id()}}, own: P("/b"), gp: P("/b")}
		},
		func() *dStmt {
			return &dStmt{kind: "routes", path: "/b", methods: "GET", args: []dArg{{str: true, s: "PUT"}}, own: P("/b"), gp: P("/b")}
		},
		func() *dStmt {
			return &dStmt{kind: "combo", path: "/c", ids: []int{id()}, calls: []dCall{{verb: "get", ids: []int{id()}}, {verb: "post", ids: []int{id()}}}, own: P("/c"), gp: P("/c")}
		},
		func() *dStmt {
			return &dStmt{kind: "combo", path: "/c", ids: []int{id()}, calls: []dCall{{verb: "get"}, {verb: "put", ids: []int{id()}}, {verb: "get", ids: []int{id()}}}, own: P("/c"), gp: P("/c")}
		},
		func() *dStmt {
			return &dStmt{kind: "combo", path: "/a", calls: []dCall{{verb: "post", ids: []int{id()}}, {verb: "put", ids: []int{id()}}, {verb: "delete", ids: []int{id()}}}, own: P("/a"), gp: P("/a")}
		},
		func() *dStmt { return &dStmt{kind: "autohead", on: true} },
		func() *dStmt { return &dStmt{kind: "autohead", on: false} },
		func() *dStmt {
			return &dStmt{kind: "verb", method: "get", path: "/a/?o1", ids: []int{id()}, own: dPath{text: "/a/?o1", long: "/a/o1", short: "/a", opt: true}, gp: dPath{text: "/a/?o1", long: "/a/o1", short: "/a", opt: true}}
		},
	}
}

// wrap an atom; the group paths are given with their request instantiation
func dWrapItem(g *dGen, w int, atom *dStmt) *dStmt {
	id := func() int { g.next++; return g.next }
	G := dPath{text: "/g", long: "/g"}
	H := dPath{text: "/{p1}", long: "/v1"}
	re := func(a *dStmt, chain dPath) *dStmt {
		switch a.kind {
		case "route", "verb", "any", "routes", "combo":
			a.gp = chain.cat(a.own)
		}
		return a
	}
	grp := func(p dPath, full dPath, body ...*dStmt) *dStmt {
		return &dStmt{kind: "group", path: p.text, ids: []int{id()}, body: body, own: p}
	}
	switch w {
	case 0:
		return atom
	case 1:
		return grp(G, G, re(atom, G))
	case 2:
		return grp(G, G, grp(H, G.cat(H), re(atom, G.cat(H))))
	case 3:
		return &dStmt{kind: "recover", body: []*dStmt{grp(G, G, re(atom, G), &dStmt{kind: "panic"})}}
	case 4:
		return &dStmt{kind: "recover", body: []*dStmt{grp(G, G, &dStmt{kind: "panic"}, re(atom, G))}}
	default:
		return &dStmt{kind: "recover", body: []*dStmt{atom}}
	}
}

// genDslSlice: n random registration programs (nested groups, recovered panics, Combo, Routes, Any, AutoHead) with
// their probe requests — appended to the router suites, whose routes would otherwise all be registered by bare
// Route calls: a route declared inside a group, or after a group whose callback panicked, must be dispatched and
// validated like any other
func genDslSlice(r *rand.Rand, emit Emit, n int) {
	g := &dGen{r: r, mode: "m"}
	for i := 0; i < n; i++ {
		g.mode, g.next = "m", 0
		if i%3 == 2 {
			// rich paths (binds, empty segments, slashes at the joints of groups): the program against its own flat
			// expansion on the real code
			g.mode = "x"
		}
		prog := g.block(0, 0, dPath{}, 1+r.Intn(5))
		dEmitSession(emit, g.mode, r.Intn(2), prog)
	}
}

func genDsl(r *rand.Rand, tier string, emit Emit) {
	g := &dGen{r: r, mode: "m"}
	nAtoms := len(dAtoms(g))
	const nWraps = 6
	type item struct{ w, a int }
	var items []item
	for w := 0; w < nWraps; w++ {
		for a := 0; a < nAtoms; a++ {
			items = append(items, item{w, a})
		}
	}
	build := func(seq []item) []*dStmt {
		g.next = 0
		var prog []*dStmt
		for _, it := range seq {
			prog = append(prog, dWrapItem(g, it.w, dAtoms(g)[it.a]()))
		}
		return prog
	}
	count := 0
	emitSeq := func(seq []item) {
		count++
		dEmitSession(emit, "m", count%2, build(seq))
	}
	// all sequences of one and two items
	for _, a := range items {
		emitSeq([]item{a})
	}
	for _, a := range items {
		for _, b := range items {
			emitSeq([]item{a, b})
		}
	}
	random, randomX := 1500, 400
	if tier == "thorough" {
		random, randomX = 40000, 8000
		// all sequences of three items over a reduced item set (every wrapper, the atoms that
		// interact: Get, Head, Routes, the two Combos, AutoHead on, the optional route)
		var red []item
		for _, it := range items {
			switch it.a {
			case 0, 2, 6, 9, 10, 12, 14:
				red = append(red, it)
			}
		}
		for _, a := range red {
			for _, b := range red {
				for _, c := range red {
					if r.Intn(4) == 0 { // a quarter of the 74k triples, chosen by the seed
						emitSeq([]item{a, b, c})
					}
				}
			}
		}
	}
	for i := 0; i < random; i++ {
		g.mode, g.next = "m", 0
		prog := g.block(0, 0, dPath{}, 1+r.Intn(5))
		dEmitSession(emit, "m", r.Intn(2), prog)
	}
	// Headers() on the *Route of every declaration form that returns one (a verb, Get under AutoHead, Route with one
	// method and with "*", Any, Routes with a comma list / further method strings / "*"), on a static path, a path with a
	// bind and a path with an optional segment, inside every wrapper (no group, one, two, groups that panic and are
	// recovered), under each constraint set: the program against its flat reading, requests with and without the headers
	{
		P := func(t, long, short string, opt bool) dPath { return dPath{text: t, long: long, short: short, opt: opt} }
		paths := []dPath{P("/a", "/a", "", false), P("/{x}", "/vx", "", false), P("/a/?o1", "/a/o1", "/a", true)}
		forms := []func(p dPath) []*dStmt{
			func(p dPath) []*dStmt { return []*dStmt{{kind: "verb", method: "post", path: p.text, ids: []int{1}, own: p, gp: p}} },
			func(p dPath) []*dStmt { return []*dStmt{{kind: "verb", method: "get", path: p.text, ids: []int{1}, own: p, gp: p}} },
			func(p dPath) []*dStmt {
				return []*dStmt{{kind: "autohead", on: true}, {kind: "verb", method: "get", path: p.text, ids: []int{1}, own: p, gp: p}}
			},
			func(p dPath) []*dStmt { return []*dStmt{{kind: "route", method: "GET", path: p.text, ids: []int{1}, own: p, gp: p}} },
			func(p dPath) []*dStmt { return []*dStmt{{kind: "route", method: "*", path: p.text, ids: []int{1}, own: p, gp: p}} },
			func(p dPath) []*dStmt { return []*dStmt{{kind: "any", path: p.text, ids: []int{1}, own: p, gp: p}} },
			func(p dPath) []*dStmt {
				return []*dStmt{{kind: "routes", path: p.text, methods: "GET, post", args: []dArg{{id: 1}}, own: p, gp: p}}
			},
			func(p dPath) []*dStmt {
				return []*dStmt{{kind: "routes", path: p.text, methods: "GET", args: []dArg{{str: true, s: "PUT"}, {str: true, s: "HEAD"}, {id: 1}}, own: p, gp: p}}
			},
			func(p dPath) []*dStmt {
				return []*dStmt{{kind: "routes", path: p.text, methods: "*", args: []dArg{{id: 1}}, own: p, gp: p}}
			},
		}
		n := 0
		for _, form := range forms {
			for _, p := range paths {
				for w := 0; w < nWraps; w++ {
					g.mode, g.next = "x", 10
					ss := form(p)
					decl := ss[len(ss)-1]
					decl.hdrs = [][]string{dHdrCalls[n%len(dHdrCalls)]}
					if n%7 == 3 {
						decl.hdrs = append(decl.hdrs, dHdrCalls[(n+1)%len(dHdrCalls)])
					}
					n++
					ss[len(ss)-1] = dWrapItem(g, w, decl)
					dEmitSession(emit, "x", n%2, ss)
				}
			}
		}
	}
	for i := 0; i < randomX; i++ {
		g.mode, g.next = "x", 0
		prog := g.block(0, 0, dPath{}, 1+r.Intn(5))
		dEmitSession(emit, "x", r.Intn(2), prog)
	}
}
