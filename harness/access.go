package main

// C18 — request accessors and the cookie round trip, on a real flamego instance.
//
// Session kind "access" (protocol: lean/Flamego/Driver/Access.lean). One instance per session:
//
//	GET /q            query accessors          (req.URL.RawQuery = arbitrary bytes)
//	GET /p/{v}        bind-parameter accessors (path = "/p/" + url.PathEscape(raw))
//	GET /a/{v: **}    bind-parameter accessors (path = "/a/" + url.PathEscape(raw))
//	GET /set, /get    SetCookie, then the Set-Cookie header's name=value fed back as Cookie
//
// The single registered handler runs the closure of the current operation, so every accessor is
// called inside a real handler, with the Context flamego built for a real *http.Request.

import (
	"fmt"
	"io"
	"log"
	"math"
	"math/rand"
	"net/http"
	"net/http/httptest"
	"net/url"
	"strconv"
	"strings"

	"github.com/flamego/flamego"
)

func init() {
	execs["access"] = execAccess
	log.SetOutput(io.Discard) // net/http logs every byte its cookie sanitiser drops
	gens["C18"] = genAccess
}

func errClass(err error) string {
	if err == nil {
		return "ok"
	}
	if ne, ok := err.(*strconv.NumError); ok {
		switch ne.Err {
		case strconv.ErrSyntax:
			return "syntax"
		case strconv.ErrRange:
			return "range"
		}
	}
	return "other"
}

func hexList(l []string) string {
	if len(l) == 0 {
		return "0 ."
	}
	hs := make([]string, len(l))
	for i, s := range l {
		hs[i] = hx(s)
	}
	return fmt.Sprintf("%d %s", len(l), strings.Join(hs, ","))
}

func b2i(b bool) int {
	if b {
		return 1
	}
	return 0
}

type accessEnv struct {
	f   *flamego.Flame
	cur func(c flamego.Context) string // the current operation, run inside the handler
	out string
	ran bool
}

func newAccessEnv() *accessEnv {
	e := &accessEnv{}
	e.f = flamego.NewWithLogger(io.Discard)
	h := func(c flamego.Context) {
		e.ran = true
		e.out = e.cur(c)
	}
	e.f.Get("/q", h)
	e.f.Get("/p/{v}", h)
	e.f.Get("/a/{v: **}", h)
	e.f.Get("/set", h)
	e.f.Get("/get", h)
	// a route that is only ever walked INTO: `/{w}/zz/…` requests end in not-found after `w` was captured
	e.f.Get("/{w}/zz/yy", h)
	return e
}

// serve runs op inside the handler for req; ok=false when no handler ran (not dispatched).
func (e *accessEnv) serve(req *http.Request, op func(c flamego.Context) string) (out string, rec *httptest.ResponseRecorder, ok bool) {
	e.cur, e.out, e.ran = op, "", false
	rec = httptest.NewRecorder()
	e.f.ServeHTTP(rec, req)
	return e.out, rec, e.ran
}

// clientCookieHeader is the user agent between two requests (Model/Access.lean `clientJar`): of every
// Set-Cookie line it keeps the name=value part before the first ';' (an empty line is ignored), stores it
// under the name before the first '=', a later cookie of an EQUAL name replacing the stored one, and sends
// everything back as one Cookie header joined with "; ".
func clientCookieHeader(setCookie []string) string {
	type entry struct{ name, nv string }
	var jar []entry
	for _, line := range setCookie {
		nv, _, _ := strings.Cut(line, ";")
		if nv == "" {
			continue
		}
		name, _, _ := strings.Cut(nv, "=")
		found := false
		for i := range jar {
			if jar[i].name == name {
				jar[i] = entry{name, nv}
				found = true
			}
		}
		if !found {
			jar = append(jar, entry{name, nv})
		}
	}
	nvs := make([]string, len(jar))
	for i, e := range jar {
		nvs[i] = e.nv
	}
	return strings.Join(nvs, "; ")
}

// def: "n" → nil, "d<payload>" → &payload
func defOf(s string) *string {
	if strings.HasPrefix(s, "d") {
		p := s[1:]
		return &p
	}
	return nil
}

func queryOp(acc, name string, d *string) func(c flamego.Context) string {
	return func(c flamego.Context) string {
		switch acc {
		case "s":
			if d != nil {
				return hx(c.Query(name, unhx(*d)))
			}
			return hx(c.Query(name))
		case "t":
			if d != nil {
				return hx(c.QueryTrim(name, unhx(*d)))
			}
			return hx(c.QueryTrim(name))
		case "u":
			if d != nil {
				return hx(c.QueryUnescape(name, unhx(*d)))
			}
			return hx(c.QueryUnescape(name))
		case "ss":
			if d != nil {
				dl := []string{}
				if *d != "" {
					for _, h := range strings.Split(*d, ",") {
						dl = append(dl, unhx(h))
					}
				}
				return hexList(c.QueryStrings(name, dl))
			}
			return hexList(c.QueryStrings(name))
		case "b":
			if d != nil {
				return strconv.Itoa(b2i(c.QueryBool(name, *d == "1")))
			}
			return strconv.Itoa(b2i(c.QueryBool(name)))
		case "i":
			if d != nil {
				return strconv.Itoa(c.QueryInt(name, atoi(*d)))
			}
			return strconv.Itoa(c.QueryInt(name))
		case "i64":
			if d != nil {
				dv, err := strconv.ParseInt(*d, 10, 64)
				if err != nil {
					panic("bad int64 default")
				}
				return strconv.FormatInt(c.QueryInt64(name, dv), 10)
			}
			return strconv.FormatInt(c.QueryInt64(name), 10)
		case "f":
			if d != nil {
				bits, err := strconv.ParseUint(*d, 10, 64)
				if err != nil {
					panic("bad float default")
				}
				return strconv.FormatUint(math.Float64bits(c.QueryFloat64(name, math.Float64frombits(bits))), 10)
			}
			return strconv.FormatUint(math.Float64bits(c.QueryFloat64(name)), 10)
		}
		return "bad-op"
	}
}

func paramOp(acc, name string) func(c flamego.Context) string {
	return func(c flamego.Context) string {
		switch acc {
		case "s":
			return hx(c.Param(name))
		case "i":
			return strconv.Itoa(c.ParamInt(name))
		case "i64":
			return strconv.FormatInt(c.ParamInt64(name), 10)
		}
		return "bad-op"
	}
}

func execAccess(args []string, lines [][]string) []string {
	e := newAccessEnv()
	// the two facts about the platform/standard library the theorems assume, monitored per session
	pf0, _ := strconv.ParseFloat("", 64)
	outs := []string{fmt.Sprintf("new %d %d", strconv.IntSize, math.Float64bits(pf0))}
	for _, l := range lines {
		o := "bad-op"
		func() {
			defer func() {
				if r := recover(); r != nil {
					o = "panic"
				}
			}()
			switch {
			case len(l) == 2 && l[0] == "QE":
				o = hx(url.QueryEscape(unhx(l[1])))
			case len(l) == 2 && l[0] == "QU":
				if s, err := url.QueryUnescape(unhx(l[1])); err != nil {
					o = "err"
				} else {
					o = hx(s)
				}
			case len(l) == 2 && l[0] == "PU":
				if s, err := url.PathUnescape(unhx(l[1])); err != nil {
					o = "err"
				} else {
					o = hx(s)
				}
			case len(l) == 2 && l[0] == "TS":
				o = hx(strings.TrimSpace(unhx(l[1])))
			case len(l) == 2 && l[0] == "AI":
				v, err := strconv.Atoi(unhx(l[1]))
				o = fmt.Sprintf("%d %s", v, errClass(err))
			case len(l) == 3 && l[0] == "PI":
				v, err := strconv.ParseInt(unhx(l[2]), 10, atoi(l[1]))
				o = fmt.Sprintf("%d %s", v, errClass(err))
			case len(l) == 2 && l[0] == "PB":
				v, err := strconv.ParseBool(unhx(l[1]))
				o = fmt.Sprintf("%d %d", b2i(v), b2i(err != nil))
			case len(l) == 3 && l[0] == "CS":
				o = hx((&http.Cookie{Name: unhx(l[1]), Value: unhx(l[2])}).String())
			case len(l) == 5 && l[0] == "Q":
				req := httptest.NewRequest("GET", "/q", nil)
				req.URL.RawQuery = unhx(l[2])
				out, _, ok := e.serve(req, queryOp(l[1], unhx(l[3]), defOf(l[4])))
				if !ok {
					out = "nomatch"
				}
				o = out
			case len(l) == 5 && l[0] == "P":
				prefix := "/a/"
				if l[2] == "p" {
					prefix = "/p/"
				}
				// history: a request that captured `w` on its way to not-found comes first; the parameter map of THIS
				// request must not know `w` (an absent bind parameter reads as the zero value)
				e.f.ServeHTTP(httptest.NewRecorder(), httptest.NewRequest("GET", "/4711/zz/nowhere", nil))
				req := httptest.NewRequest("GET", prefix+url.PathEscape(unhx(l[3])), nil)
				inner := paramOp(l[1], unhx(l[4]))
				out, _, ok := e.serve(req, func(c flamego.Context) string {
					leak := ""
					if c.Param("w") != "" || c.ParamInt("w") != 0 || len(c.Params()) > 2 {
						leak = " leak"
					}
					return inner(c) + leak
				})
				if !ok {
					out = "nomatch"
				}
				o = out
			case len(l) == 3 && l[0] == "C":
				name, v := unhx(l[1]), unhx(l[2])
				_, rec, ok := e.serve(httptest.NewRequest("GET", "/set", nil), func(c flamego.Context) string {
					c.SetCookie(http.Cookie{Name: name, Value: v})
					return ""
				})
				if !ok {
					o = "nomatch"
					return
				}
				hdr := rec.Header().Get("Set-Cookie")
				back, _, _ := strings.Cut(hdr, ";") // a client returns only name=value
				req := httptest.NewRequest("GET", "/get", nil)
				req.Header.Set("Cookie", back)
				out, _, ok := e.serve(req, func(c flamego.Context) string { return hx(c.Cookie(name)) })
				if !ok {
					o = "nomatch"
					return
				}
				o = out // only the value read back is the property's observable, not the header text
			case len(l) >= 3 && len(l)%2 == 1 && l[0] == "M": // several SetCookie calls on one response
				var names, vals []string
				for i := 1; i+1 < len(l); i += 2 {
					names = append(names, unhx(l[i]))
					vals = append(vals, unhx(l[i+1]))
				}
				_, rec, ok := e.serve(httptest.NewRequest("GET", "/set", nil), func(c flamego.Context) string {
					for i := range names {
						c.SetCookie(http.Cookie{Name: names[i], Value: vals[i]})
					}
					return ""
				})
				if !ok {
					o = "nomatch"
					return
				}
				req := httptest.NewRequest("GET", "/get", nil)
				req.Header.Set("Cookie", clientCookieHeader(rec.Header()["Set-Cookie"]))
				out, _, ok := e.serve(req, func(c flamego.Context) string {
					hs := make([]string, len(names))
					for i, n := range names {
						hs[i] = hx(c.Cookie(n))
					}
					return strings.Join(hs, ",")
				})
				if !ok {
					o = "nomatch"
					return
				}
				o = out
			case len(l) >= 2 && l[0] == "L":
				// cookies written at different moments of one response's life: by the handler before anything is sent, by a
				// function registered with ResponseWriter().Before (it runs inside the commit, before the status line), by
				// the handler after the commit.  The client stores the Set-Cookie lines it RECEIVED (the header block as
				// it left with the status line, or at the end of the request when the handler never wrote) and returns them.
				toks := l[1:]
				var names []string
				for _, t := range toks {
					p := strings.Split(t, ":")
					switch {
					case (p[0] == "sc" || p[0] == "bf") && len(p) == 3:
						names = append(names, unhx(p[1]))
						_ = unhx(p[2])
					case p[0] == "wh" && len(p) == 2 && atoi(p[1]) >= 200 && atoi(p[1]) <= 599:
					case (p[0] == "w" || p[0] == "fl") && len(p) == 1:
					default:
						return // bad-op
					}
				}
				_, rec, ok := e.serve(httptest.NewRequest("GET", "/set", nil), func(c flamego.Context) string {
					w := c.ResponseWriter()
					for _, t := range toks {
						p := strings.Split(t, ":")
						switch p[0] {
						case "sc":
							c.SetCookie(http.Cookie{Name: unhx(p[1]), Value: unhx(p[2])})
						case "bf":
							n, v := unhx(p[1]), unhx(p[2])
							w.Before(func(flamego.ResponseWriter) { c.SetCookie(http.Cookie{Name: n, Value: v}) })
						case "wh":
							w.WriteHeader(atoi(p[1]))
						case "w":
							_, _ = w.Write([]byte("x"))
						case "fl":
							w.Flush()
						}
					}
					return ""
				})
				if !ok {
					o = "nomatch"
					return
				}
				req := httptest.NewRequest("GET", "/get", nil)
				req.Header.Set("Cookie", clientCookieHeader(rec.Result().Header["Set-Cookie"]))
				out, _, ok := e.serve(req, func(c flamego.Context) string {
					hs := make([]string, len(names))
					for i, n := range names {
						hs[i] = hx(c.Cookie(n))
					}
					if len(hs) == 0 {
						return "none"
					}
					return strings.Join(hs, ",")
				})
				if !ok {
					o = "nomatch"
					return
				}
				o = out
			case len(l) >= 2 && l[0] == "KS":
				// one request whose Cookie header changes between reads (a middleware supplying a default cookie, a
				// refreshed session id, …): every read is a read of the request as it is at that moment
				req := httptest.NewRequest("GET", "/get", nil)
				if l[1] != "." {
					for _, h := range strings.Split(l[1], ",") {
						req.Header.Add("Cookie", unhx(h))
					}
				}
				toks := l[2:]
				for _, t := range toks {
					p := strings.Split(t, ":")
					switch {
					case (p[0] == "r" || p[0] == "s" || p[0] == "h") && len(p) == 2:
						_ = unhx(p[1])
					case p[0] == "a" && len(p) == 3:
						_, _ = unhx(p[1]), unhx(p[2])
					case p[0] == "d" && len(p) == 1:
					default:
						return // bad-op
					}
				}
				out, _, ok := e.serve(req, func(c flamego.Context) string {
					var reads []string
					for _, t := range toks {
						p := strings.Split(t, ":")
						switch p[0] {
						case "r":
							reads = append(reads, hx(c.Cookie(unhx(p[1]))))
						case "a":
							c.Request().AddCookie(&http.Cookie{Name: unhx(p[1]), Value: url.QueryEscape(unhx(p[2]))})
						case "s":
							c.Request().Header.Set("Cookie", unhx(p[1]))
						case "h":
							c.Request().Header.Add("Cookie", unhx(p[1]))
						case "d":
							c.Request().Header.Del("Cookie")
						}
					}
					if len(reads) == 0 {
						return "none"
					}
					return strings.Join(reads, ",")
				})
				if !ok {
					out = "nomatch"
				}
				o = out
			case len(l) >= 2 && l[0] == "QS":
				// the same for the query string: URL.RawQuery rewritten between reads
				req := httptest.NewRequest("GET", "/q", nil)
				req.URL.RawQuery = unhx(l[1])
				toks := l[2:]
				for _, t := range toks {
					p := strings.Split(t, ":")
					if !((p[0] == "r" || p[0] == "s") && len(p) == 2) {
						return // bad-op
					}
					_ = unhx(p[1])
				}
				out, _, ok := e.serve(req, func(c flamego.Context) string {
					var reads []string
					for _, t := range toks {
						p := strings.Split(t, ":")
						if p[0] == "r" {
							reads = append(reads, hx(c.Query(unhx(p[1]))))
						} else {
							c.Request().URL.RawQuery = unhx(p[1])
						}
					}
					if len(reads) == 0 {
						return "none"
					}
					return strings.Join(reads, ",")
				})
				if !ok {
					out = "nomatch"
				}
				o = out
			case len(l) == 4 && l[0] == "RA":
				req := httptest.NewRequest("GET", "/get", nil)
				if v := unhx(l[1]); v != "" {
					req.Header["X-Real-Ip"] = []string{v, "second-value"}
				}
				if v := unhx(l[2]); v != "" {
					req.Header["X-Forwarded-For"] = []string{v}
				}
				req.RemoteAddr = unhx(l[3])
				out, _, ok := e.serve(req, func(c flamego.Context) string { return hx(c.RemoteAddr()) })
				if !ok {
					out = "nomatch"
				}
				o = out
			case len(l) == 2 && l[0] == "BD":
				body := unhx(l[1])
				req := httptest.NewRequest("GET", "/get", strings.NewReader(body))
				out, _, ok := e.serve(req, func(c flamego.Context) string {
					b, err := c.Request().Body().Bytes()
					s, err2 := c.Request().Body().String() // the reader is drained by now: "" and no error
					if err != nil || err2 != nil || s != "" {
						return "err"
					}
					return hx(string(b))
				})
				if !ok {
					out = "nomatch"
				}
				o = out
			case (len(l) == 3 || len(l) == 4) && l[0] == "K": // one or two Cookie header lines
				name := unhx(l[len(l)-1])
				req := httptest.NewRequest("GET", "/get", nil)
				for _, h := range l[1 : len(l)-1] {
					req.Header.Add("Cookie", unhx(h))
				}
				out, _, ok := e.serve(req, func(c flamego.Context) string { return hx(c.Cookie(name)) })
				if !ok {
					out = "nomatch"
				}
				o = out
			}
		}()
		outs = append(outs, o)
	}
	return outs
}

// ------------------------------------------------------------------------------ generators

// byte strings that matter for the codecs, the cookie sanitiser and the number parsers
var accessPool = []string{
	"", "a", "abc", "A-Z_a.z~0", " ", "  ", "a b", " a ", "+", "a+b", "%", "%41", "%4", "%zz", "%2541", "%2B", "%20",
	"a%", "%%", "%e4%bd%a0", "\xe4\xbd\xa0", "\xff", "\x00", "\x7f", "\x80", "a\x00b", "\t", "\n", "\r\n", "\x0b\x0c",
	"\"", "\"q\"", "\"a b\"", ",", "a,b", ";", "a;b", "\\", "a\\b", "=", "a=b", "&", "a&b", "?", "#", "/", "a/b", "/a", "a/",
	"//", "%2F", "a%2Fb", "'", "<>", "{}", "|", "$", "@", ":", "!", "*", "()", "[]", "^", "`",
	"\xc2\xa0x\xc2\xa0", "\xc2\x85", "\xe2\x80\x83y\xe2\x80\xa8", "\xe3\x80\x80", "\xe1\x9a\x80", "\xe2\x81\x9f", "\xe2\x80\xaf",
	"\xe2\x80", "\x80 ", " \xc2", "\xa0", "\xe2\x80\x8b", "\xc2\xa0\xc2", "\x85",
	"0", "1", "-1", "+1", "7", "42", "-0", "+0", "007", "-007", "1_000", "0x10", "1e3", "1.5", " 1", "1 ", "١", "-", "+", "+-1", "--1",
	"9223372036854775807", "9223372036854775808", "-9223372036854775808", "-9223372036854775809", "+9223372036854775807",
	"18446744073709551615", "18446744073709551616", "18446744073709551615x", "18446744073709551616x", "-18446744073709551616x",
	"99999999999999999999", "99999999999999999999x", "-99999999999999999999", "-99999999999999999999 ", "1844674407370955162",
	"1844674407370955161", "18446744073709551609", "18446744073709551620", "00000000000000000000000001", "-00000000000000000000000001",
	"123456789012345678", "1234567890123456789", "-123456789012345678", "+12345678901234567", "12345678901234567x", "999999999999999999",
	"2147483647", "2147483648", "-2147483648", "4294967296",
	"*3", "*12", "*+7", "*007", "*1", "*256", "%2A3", "1e30", "Infinity", "10.0",
	"t", "T", "true", "TRUE", "True", "tRue", "f", "F", "false", "FALSE", "False", "fALSE", "yes", "no", "on", "2", "01", "true ",
	"0.0", "-0.0", "inf", "-Inf", "nan", "NaN", "1e400", "-1e400", "1e-400", "0x1p-2", "1_0.5", ".5", "5.", "+.e1", "3.14159", "1e",
	strings.Repeat("9", 40), strings.Repeat("a", 70), strings.Repeat(" ", 65), strings.Repeat("%", 3),
}

var accessBiased = []byte(" +%&=;,\"\\/-_.~019aAzZfFxX\t\n\r\x00\x7f\x80\xc2\xa0\xe2\xff")

func randBytes(r *rand.Rand, max int) string {
	n := r.Intn(max + 1)
	b := make([]byte, n)
	biased := r.Intn(3) > 0
	for i := range b {
		if biased {
			b[i] = accessBiased[r.Intn(len(accessBiased))]
		} else {
			b[i] = byte(r.Intn(256))
		}
	}
	return string(b)
}

func randDigits(r *rand.Rand) string {
	sign := []string{"", "", "-", "+"}[r.Intn(4)]
	n := 1 + r.Intn(24)
	b := make([]byte, n)
	for i := range b {
		b[i] = byte('0' + r.Intn(10))
	}
	s := sign + string(b)
	switch r.Intn(8) {
	case 0:
		s += string(accessBiased[r.Intn(len(accessBiased))])
	case 1:
		k := r.Intn(len(s) + 1)
		s = s[:k] + string(accessBiased[r.Intn(len(accessBiased))]) + s[k:]
	}
	return s
}

// near the signed and unsigned 64-bit limits
func randBoundary(r *rand.Rand) string {
	bases := []uint64{1 << 63, math.MaxUint64, 1 << 31, 1 << 32, 1844674407370955162, 0}
	v := bases[r.Intn(len(bases))] + uint64(r.Intn(5)) - 2
	s := strconv.FormatUint(v, 10)
	if r.Intn(4) == 0 {
		s += strconv.Itoa(r.Intn(10))
	}
	s = []string{"", "-", "+", "0", "-00"}[r.Intn(5)] + s
	if r.Intn(6) == 0 {
		s += []string{"x", " ", "_", ".", "e1"}[r.Intn(5)]
	}
	return s
}

func randValue(r *rand.Rand) string {
	switch k := r.Intn(10); {
	case k < 4:
		return accessPool[r.Intn(len(accessPool))]
	case k < 6:
		return randBytes(r, 12)
	case k < 8:
		return randDigits(r)
	case k < 9:
		return randBoundary(r)
	default:
		return accessPool[r.Intn(len(accessPool))] + accessPool[r.Intn(len(accessPool))]
	}
}

var accessKeys = []string{"k", "k", "k", "a", "kk", "K", "k k", "k%", "", "k;", "k=", "\xff", "route"}

var queryAccs = []string{"s", "t", "u", "ss", "b", "i", "i64", "f"}

var floatDefaults = []float64{0, 1.5, -2.25, math.Inf(1), math.Inf(-1), math.MaxFloat64, math.SmallestNonzeroFloat64, math.Copysign(0, -1)}

func randDefault(r *rand.Rand, acc string) string {
	if r.Intn(2) == 0 {
		return "n"
	}
	switch acc {
	case "s", "t", "u":
		return "d" + hx(randValue(r))
	case "ss":
		n := r.Intn(3)
		hs := make([]string, n)
		for i := range hs {
			hs[i] = hx(randValue(r))
		}
		return "d" + strings.Join(hs, ",")
	case "b":
		return "d" + strconv.Itoa(r.Intn(2))
	case "i", "i64":
		switch r.Intn(4) {
		case 0:
			return "d" + strconv.FormatInt(math.MinInt64, 10)
		case 1:
			return "d" + strconv.FormatInt(math.MaxInt64, 10)
		case 2:
			return "d0"
		}
		return "d" + strconv.FormatInt(r.Int63n(2000)-1000, 10)
	case "f":
		if r.Intn(3) == 0 {
			return "d" + strconv.FormatUint(math.Float64bits(r.NormFloat64()), 10)
		}
		return "d" + strconv.FormatUint(math.Float64bits(floatDefaults[r.Intn(len(floatDefaults))]), 10)
	}
	return "n"
}

// a mostly well-formed raw query: pairs escaped with url.QueryEscape, then sometimes damaged
func randRawQuery(r *rand.Rand, key string) string {
	n := r.Intn(4)
	var parts []string
	for i := 0; i < n; i++ {
		k := accessKeys[r.Intn(len(accessKeys))]
		if r.Intn(2) == 0 {
			k = key
		}
		if r.Intn(10) == 0 {
			// spellings of the SAME name other frameworks would accept as it (they are other names here)
			k = []string{key + "[]", key + "[0]", strings.ToUpper(key), " " + key, key + " ", key + "."}[r.Intn(6)]
		}
		v := randValue(r)
		var p string
		switch c := r.Intn(12); {
		case c < 8:
			p = url.QueryEscape(k) + "=" + url.QueryEscape(v)
		case c == 8:
			p = url.QueryEscape(k) // no '='
		case c == 9:
			p = k + "=" + v // raw, unescaped
		case c == 10:
			p = url.QueryEscape(k) + "=" + url.QueryEscape(v) + []string{"%", "%4", "%zz", ";", "=", "+"}[r.Intn(6)]
		default:
			p = url.QueryEscape(k) + "="
		}
		parts = append(parts, p)
	}
	sep := "&"
	if r.Intn(15) == 0 {
		sep = ";"
	}
	q := strings.Join(parts, sep)
	switch r.Intn(12) {
	case 0:
		q = "&" + q
	case 1:
		q += "&"
	case 2:
		q = strings.Replace(q, "&", "&&", 1)
	}
	return q
}

func randCookieLine(r *rand.Rand, name string) string {
	n := 1 + r.Intn(3)
	var parts []string
	for i := 0; i < n; i++ {
		k := []string{name, name, "a", "b", "", "k k", "k\"", "ké"}[r.Intn(8)]
		v := randValue(r)
		switch c := r.Intn(10); {
		case c < 4:
			v = url.QueryEscape(v)
		case c < 6:
			v = "\"" + url.QueryEscape(v) + "\""
		case c < 7:
			v = "\"" + v + "\""
		}
		p := k + "=" + v
		switch r.Intn(10) {
		case 0:
			p = k
		case 1:
			p = " " + k + " = " + v + " "
		case 2:
			p = k + "\t=" + v
		}
		parts = append(parts, p)
	}
	sep := []string{"; ", ";", " ; ", ";;", ", "}[r.Intn(5)]
	return strings.Join(parts, sep)
}

var multiPool = []string{"session", "session_id", "sess", "a", "ab", "abc", "b", "k", "kk", "sid", "id", "a.b", "a.", "K"}

// 2..4 SetCookie calls on one response; names with prefix relations, equal names and unrelated names
func randMulti(r *rand.Rand) string {
	n := 2 + r.Intn(3)
	var sb strings.Builder
	for i := 0; i < n; i++ {
		name := multiPool[r.Intn(len(multiPool))]
		if r.Intn(25) == 0 {
			name = []string{"", "k k", "k=", "k;"}[r.Intn(4)]
		}
		fmt.Fprintf(&sb, " %s %s", hx(name), hx(randValue(r)))
	}
	return sb.String()
}

func genAccess(r *rand.Rand, tier string, emit Emit) {
	thorough := tier == "thorough"
	count := 0
	op := func(format string, a ...interface{}) {
		if count%8 == 0 {
			emit("NEW access")
		}
		count++
		emit(format, a...)
	}
	codec := func(s string) {
		h := hx(s)
		op("QE %s", h)
		op("QU %s", h)
		op("PU %s", h)
		op("C %s %s", hx("k"), h)
	}
	nums := func(s string) {
		h := hx(s)
		op("AI %s", h)
		op("PI 64 %s", h)
		op("PI 0 %s", h)
		op("PB %s", h)
	}

	// ---- small scope, exhaustive: every string of length ≤ 1 over all 256 bytes, of length 2 over the
	// special bytes (all 65536 in the thorough tier) through the codecs and the cookie round trip
	codec("")
	for a := 0; a < 256; a++ {
		codec(string([]byte{byte(a)}))
		op("TS %s", hx(string([]byte{byte(a)})))
		op("CS %s %s", hx("k"), hx(string([]byte{byte(a)})))
		op("CS %s %s", hx(string([]byte{byte(a)})), hx("v"))
		op("P s p %s %s", hx(string([]byte{byte(a)})), hx("v"))
		op("Q s %s %s n", hx("k="+string([]byte{byte(a)})), hx("k"))
		op("K %s %s", hx("k="+string([]byte{byte(a)})), hx("k"))
	}
	if thorough {
		for a := 0; a < 256; a++ {
			for b := 0; b < 256; b++ {
				codec(string([]byte{byte(a), byte(b)}))
			}
		}
	} else {
		for _, a := range accessBiased {
			for _, b := range accessBiased {
				codec(string([]byte{a, b}))
			}
		}
	}
	// %XY for every pair of special bytes (escape validation), and three-byte windows around '%'
	for _, a := range accessBiased {
		for _, b := range accessBiased {
			s := "%" + string([]byte{a, b})
			op("QU %s", hx(s))
			op("PU %s", hx(s))
			op("QU %s", hx("x"+s+"y"))
		}
	}
	// every string of length ≤ 3 (4 in thorough) over a number alphabet through the number parsers
	alpha := []byte("+-019_x ")
	maxLen := 3
	if thorough {
		maxLen = 4
	}
	var rec func(s []byte)
	rec = func(s []byte) {
		nums(string(s))
		op("TS %s", hx(string(s)))
		if len(s) == maxLen {
			return
		}
		for _, c := range alpha {
			rec(append(s[:len(s):len(s)], c))
		}
	}
	rec(nil)
	// RemoteAddr: every shape of Request.RemoteAddr (no colon, only colons, IPv6, odd bytes) x header presence
	addrs := []string{"", ":", "::", "1.2.3.4:5", "1.2.3.4", "[::1]:2830", "::1", "host:", ":80", "a:b:c", "\xff:\x00", "[fe80::1%eth0]:443", "x"}
	for _, a := range addrs {
		for _, x := range []string{"", "10.0.0.9", " ", "a:b"} {
			for _, f := range []string{"", "10.0.0.1, 10.0.0.2", ":"} {
				op("RA %s %s %s", hx(x), hx(f), hx(a))
			}
		}
	}
	for _, s := range accessPool {
		op("RA - - %s", hx(s))
		op("RA - - %s", hx(s+":"+s))
		op("RA %s %s %s", hx(s), hx(s), hx("h:1"))
		op("BD %s", hx(s))
	}
	// the whole pool through everything, every accessor with and without a default
	for _, s := range accessPool {
		codec(s)
		nums(s)
		op("TS %s", hx(s))
		op("TS %s", hx(" \t"+s+"\n "))
		op("CS %s %s", hx("k"), hx(s))
		op("K %s %s", hx("k="+s), hx("k"))
		op("K %s %s", hx("a=1; k="+s+"; k=zz"), hx("k"))
		for _, acc := range queryAccs {
			for _, d := range []string{"n", randDefault(r, acc), randDefault(r, acc)} {
				op("Q %s %s %s %s", acc, hx("k="+url.QueryEscape(s)), hx("k"), d)
				op("Q %s %s %s %s", acc, hx("k="+s), hx("k"), d)
			}
		}
		for _, acc := range []string{"s", "i", "i64"} {
			op("P %s p %s %s", acc, hx(s), hx("v"))
			op("P %s a %s %s", acc, hx(s), hx("v"))
		}
	}
	// absent and empty, every accessor, with and without default
	for _, acc := range queryAccs {
		for i := 0; i < 6; i++ {
			d := randDefault(r, acc)
			for _, q := range []string{"", "k", "k=", "a=1", "k=&k=2", "a=1&k=", "K=1", "k=%zz", "k;=1", "k=1;", "%zz=1&k=3"} {
				op("Q %s %s %s %s", acc, hx(q), hx("k"), d)
			}
		}
	}
	for _, acc := range []string{"s", "i", "i64"} {
		op("P %s p %s %s", acc, hx("12"), hx("w"))
		op("P %s a %s %s", acc, hx("12"), hx("route"))
		op("P %s a - %s", acc, hx("v"))
	}

	// several cookies on one response: every ordered tuple of 2..3 (4 in thorough) names over a pool with
	// prefix relations, equal names and unrelated names, each write with its own marker value
	multiNames := []string{"a", "ab", "abc", "b"}
	maxTuple := 3
	if thorough {
		maxTuple = 4
	}
	var tup func(ns []string)
	tup = func(ns []string) {
		if len(ns) >= 2 {
			var sb strings.Builder
			for i, n := range ns {
				fmt.Fprintf(&sb, " %s %s", hx(n), hx(fmt.Sprintf("v%d %s;", i, n)))
			}
			op("M%s", sb.String())
		}
		if len(ns) == maxTuple {
			return
		}
		for _, n := range multiNames {
			tup(append(ns[:len(ns):len(ns)], n))
		}
	}
	tup(nil)

	// ---- the life of a response / of a request (Model/AccessLife)
	// A. where in the response's life a cookie is written: every arrangement of up to three writes, each by the handler
	// or by a function registered with Before, around every way the response is committed (WriteHeader, Write, Flush,
	// never), with a write after the commit as well
	commits := []string{"wh:200", "wh:404", "w", "fl", ""}
	writers := []string{"sc", "bf"}
	var arr func(pre []string)
	arr = func(pre []string) {
		if len(pre) > 0 {
			for _, cm := range commits {
				var toks []string
				for i, k := range pre {
					toks = append(toks, fmt.Sprintf("%s:%s:%s", k, hx(fmt.Sprintf("n%d", i)), hx(fmt.Sprintf("v%d;%s ", i, k))))
				}
				if cm != "" {
					toks = append(toks, cm)
				}
				op("L %s", strings.Join(toks, " "))
				op("L %s %s:%s:%s", strings.Join(toks, " "), writers[len(pre)%2], hx("late"), hx("after the commit"))
			}
		}
		if len(pre) == 3 {
			return
		}
		for _, k := range writers {
			arr(append(pre[:len(pre):len(pre)], k))
		}
	}
	arr(nil)
	randLife := func() string {
		n := 1 + r.Intn(4)
		var toks []string
		for i := 0; i < n; i++ {
			name := multiPool[r.Intn(len(multiPool))]
			if r.Intn(3) == 0 {
				name = "k"
			}
			toks = append(toks, fmt.Sprintf("%s:%s:%s", writers[r.Intn(2)], hx(name), hx(randValue(r))))
			if r.Intn(3) == 0 {
				toks = append(toks, []string{"wh:200", "wh:201", "wh:302", "wh:404", "wh:500", "w", "w", "fl"}[r.Intn(8)])
			}
		}
		return strings.Join(toks, " ")
	}
	// B. reads interleaved with changes of the request: every (first read | none) x change x read, then random
	for _, first := range []string{"", "r:" + hx("k"), "r:" + hx("other")} {
		for _, init := range []string{".", hx("k=old"), hx("a=1; b=2"), hx("a=1") + "," + hx("k=second-line")} {
			for _, ch := range []string{"a:" + hx("k") + ":" + hx("new value;"), "a:" + hx("z") + ":" + hx("1"), "s:" + hx("k=set"), "h:" + hx("k=added"), "d", "s:-"} {
				op("KS %s %s %s r:%s r:%s", init, first, ch, hx("k"), hx("a"))
			}
		}
		for _, ch := range []string{"k=2", "", "a=1&k=%41", "k"} {
			op("QS %s %s s:%s r:%s", hx("k=1&a=0"), first, hx(ch), hx("k"))
		}
	}
	randReqLife := func() string {
		name := []string{"k", "k", "a", "sid"}[r.Intn(4)]
		init := "."
		switch r.Intn(4) {
		case 0:
			init = hx(randCookieLine(r, name))
		case 1:
			init = hx(randCookieLine(r, name)) + "," + hx(randCookieLine(r, "a"))
		case 2:
			init = hx(name + "=" + url.QueryEscape(randValue(r)))
		}
		n := 2 + r.Intn(5)
		var toks []string
		for i := 0; i < n; i++ {
			nm := name
			if r.Intn(4) == 0 {
				nm = []string{"k", "a", "b", "sid", "K", ""}[r.Intn(6)]
			}
			switch k := r.Intn(10); {
			case k < 5:
				toks = append(toks, "r:"+hx(nm))
			case k < 7:
				if r.Intn(12) == 0 {
					nm = []string{"k k", "k\n", "k=", "k;", "ké"}[r.Intn(5)]
				}
				toks = append(toks, "a:"+hx(nm)+":"+hx(randValue(r)))
			case k < 8:
				toks = append(toks, "s:"+hx(randCookieLine(r, nm)))
			case k < 9:
				toks = append(toks, "h:"+hx(randCookieLine(r, nm)))
			default:
				toks = append(toks, "d")
			}
		}
		return init + " " + strings.Join(toks, " ")
	}
	randQueryLife := func() string {
		key := accessKeys[r.Intn(len(accessKeys))]
		n := 2 + r.Intn(4)
		var toks []string
		for i := 0; i < n; i++ {
			if r.Intn(3) == 0 {
				toks = append(toks, "s:"+hx(randRawQuery(r, key)))
			} else {
				nm := key
				if r.Intn(5) == 0 {
					nm = accessKeys[r.Intn(len(accessKeys))]
				}
				toks = append(toks, "r:"+hx(nm))
			}
		}
		return hx(randRawQuery(r, key)) + " " + strings.Join(toks, " ")
	}
	nl := 700
	if thorough {
		nl = 40000
	}
	for i := 0; i < nl; i++ {
		op("L %s", randLife())
		op("KS %s", randReqLife())
		if i%2 == 0 {
			op("QS %s", randQueryLife())
		}
	}

	// ---- random: structured and mostly valid, then a malformed stream
	nq, nm := 6000, 2000
	if thorough {
		nq, nm = 400000, 150000
		// every three-byte string over the special bytes through the codecs and the cookie round trip
		for _, a := range accessBiased {
			for _, b := range accessBiased {
				for _, c := range accessBiased {
					codec(string([]byte{a, b, c}))
				}
			}
		}
	}
	for i := 0; i < nq; i++ {
		switch k := r.Intn(10); {
		case k < 5:
			acc := queryAccs[r.Intn(len(queryAccs))]
			key := accessKeys[r.Intn(len(accessKeys))]
			name := key
			if r.Intn(8) == 0 {
				name = accessKeys[r.Intn(len(accessKeys))]
			}
			op("Q %s %s %s %s", acc, hx(randRawQuery(r, key)), hx(name), randDefault(r, acc))
		case k < 7:
			acc := []string{"s", "i", "i64"}[r.Intn(3)]
			name := "v"
			if r.Intn(10) == 0 {
				name = []string{"w", "", "V", "route"}[r.Intn(4)]
			}
			op("P %s %s %s %s", acc, []string{"p", "a"}[r.Intn(2)], hx(randValue(r)), hx(name))
		case k == 7:
			op("M%s", randMulti(r))
		case k < 9:
			name := "k"
			if r.Intn(6) == 0 {
				name = []string{"sid", "a.b", "k k", "", "k=", "ké", "K"}[r.Intn(7)]
			}
			op("C %s %s", hx(name), hx(randValue(r)))
		default:
			name := []string{"k", "k", "k", "a", ""}[r.Intn(5)]
			if r.Intn(4) == 0 {
				op("K %s %s %s", hx(randCookieLine(r, "a")), hx(randCookieLine(r, name)), hx(name))
			} else {
				op("K %s %s", hx(randCookieLine(r, name)), hx(name))
			}
		}
	}
	for i := 0; i < nm; i++ {
		s := randBytes(r, 14)
		switch r.Intn(9) {
		case 0:
			acc := queryAccs[r.Intn(len(queryAccs))]
			op("Q %s %s %s %s", acc, hx(s), hx([]string{"k", "a", ""}[r.Intn(3)]), randDefault(r, acc))
		case 1:
			acc := queryAccs[r.Intn(len(queryAccs))]
			op("Q %s %s %s %s", acc, hx("k="+s), hx("k"), randDefault(r, acc))
		case 2:
			op("K %s %s", hx(s), hx("k"))
		case 3:
			op("K %s %s", hx("k="+s), hx("k"))
		case 4:
			codec(s)
		case 5:
			nums(randDigits(r))
			nums(randBoundary(r))
		case 6:
			op("TS %s", hx(s))
			op("CS %s %s", hx("k"), hx(s))
		case 7:
			op("P %s %s %s %s", []string{"s", "i", "i64"}[r.Intn(3)], []string{"p", "a"}[r.Intn(2)], hx(s), hx("v"))
		default:
			op("C %s %s", hx("k"), hx(randBytes(r, 40)))
		}
	}
}
