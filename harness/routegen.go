package main

// Type-directed generator of route ASTs, their text, their wire form, and of request paths
// that instantiate them. Shared by the router suites (C01 C02 C07 C08 C09 C10 C12).

import (
	"fmt"
	"math/rand"
	"strings"
)

type gParam struct {
	ident string
	regex bool
	val   string
}

type gElem struct {
	kind   byte // 'i' ident, 'b' bind, 'p' params
	text   string
	params []gParam
}

type gSeg struct {
	optional bool
	elems    []gElem
	// how to instantiate this segment in a request path
	inst func(r *rand.Rand) []string // one or more path segments
}

type gRoute struct {
	segs []gSeg
}

func (e gElem) render() string {
	switch e.kind {
	case 'i':
		return e.text
	case 'b':
		return "{" + e.text + "}"
	}
	parts := make([]string, len(e.params))
	for i, p := range e.params {
		if p.regex {
			parts[i] = p.ident + ": /" + p.val + "/"
		} else {
			parts[i] = p.ident + ": " + p.val
		}
	}
	return "{" + strings.Join(parts, ", ") + "}"
}

func (s gSeg) render() string {
	var b strings.Builder
	b.WriteString("/")
	if s.optional {
		b.WriteString("?")
	}
	for _, e := range s.elems {
		b.WriteString(e.render())
	}
	return b.String()
}

func (rt gRoute) text() string {
	var b strings.Builder
	for _, s := range rt.segs {
		b.WriteString(s.render())
	}
	return b.String()
}

// wire renders the AST in the driver's wire format.
func (rt gRoute) wire() string {
	segs := make([]string, len(rt.segs))
	for i, s := range rt.segs {
		var es []string
		for _, e := range s.elems {
			switch e.kind {
			case 'i':
				es = append(es, "i"+hx(e.text))
			case 'b':
				es = append(es, "b"+hx(e.text))
			default:
				ps := make([]string, len(e.params))
				for j, p := range e.params {
					k := "l"
					if p.regex {
						k = "r"
					}
					ps[j] = hx(p.ident) + ":" + k + hx(p.val)
				}
				es = append(es, "p"+strings.Join(ps, ","))
			}
		}
		o := ""
		if s.optional {
			o = "?"
		}
		segs[i] = o + strings.Join(es, "+")
	}
	return strings.Join(segs, ";")
}

// ---------------------------------------------------------------------------------- pools

var lits = []string{"a", "b", "c", "ab", "x", "1", "v1", "a.b", "a+b", "(x)", "a$", "%41", "x-y", "zz", "a*", "*", "*x", "*latest", "a%20b", "c++", "%2B", ":id", "~u"}
var plainLits = []string{"a", "b", "c", "ab", "x", "1", "v1", "zz", "a%20b", "%41", "c++"}
var bindNames = []string{"x", "y", "z", "id", "name", "p1", "q"}

type rePool struct {
	expr    string
	yes, no []string
}

var regexes = []rePool{
	{`[0-9]+`, []string{"1", "42", "007"}, []string{"a", "", "1a"}},
	{`[a-z]+`, []string{"a", "ab", "zz"}, []string{"1", "A", ""}},
	{`a|b`, []string{"a", "b"}, []string{"c", "ab", ""}},
	{`(a|b)c`, []string{"ac", "bc"}, []string{"c", "abc", "a"}},
	{`x(y)?`, []string{"x", "xy"}, []string{"y", "xyy"}},
	{`\d{2}`, []string{"12", "00"}, []string{"1", "123", "ab"}},
	{`[\w]+`, []string{"a_1", "Z"}, []string{"-", "a-b"}},
	{`.*`, []string{"", "a", "a.b", "%2F"}, nil},
	{`.+`, []string{"a", "a b", "%41"}, []string{""}},
	{`[0-9]`, []string{"7"}, []string{"77", "a"}},
	{`(x)(y)`, []string{"xy"}, []string{"x", "yx"}},
	{`a.b`, []string{"a.b", "axb"}, []string{"ab"}},
}
var badRegexes = []string{`(`, `[a`, `a{2,1}`, `**`, `x)`, `a)(b`, `)|(`, `x)y(z`, `)`, `a)|(b)|(c`}

var holeVals = []string{"a", "b", "1", "x", "ab", "a%2Fb", "%41", "%zz", "a b", "a.b", "%", "é", "v1", "zz", "42", "xy", "ac"}

func pick(r *rand.Rand, xs []string) string { return xs[r.Intn(len(xs))] }

// freshBind picks a bind name, usually one not used yet in the route.
func freshBind(r *rand.Rand, used map[string]bool) string {
	if r.Intn(12) == 0 { // deliberate reuse
		return pick(r, bindNames)
	}
	if r.Intn(40) == 0 {
		// names that mean something elsewhere: the URL builder's own switch, the limit's keyword (a bind named `route`
		// is shadowed by the reserved parameter: only the dedicated sessions of C02 use it, through the router)
		for _, b := range []string{"withOptional", "capture"} {
			if !used[b] && r.Intn(2) == 0 {
				used[b] = true
				return b
			}
		}
	}
	for i := 0; i < 8; i++ {
		b := pick(r, bindNames)
		if !used[b] {
			used[b] = true
			return b
		}
	}
	b := fmt.Sprintf("n%d", len(used))
	used[b] = true
	return b
}

func constInst(vals ...string) func(*rand.Rand) []string {
	return func(*rand.Rand) []string { return vals }
}

// genSeg makes one segment of the requested flavour.
func genSeg(r *rand.Rand, used map[string]bool, prof *profile, last bool) gSeg {
	k := r.Intn(100)
	w := prof.weights
	switch {
	case k < w[0]: // static
		l := pick(r, lits)
		if prof.plainStatic {
			l = pick(r, plainLits)
		}
		return gSeg{elems: []gElem{{kind: 'i', text: l}}, inst: constInst(l)}
	case k < w[1]: // placeholder
		b := freshBind(r, used)
		return gSeg{elems: []gElem{{kind: 'b', text: b}}, inst: func(r *rand.Rand) []string { return []string{pick(r, holeVals)} }}
	case k < w[2]: // single regex bind
		b := freshBind(r, used)
		if r.Intn(25) == 0 {
			return gSeg{elems: []gElem{{kind: 'p', params: []gParam{{b, true, pick(r, badRegexes)}}}}, inst: constInst("x")}
		}
		re := regexes[r.Intn(len(regexes))]
		return gSeg{elems: []gElem{{kind: 'p', params: []gParam{{b, true, re.expr}}}}, inst: reInst(re)}
	case k < w[3]: // several elements in one segment
		return genMultiSeg(r, used)
	case k < w[4]: // match-all
		b := freshBind(r, used)
		capn := 0
		switch r.Intn(6) {
		case 0:
			capn = 1
		case 1:
			capn = 2
		case 2:
			capn = 3
		}
		var e gElem
		switch {
		case r.Intn(8) == 0:
			e = gElem{kind: 'b', text: "**"}
		case capn > 0:
			cv := fmt.Sprint(capn)
			if r.Intn(15) == 0 {
				cv = pick(r, []string{"x", "-1", "+2", "0", "99999999999999999999"})
			}
			e = gElem{kind: 'p', params: []gParam{{b, false, "**"}, {"capture", false, cv}}}
			if r.Intn(12) == 0 {
				// the limit spelled as an expression (`capture: /2/`), another keyword, a third parameter
				e = gElem{kind: 'p', params: [][]gParam{
					{{b, false, "**"}, {"capture", true, cv}},
					{{b, false, "**"}, {"limit", false, cv}},
					{{b, false, "**"}, {"capture", false, cv}, {"capture", false, "1"}},
					{{b, false, "**"}, {"Capture", false, cv}},
				}[r.Intn(4)]}
			}
		default:
			e = gElem{kind: 'p', params: []gParam{{b, false, "**"}}}
		}
		return gSeg{elems: []gElem{e}, inst: func(r *rand.Rand) []string {
			n := 1 + r.Intn(3)
			out := make([]string, n)
			for i := range out {
				out[i] = pick(r, holeVals)
			}
			return out
		}}
	case k < w[5]: // empty segment (trailing slash when last, error when inner)
		return gSeg{inst: constInst("")}
	default: // ill-formed shapes
		b := freshBind(r, used)
		switch r.Intn(6) {
		case 4, 5:
			// the anonymous bind `{**}` NEXT TO something else in its segment: not a match-all (that is `{**}` alone),
			// an ordinary bind named `**` that captures one segment's text between the literals
			lit := pick(r, []string{".css", "-x", ".", "v"})
			elems := []gElem{{kind: 'b', text: "**"}, {kind: 'i', text: lit}}
			if r.Intn(3) == 0 {
				elems = []gElem{{kind: 'i', text: lit}, {kind: 'b', text: "**"}}
			} else if r.Intn(3) == 0 {
				elems = append(elems, gElem{kind: 'b', text: b})
			}
			return gSeg{elems: elems, inst: func(r *rand.Rand) []string {
				v := pick(r, holeVals)
				switch r.Intn(5) {
				case 0:
					return []string{v + ".js"}
				case 1:
					return []string{pick(r, holeVals), v + lit}
				case 2:
					return []string{lit + v + lit}
				case 3:
					return []string{lit + v}
				}
				return []string{v + lit}
			}}
		case 0: // non-** literal value
			return gSeg{elems: []gElem{{kind: 'p', params: []gParam{{b, false, "lit"}}}}, inst: constInst("lit")}
		case 1: // match-all not alone in its segment
			return gSeg{elems: []gElem{{kind: 'p', params: []gParam{{b, false, "**"}}}, {kind: 'i', text: ".html"}}, inst: constInst("a.html")}
		case 2: // bind reused within the segment
			return gSeg{elems: []gElem{{kind: 'b', text: b}, {kind: 'i', text: "-"}, {kind: 'b', text: b}}, inst: constInst("1-2")}
		default: // regex + literal param mixed
			return gSeg{elems: []gElem{{kind: 'p', params: []gParam{{b, true, "[a-z]+"}, {"k", false, "v"}}}}, inst: constInst("a")}
		}
	}
}

func reInst(re rePool) func(*rand.Rand) []string {
	return func(r *rand.Rand) []string {
		if len(re.no) > 0 && r.Intn(5) == 0 {
			return []string{pick(r, re.no)}
		}
		return []string{pick(r, re.yes)}
	}
}

// genMultiSeg: literals and binds mixed in one segment (never two literals adjacent).
func genMultiSeg(r *rand.Rand, used map[string]bool) gSeg {
	if r.Intn(5) == 0 {
		// the same (or a mirrored) literal on both sides of ONE bind: "rc-{x}-rc", "zz{x}zz", "a{x}a".  Requests are
		// mostly ordinary instances, but a third are SQUEEZED: the two literals with nothing between them, or
		// overlapping ("rc-rc", "zzz", "a") — the bind must still capture at least one byte of its own.
		pairs := [][2]string{{"rc-", "-rc"}, {"--", "--"}, {"zz", "zz"}, {"a", "a"}, {"ab", "ba"}, {"x.", ".x"}, {"v", "v1"}, {"(", "("}}
		pr := pairs[r.Intn(len(pairs))]
		b := freshBind(r, used)
		mid := gElem{kind: 'b', text: b}
		midInst := func(r *rand.Rand) string { return pick(r, []string{"a", "1", "ab", "x-y", "z", "-", "rc"}) }
		if r.Intn(3) == 0 {
			re := regexes[r.Intn(len(regexes))]
			mid = gElem{kind: 'p', params: []gParam{{b, true, re.expr}}}
			midInst = func(r *rand.Rand) string { return reInst(re)(r)[0] }
		}
		return gSeg{elems: []gElem{{kind: 'i', text: pr[0]}, mid, {kind: 'i', text: pr[1]}}, inst: func(r *rand.Rand) []string {
			switch r.Intn(9) {
			case 0:
				return []string{pr[0] + pr[1]}
			case 1:
				k := 1 + r.Intn(len(pr[1]))
				return []string{pr[0] + pr[1][k:]}
			case 2:
				return []string{pick(r, []string{pr[0], pr[1], pr[0][:len(pr[0])-1] + pr[1]})}
			}
			return []string{pr[0] + midInst(r) + pr[1]}
		}}
	}
	n := 2 + r.Intn(3)
	var elems []gElem
	var insts []func(*rand.Rand) string
	lastLit := r.Intn(2) == 0
	seps := []string{"-", ".", "~", "v", "a+b", "(", "$", "x"}
	for i := 0; i < n; i++ {
		if !lastLit {
			l := pick(r, seps)
			elems = append(elems, gElem{kind: 'i', text: l})
			insts = append(insts, func(*rand.Rand) string { return l })
			lastLit = true
			continue
		}
		lastLit = false
		b := freshBind(r, used)
		switch r.Intn(3) {
		case 0:
			elems = append(elems, gElem{kind: 'b', text: b})
			insts = append(insts, func(r *rand.Rand) string { return pick(r, []string{"a", "1", "ab", "x-y"}) })
		case 1:
			re := regexes[r.Intn(len(regexes))]
			elems = append(elems, gElem{kind: 'p', params: []gParam{{b, true, re.expr}}})
			insts = append(insts, func(r *rand.Rand) string { return reInst(re)(r)[0] })
		default: // two regex parameters in one brace
			re1, re2 := regexes[r.Intn(len(regexes))], regexes[r.Intn(len(regexes))]
			b2 := freshBind(r, used)
			elems = append(elems, gElem{kind: 'p', params: []gParam{{b, true, re1.expr}, {b2, true, re2.expr}}})
			insts = append(insts, func(r *rand.Rand) string { return reInst(re1)(r)[0] + reInst(re2)(r)[0] })
		}
	}
	return gSeg{elems: elems, inst: func(r *rand.Rand) []string {
		var b strings.Builder
		for _, f := range insts {
			b.WriteString(f(r))
		}
		return []string{b.String()}
	}}
}

// profile tunes the generator per suite: cumulative weights (out of 100) for
// static, placeholder, regex, multi, match-all, empty; the rest is ill-formed shapes.
type profile struct {
	weights     [6]int
	plainStatic bool
	maxSegs     int
	optionalPct int // chance that the last segment is optional
	innerOptPct int // chance (per mille) of an optional inner segment (an error case)
}

var profDefault = &profile{weights: [6]int{34, 52, 66, 78, 92, 97}, maxSegs: 5, optionalPct: 25, innerOptPct: 15}
var profStatic = &profile{weights: [6]int{78, 86, 90, 92, 95, 99}, plainStatic: true, maxSegs: 4, optionalPct: 35, innerOptPct: 5}
var profBinds = &profile{weights: [6]int{18, 36, 60, 84, 96, 98}, maxSegs: 4, optionalPct: 25, innerOptPct: 5}

func genRoute(r *rand.Rand, prof *profile) gRoute {
	n := 1 + r.Intn(prof.maxSegs)
	used := map[string]bool{}
	var rt gRoute
	for i := 0; i < n; i++ {
		s := genSeg(r, used, prof, i == n-1)
		if i == n-1 && r.Intn(100) < prof.optionalPct {
			s.optional = true
		} else if i < n-1 && r.Intn(1000) < prof.innerOptPct {
			s.optional = true
		}
		rt.segs = append(rt.segs, s)
	}
	if last := rt.segs[len(rt.segs)-1]; len(last.elems) > 0 && !last.optional && r.Intn(12) == 0 {
		// the route spelled with a trailing slash ("/docs/", "/{id}/"): one more, empty, final segment
		rt.segs = append(rt.segs, gSeg{inst: constInst("")})
	}
	return rt
}

// toggleTrailingSlash: the same path segments with the final empty segment removed, or added when there is none.
func toggleTrailingSlash(segs []string) []string {
	if n := len(segs); n > 0 && segs[n-1] == "" {
		return segs[:n-1]
	}
	return append(segs, "")
}

// instance builds a request path that instantiates the route (with or without its optional segment).
func (rt gRoute) instance(r *rand.Rand) []string {
	var segs []string
	for i, s := range rt.segs {
		if s.optional && i == len(rt.segs)-1 && r.Intn(2) == 0 {
			break
		}
		segs = append(segs, s.inst(r)...)
	}
	return segs
}

// mutatePath applies the request-path mutations of DESIGN.md §3.4.
func mutatePath(r *rand.Rand, segs []string) string {
	segs = append([]string(nil), segs...)
	switch r.Intn(20) {
	case 16:
		// a dot segment put in: "." and ".." are ordinary segment texts for the router (a placeholder binds them, a
		// literal does not match them); nothing resolves them away
		i := r.Intn(len(segs) + 1)
		segs = append(segs[:i], append([]string{pick(r, []string{".", "..", ".well-known", "...", ".a"})}, segs[i:]...)...)
	case 17:
		// the case of one letter flipped: literals match byte for byte
		if len(segs) > 0 {
			i := r.Intn(len(segs))
			b := []byte(segs[i])
			for j := range b {
				if b[j] >= 'a' && b[j] <= 'z' {
					b[j] -= 32
					break
				} else if b[j] >= 'A' && b[j] <= 'Z' {
					b[j] += 32
					break
				}
			}
			segs[i] = string(b)
		}
	case 18:
		// an empty segment put in (a doubled slash inside the path)
		i := r.Intn(len(segs) + 1)
		segs = append(segs[:i], append([]string{""}, segs[i:]...)...)
	case 14:
		// a near miss inside one segment: one byte dropped
		if len(segs) > 0 {
			i := r.Intn(len(segs))
			if n := len(segs[i]); n > 0 {
				j := r.Intn(n)
				segs[i] = segs[i][:j] + segs[i][j+1:]
			}
		}
	case 15:
		// … or doubled
		if len(segs) > 0 {
			i := r.Intn(len(segs))
			if n := len(segs[i]); n > 0 {
				j := r.Intn(n)
				segs[i] = segs[i][:j+1] + segs[i][j:]
			}
		}
	case 0:
		if len(segs) > 1 {
			i := r.Intn(len(segs))
			segs = append(segs[:i], segs[i+1:]...)
		}
	case 1:
		i := r.Intn(len(segs) + 1)
		segs = append(segs[:i], append([]string{pick(r, holeVals)}, segs[i:]...)...)
	case 2:
		if len(segs) > 1 {
			i, j := r.Intn(len(segs)), r.Intn(len(segs))
			segs[i], segs[j] = segs[j], segs[i]
		}
	case 3:
		segs = append(segs, "") // trailing slash
	case 13, 19:
		// the trailing slash TOGGLED: the instance of a route that ends with a slash requested without it, any other
		// instance with one added — a final empty segment is a segment of its own, for static routes (shortcut table
		// and tree alike) as for any other style
		segs = toggleTrailingSlash(segs)
	case 4:
		if len(segs) > 0 {
			segs[r.Intn(len(segs))] = ""
		}
	case 5:
		if len(segs) > 0 {
			segs[r.Intn(len(segs))] = pick(r, holeVals)
		}
	case 6:
		segs = append(segs, pick(r, holeVals))
	}
	p := "/" + strings.Join(segs, "/")
	switch r.Intn(16) {
	case 0:
		p = "/" + p
	case 1:
		p = "//" + p
	case 2:
		p = strings.TrimPrefix(p, "/")
	}
	return p
}

var smallSegs = []string{"a", "b", "1", ""}

func randomSmallPath(r *rand.Rand) string {
	n := 1 + r.Intn(4)
	segs := make([]string, n)
	for i := range segs {
		segs[i] = pick(r, smallSegs)
	}
	return "/" + strings.Join(segs, "/")
}

func randomBytesPath(r *rand.Rand) string {
	n := r.Intn(24)
	b := make([]byte, n)
	for i := range b {
		switch r.Intn(5) {
		case 0:
			b[i] = '/'
		case 1:
			b[i] = "%?{}:*ab1"[r.Intn(9)]
		default:
			b[i] = byte(r.Intn(256))
		}
	}
	return string(b)
}
