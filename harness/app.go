package main

// Session kind "app" — C07 at the level of Flame.ServeHTTP: one request through a whole REAL
// application (flamego.NewWithLogger): Before hooks, application middleware, routes with handler
// lists and header constraints, the action, the default or a user-supplied not-found chain.
// Protocol and output format: lean/Flamego/Driver/App.lean.

import (
	gocontext "context"
	"fmt"
	"io"
	"math/rand"
	"net/http"
	"net/http/httptest"
	"net/url"
	"strings"

	"github.com/flamego/flamego"
)

func init() {
	execs["app"] = execApp
	gens["C07app"] = genApp
}

// ---------------------------------------------------------------------------- handler programs

type appAct struct {
	op   byte // w b n c m p e
	n    int
	kind byte   // panic kind
	name string // echo: parameter name
}

type appHandler struct {
	kind  byte // p r u
	acts  []appAct
	ret   byte // '-' 'N' 'W' 'B' 'P'
	code  int
	blen  int
	pname string
}

func parseAppHandler(s string) (appHandler, bool) {
	if s == "r" || s == "u" {
		return appHandler{kind: s[0]}, true
	}
	parts := strings.Split(s, "/")
	if len(parts) != 3 || parts[0] != "p" {
		return appHandler{}, false
	}
	h := appHandler{kind: 'p', ret: '-'}
	if parts[1] != "-" {
		for _, a := range strings.Split(parts[1], ",") {
			if a == "" {
				return h, false
			}
			switch a[0] {
			case 'n', 'c', 'm':
				if len(a) != 1 {
					return h, false
				}
				h.acts = append(h.acts, appAct{op: a[0]})
			case 'p':
				if len(a) != 2 || !strings.ContainsRune("SERTA", rune(a[1])) {
					return h, false
				}
				h.acts = append(h.acts, appAct{op: 'p', kind: a[1]})
			case 'w', 'b':
				n, ok := natField(a[1:])
				if !ok {
					return h, false
				}
				h.acts = append(h.acts, appAct{op: a[0], n: n})
			case 'e':
				nm, ok := hexField(a[1:])
				if !ok {
					return h, false
				}
				h.acts = append(h.acts, appAct{op: 'e', name: nm})
			default:
				return h, false
			}
		}
	}
	r := parts[2]
	switch {
	case r == "-":
	case r == "N":
		h.ret = 'N'
	case strings.HasPrefix(r, "B"):
		l, ok := natField(r[1:])
		if !ok {
			return h, false
		}
		h.ret, h.blen = 'B', l
	case strings.HasPrefix(r, "W"):
		p := strings.Split(r[1:], ":")
		if len(p) != 2 {
			return h, false
		}
		c, ok1 := natField(p[0])
		l, ok2 := natField(p[1])
		if !ok1 || !ok2 {
			return h, false
		}
		h.ret, h.code, h.blen = 'W', c, l
	case strings.HasPrefix(r, "P"):
		nm, ok := hexField(r[1:])
		if !ok {
			return h, false
		}
		h.ret, h.pname = 'P', nm
	default:
		return h, false
	}
	return h, true
}

func natField(s string) (int, bool) {
	if s == "" || len(s) > 6 {
		return 0, false
	}
	n := 0
	for _, c := range s {
		if c < '0' || c > '9' {
			return 0, false
		}
		n = n*10 + int(c-'0')
	}
	return n, true
}

// hexField decodes a hex field the way the driver's `hexOf` does (malformed hex reads as empty).
func hexField(s string) (out string, ok bool) {
	defer func() {
		if r := recover(); r != nil {
			out, ok = "", true
		}
	}()
	return unhx(s), true
}

// names lists the parameters the handler reads, in order of first use.
func (h *appHandler) names() []string {
	var out []string
	seen := map[string]bool{}
	add := func(n string) {
		if !seen[n] {
			seen[n] = true
			out = append(out, n)
		}
	}
	for _, a := range h.acts {
		if a.op == 'e' {
			add(a.name)
		}
	}
	if h.ret == 'P' {
		add(h.pname)
	}
	return out
}

// ---------------------------------------------------------------------------- one request's record

type appRun struct {
	events    []string
	befores   []string
	stopped   bool
	routeSeen *string // c.Param("route") as the first instrumented handler saw it
	cancel    gocontext.CancelFunc
}

// interpret runs the program of the handler labelled `label` against the real Context.
func (h *appHandler) interpret(label string, seq int, cur **appRun, c flamego.Context) {
	run := *cur
	if run.routeSeen == nil {
		v := c.Param("route")
		run.routeSeen = &v
	}
	ev := ">" + label
	if ns := h.names(); len(ns) > 0 {
		ps := make([]string, len(ns))
		for i, n := range ns {
			ps[i] = hx(n) + "=" + hx(c.Param(n))
		}
		ev += "[" + strings.Join(ps, ",") + "]"
	}
	run.events = append(run.events, ev)
	done := false
	defer func() {
		// no recover here: the panic keeps travelling with its original value and stack
		if !done {
			run.events = append(run.events, "!"+label)
		}
	}()
	for _, a := range h.acts {
		switch a.op {
		case 'w':
			c.ResponseWriter().WriteHeader(a.n)
		case 'b':
			_, _ = c.ResponseWriter().Write([]byte(strings.Repeat("x", a.n)))
		case 'e':
			_, _ = c.ResponseWriter().Write([]byte(c.Param(a.name)))
		case 'n':
			c.Next()
		case 'c':
			if seq%2 == 0 {
				run.cancel()
			} else {
				ctx, cancel := gocontext.WithCancel(c.Request().Context())
				c.Request().Request = c.Request().Request.WithContext(ctx)
				cancel()
			}
		case 'm':
			c.Map(&chainMapped{v: seq})
		case 'p':
			switch a.kind {
			case 'S':
				panic("a string value")
			case 'E':
				panic(chainErr{})
			case 'R':
				var m map[string]int
				m["x"] = 1 // runtime error: assignment to entry in nil map
			case 'T':
				panic(chainStruct{1, 2, []string{"x"}})
			case 'A':
				panic(http.ErrAbortHandler)
			}
		}
	}
	done = true
	run.events = append(run.events, "<"+label)
}

// handler builds the Go func registered with flamego under the given label.
func (h *appHandler) handler(label string, seq int, cur **appRun) flamego.Handler {
	switch h.kind {
	case 'r':
		return flamego.Recovery()
	case 'u':
		return func(*chainUnmapped) {}
	}
	switch h.ret {
	case 'N':
		return func(c flamego.Context) string { h.interpret(label, seq, cur, c); return "" }
	case 'W':
		return func(c flamego.Context) (int, string) {
			h.interpret(label, seq, cur, c)
			return h.code, strings.Repeat("x", h.blen)
		}
	case 'B': // a body without a status: the return handler only calls Write (implicit 200)
		return func(c flamego.Context) string { h.interpret(label, seq, cur, c); return strings.Repeat("x", h.blen) }
	case 'P':
		return func(c flamego.Context) string { h.interpret(label, seq, cur, c); return c.Param(h.pname) }
	}
	return func(c flamego.Context) { h.interpret(label, seq, cur, c) }
}

// appSpy is the client's side: every call the client's http.ResponseWriter received.
type appSpy struct {
	*httptest.ResponseRecorder
	events []string
}

func (s *appSpy) WriteHeader(c int) {
	s.events = append(s.events, fmt.Sprintf("h%d", c))
	s.ResponseRecorder.WriteHeader(c)
}

func (s *appSpy) Write(b []byte) (int, error) {
	str := string(b)
	switch {
	case str == http.StatusText(http.StatusInternalServerError):
		s.events = append(s.events, "P")
	case strings.HasPrefix(str, "<html>") && strings.Contains(str, "<h1>PANIC</h1>"):
		s.events = append(s.events, "D")
	default:
		s.events = append(s.events, fmt.Sprintf("x%d", len(b)))
	}
	return s.ResponseRecorder.Write(b)
}

// ---------------------------------------------------------------------------- executor

type appSession struct {
	f      *flamego.Flame
	cur    **appRun
	nmw    int
	nbef   int
	seq    int
	rh     map[int][]appHandler
	routes map[int]*flamego.Route
}

func (s *appSession) build(hs []appHandler, label func(j int) string) []flamego.Handler {
	out := make([]flamego.Handler, len(hs))
	for j := range hs {
		h := hs[j]
		s.seq++
		out[j] = h.handler(label(j), s.seq, s.cur)
	}
	return out
}

func parseAppHandlers(fs []string) ([]appHandler, bool) {
	out := make([]appHandler, 0, len(fs))
	for _, f := range fs {
		h, ok := parseAppHandler(f)
		if !ok {
			return nil, false
		}
		out = append(out, h)
	}
	return out, true
}

func execApp(args []string, lines [][]string) []string {
	prevEnv := flamego.Env()
	defer flamego.SetEnv(prevEnv)
	if len(args) > 0 && args[0] == "1" {
		flamego.SetEnv(flamego.EnvTypeDev)
	} else {
		flamego.SetEnv(flamego.EnvTypeProd)
	}
	s := &appSession{
		f:      flamego.NewWithLogger(io.Discard),
		cur:    new(*appRun),
		rh:     map[int][]appHandler{},
		routes: map[int]*flamego.Route{},
	}
	outs := []string{"new"}
	for _, l := range lines {
		outs = append(outs, s.op(l))
	}
	return outs
}

func (s *appSession) op(l []string) (out string) {
	defer func() {
		if r := recover(); r != nil {
			out = "harness-panic"
		}
	}()
	if len(l) == 0 {
		return "bad-op"
	}
	switch l[0] {
	case "B":
		return s.before(l)
	case "MW":
		if len(l) != 2 {
			return "bad-op"
		}
		h, ok := parseAppHandler(l[1])
		if !ok {
			return "bad-op"
		}
		i := s.nmw
		s.nmw++
		s.f.Use(s.build([]appHandler{h}, func(int) string { return fmt.Sprintf("m%d", i) })...)
		return "h"
	case "RH":
		if len(l) < 2 {
			return "bad-op"
		}
		hs, ok := parseAppHandlers(l[2:])
		if !ok {
			return "bad-op"
		}
		s.rh[atoi(l[1])] = hs
		return "h"
	case "ACT":
		if len(l) != 2 {
			return "bad-op"
		}
		h, ok := parseAppHandler(l[1])
		if !ok {
			return "bad-op"
		}
		s.f.Action(s.build([]appHandler{h}, func(int) string { return "a" })[0])
		return "h"
	case "NF":
		hs, ok := parseAppHandlers(l[1:])
		if !ok {
			return "bad-op"
		}
		s.f.NotFound(s.build(hs, func(j int) string { return fmt.Sprintf("n%d", j) })...)
		return "h"
	case "ADD":
		if len(l) != 5 {
			return "bad-op"
		}
		return s.add(atoi(l[1]), l[2], unhx(l[3]))
	case "HDR":
		if len(l) < 2 || (len(l)-2)%3 != 0 {
			return "bad-op"
		}
		rt, ok := s.routes[atoi(l[1])]
		if !ok {
			return "err"
		}
		var pairs []string
		for i := 2; i+2 < len(l); i += 3 {
			pairs = append(pairs, unhx(l[i]), unhx(l[i+2]))
		}
		return okErr(func() { rt.Headers(pairs...) })
	case "REQ":
		if len(l) < 3 {
			return "bad-op"
		}
		a := s.serve(unhx(l[1]), unhx(l[2]), l[3:])
		b := s.serve(unhx(l[1]), unhx(l[2]), l[3:])
		if a != b {
			return a + " ## REPEATED: " + b
		}
		return a
	}
	return "bad-op"
}

func (s *appSession) before(l []string) string {
	i := s.nbef
	name := fmt.Sprint(i)
	switch {
	case len(l) == 2 && l[1] == "p":
		s.f.Before(func(http.ResponseWriter, *http.Request) bool {
			(*s.cur).befores = append((*s.cur).befores, name)
			return false
		})
	case len(l) == 3 && l[1] == "s" && l[2] == "-":
		s.f.Before(func(http.ResponseWriter, *http.Request) bool {
			(*s.cur).befores = append((*s.cur).befores, name)
			(*s.cur).stopped = true
			return true
		})
	case len(l) == 3 && l[1] == "s":
		p := strings.Split(l[2], ":")
		if len(p) != 2 {
			return "bad-op"
		}
		code, ok1 := natField(p[0])
		n, ok2 := natField(p[1])
		if !ok1 || !ok2 {
			return "bad-op"
		}
		s.f.Before(func(w http.ResponseWriter, _ *http.Request) bool {
			(*s.cur).befores = append((*s.cur).befores, name)
			(*s.cur).stopped = true
			w.WriteHeader(code)
			_, _ = w.Write([]byte(strings.Repeat("x", n)))
			return true
		})
	default:
		return "bad-op"
	}
	s.nbef++
	return "b"
}

func (s *appSession) add(hid int, methods, text string) string {
	hs := s.build(s.rh[hid], func(j int) string { return fmt.Sprintf("r%d.%d", hid, j) })
	var rt *flamego.Route
	res := okErr(func() {
		switch {
		case methods == "*":
			rt = s.f.Any(text, hs...)
		case strings.Contains(methods, ","):
			rt = s.f.Routes(text, methods, hs...)
		default:
			rt = s.f.Route(methods, text, hs)
		}
	})
	if res == "ok" && rt != nil {
		s.routes[hid] = rt
	}
	return res
}

func (s *appSession) serve(method, path string, hs []string) string {
	ctx, cancel := gocontext.WithCancel(gocontext.Background())
	defer cancel()
	run := &appRun{cancel: cancel}
	*s.cur = run
	spy := &appSpy{ResponseRecorder: httptest.NewRecorder()}
	req := (&http.Request{
		Method: method, URL: &url.URL{Path: path}, Header: parseHdrFields(hs),
		Proto: "HTTP/1.1", ProtoMajor: 1, ProtoMinor: 1, Host: "x",
	}).WithContext(ctx)
	var esc interface{}
	func() {
		defer func() { esc = recover() }()
		s.f.ServeHTTP(spy, req)
	}()
	dash := func(xs []string) string {
		if len(xs) == 0 {
			return "-"
		}
		return strings.Join(xs, ",")
	}
	kind := "q"
	switch {
	case run.stopped:
		kind = "stop"
	case run.routeSeen != nil && *run.routeSeen == "":
		kind = "nf"
	case run.routeSeen != nil:
		kind = "h route=" + hx(*run.routeSeen)
	}
	return fmt.Sprintf("%s b=%s | %s | %s c%d | esc=%s", kind, dash(run.befores), dash(run.events),
		dash(spy.events), spy.Code, classifyPanic(esc))
}

// ---------------------------------------------------------------------------- generators

// bindNamesOf lists the bind names of a generated route.
func bindNamesOf(rt gRoute) []string {
	var out []string
	for _, s := range rt.segs {
		for _, e := range s.elems {
			switch e.kind {
			case 'b':
				out = append(out, e.text)
			case 'p':
				for _, p := range e.params {
					out = append(out, p.ident)
				}
			}
		}
	}
	return out
}

// randAppProg: a random handler program; `names` are the parameter names it may echo or return.
func randAppProg(r *rand.Rand, names []string, panicPct int) string {
	n := r.Intn(5)
	var acts []string
	for j := 0; j < n; j++ {
		k := r.Intn(100)
		switch {
		case k < 32:
			acts = append(acts, "n")
		case k < 44:
			acts = append(acts, fmt.Sprintf("w%d", chainCodes[r.Intn(len(chainCodes))]))
		case k < 54:
			acts = append(acts, fmt.Sprintf("b%d", r.Intn(4)))
		case k < 72:
			acts = append(acts, "e"+hx(pick(r, names)))
		case k < 77:
			acts = append(acts, "c")
		case k < 82:
			acts = append(acts, "m")
		case k < 82+panicPct:
			acts = append(acts, "p"+string("SERTA"[r.Intn(5)]))
		}
	}
	a := "-"
	if len(acts) > 0 {
		a = strings.Join(acts, ",")
	}
	ret := "-"
	switch k := r.Intn(13); {
	case k == 0:
		ret = "N"
	case k <= 2:
		ret = fmt.Sprintf("W%d:%d", chainCodes[r.Intn(len(chainCodes))], r.Intn(3))
	case k <= 4:
		ret = "P" + hx(pick(r, names))
	case k == 5:
		ret = fmt.Sprintf("B%d", r.Intn(3))
	}
	return "p/" + a + "/" + ret
}

var appMwNames = append([]string{"route", "route", "nosuch"}, bindNames...)

func randAppMiddleware(r *rand.Rand, first bool) string {
	rec := 12
	if first {
		rec = 30
	}
	k := r.Intn(100)
	switch {
	case k < rec:
		return "r"
	case k < rec+4:
		return "u"
	case k < rec+30:
		return "p/n/-" // a wrapping middleware
	case k < rec+40:
		return "p/-/-"
	}
	return randAppProg(r, appMwNames, 8)
}

func genApp(r *rand.Rand, tier string, emit Emit) {
	n := 350
	if tier == "thorough" {
		n = 7000
	}
	appSmallScope(emit, tier == "thorough")
	for i := 0; i < n; i++ {
		appSession1(r, emit)
	}
	// malformed stream: executor and driver must agree on rejecting these
	emit("NEW app 0")
	for _, bad := range []string{"B", "B x", "B s 1", "MW", "MW q", "MW p/n", "MW p/h/-", "MW p/x9/-", "MW p/n/W1", "ACT", "NF p/-/- zz", "RH 1 p", "FOO"} {
		emit("%s", bad)
	}
	emit("MW p/n/-")
	emit("REQ %s %s", hx("GET"), hx("/"))
}

// appSmallScope: every combination of a few Before-hook lists, middleware stacks, not-found chains
// and actions, each asked the same requests (static hit, dynamic hit with echoes, a constrained
// route with and without its header, a miss, an unknown method, HEAD).
func appSmallScope(emit Emit, thorough bool) {
	befores := [][]string{{}, {"p"}, {"p", "p"}, {"s 403:2"}, {"p", "s 401:0"}, {"s -", "p"}, {"s -"}, {"p", "p", "s 204:1"}}
	mws := [][]string{{}, {"p/n/-"}, {"r", "p/n,b1/-"}, {"p/e" + hx("route") + "/-"}, {"p/w202/-", "p/-/-"}}
	nfs := []string{"", "NF", "NF p/-/-", "NF p/w410,b3/- p/-/-", "NF p/pS/-"}
	acts := []string{"", "p/b1/-", "p/-/W201:2"}
	if !thorough {
		befores = befores[:5]
		mws = mws[:4]
		nfs = nfs[:4]
		acts = acts[:2]
	}
	routes := []struct{ text, methods, rh, hdr string }{
		{"/a", "GET,HEAD", "p/e" + hx("route") + "/-", ""},
		{"/a/{x}", "GET", "p/n/- p/-/P" + hx("x"), ""},
		{"/b/{y: /[0-9]+/}/?c", "*", "p/e" + hx("y") + ",e" + hx("nosuch") + "/-", ""},
		{"/h", "GET", "p/w200/-", hx("X-K") + " " + hx("X-K") + " " + hx("^v$")},
		{"/e", "POST", "", ""},
	}
	reqs := []string{
		"REQ " + hx("GET") + " " + hx("/a"),
		"REQ " + hx("HEAD") + " " + hx("/a"),
		"REQ " + hx("GET") + " " + hx("/a/zz"),
		"REQ " + hx("PUT") + " " + hx("/b/42"),
		"REQ " + hx("GET") + " " + hx("//b/42/c"),
		"REQ " + hx("GET") + " " + hx("/h") + " " + hx("X-K") + "=" + hx("v"),
		"REQ " + hx("GET") + " " + hx("/h"),
		"REQ " + hx("POST") + " " + hx("/e"),
		"REQ " + hx("GET") + " " + hx("/nope"),
		"REQ " + hx("FOO") + " " + hx("/a"),
		"REQ " + hx("get") + " " + hx("/a"),
		"REQ " + hx("HEAD") + " " + hx("/nope"),
	}
	for _, bs := range befores {
		for _, mw := range mws {
			for _, nf := range nfs {
				for _, act := range acts {
					emit("NEW app 0")
					for _, b := range bs {
						emit("B %s", b)
					}
					for _, m := range mw {
						emit("MW %s", m)
					}
					if nf != "" {
						emit("%s", nf)
					}
					if act != "" {
						emit("ACT %s", act)
					}
					for i, rt := range routes {
						if rt.rh != "" {
							emit("RH %d %s", i, rt.rh)
						}
						emit("ADD %d %s %s %s", i, rt.methods, hx(rt.text), wireOfText(rt.text))
						if rt.hdr != "" {
							emit("HDR %d %s", i, rt.hdr)
						}
					}
					for _, q := range reqs {
						emit("%s", q)
					}
				}
			}
		}
	}
}

// appSession1: one random application and a stream of requests, with late changes to the
// application (another middleware, Before hook, action, not-found chain, route) between requests.
func appSession1(r *rand.Rand, emit Emit) {
	emit("NEW app %d", r.Intn(2))
	nb := []int{0, 0, 0, 1, 1, 2, 3}[r.Intn(7)]
	stopAt := -1
	if nb > 0 && r.Intn(8) == 0 {
		stopAt = r.Intn(nb)
	}
	before := func(stop bool) {
		switch {
		case !stop:
			emit("B p")
		case r.Intn(3) == 0:
			emit("B s -")
		default:
			emit("B s %d:%d", chainCodes[r.Intn(len(chainCodes))], r.Intn(4))
		}
	}
	for i := 0; i < nb; i++ {
		before(i == stopAt)
	}
	nmw := r.Intn(4)
	for i := 0; i < nmw; i++ {
		emit("MW %s", randAppMiddleware(r, i == 0))
	}
	action := func() {
		if r.Intn(10) == 0 {
			emit("ACT %s", pick(r, []string{"r", "u"}))
		} else {
			emit("ACT %s", randAppProg(r, appMwNames, 6))
		}
	}
	notFound := func() {
		k := r.Intn(3)
		parts := []string{"NF"}
		for i := 0; i < k; i++ {
			if r.Intn(12) == 0 {
				parts = append(parts, pick(r, []string{"r", "u"}))
			} else {
				parts = append(parts, randAppProg(r, appMwNames, 6))
			}
		}
		emit("%s", strings.Join(parts, " "))
	}
	if r.Intn(2) == 0 {
		action()
	}
	if r.Intn(3) == 0 {
		notFound()
	}
	var routes []gRoute
	var routeMethods []string
	hid := 0
	addRoute := func() {
		var rt gRoute
		if len(routes) > 0 && r.Intn(6) == 0 {
			base := routes[r.Intn(len(routes))]
			cut := r.Intn(len(base.segs) + 1)
			rt = gRoute{segs: append([]gSeg(nil), base.segs[:cut]...)}
			tail := genRoute(r, profDefault)
			rt.segs = append(rt.segs, tail.segs...)
			for j := range rt.segs[:len(rt.segs)-1] {
				rt.segs[j].optional = false
			}
		} else if r.Intn(3) == 0 {
			rt = genRoute(r, profStatic)
		} else {
			rt = genRoute(r, profDefault)
		}
		names := append([]string{"route"}, bindNamesOf(rt)...)
		if r.Intn(6) == 0 {
			names = append(names, pick(r, appMwNames))
		}
		nh := []int{0, 1, 1, 1, 2, 2, 3}[r.Intn(7)]
		if nh > 0 {
			parts := []string{fmt.Sprintf("RH %d", hid)}
			for j := 0; j < nh; j++ {
				switch k := r.Intn(40); {
				case k == 0:
					parts = append(parts, "u")
				case k == 1:
					parts = append(parts, "r")
				default:
					parts = append(parts, randAppProg(r, names, 8))
				}
			}
			emit("%s", strings.Join(parts, " "))
		}
		text := rt.text()
		ms := methodsFor(r)
		emit("ADD %d %s %s %s", hid, ms, hx(text), wireOfText(text))
		routeMethods = append(routeMethods, ms)
		if r.Intn(100) < 15 {
			emit("%s", hdrOp(r, hid))
		}
		routes = append(routes, rt)
		hid++
	}
	nr := 1 + r.Intn(5)
	for i := 0; i < nr; i++ {
		addRoute()
	}
	emitReq := func() {
		method := pick(r, reqMethods)
		ri := r.Intn(len(routes))
		if r.Intn(4) != 0 {
			// usually a method the route was registered for
			switch ms := routeMethods[ri]; {
			case ms == "*":
				method = pick(r, allMethods)
			case ms != "":
				method = strings.ToUpper(strings.TrimSpace(pick(r, strings.Split(ms, ","))))
			}
		}
		var path string
		switch c := r.Intn(20); {
		case c < 2:
			path = routes[ri].text()
		case c < 15:
			if r.Intn(3) == 0 {
				path = "/" + strings.Join(routes[ri].instance(r), "/")
			} else {
				path = mutatePath(r, routes[ri].instance(r))
			}
		case c < 18:
			path = randomSmallPath(r)
		default:
			path = randomBytesPath(r)
		}
		switch r.Intn(8) {
		case 0:
			path = randomBytesPath(r)
		case 1:
			method = pick(r, oddMethods)
		case 2:
			path = strings.Repeat(path, 1+r.Intn(20))
		}
		emit("REQ %s %s%s", hx(method), hx(path), hdrFields(r))
	}
	nq := 6 + r.Intn(7)
	for j := 0; j < nq; j++ {
		if r.Intn(10) == 0 {
			// the application changes between requests: everything is read at request time
			switch r.Intn(6) {
			case 0:
				emit("MW %s", randAppMiddleware(r, false))
			case 1:
				before(r.Intn(3) == 0)
			case 2:
				action()
			case 3:
				notFound()
			case 4:
				addRoute()
			case 5:
				emit("%s", hdrOp(r, r.Intn(hid)))
			}
		}
		emitReq()
	}
}
