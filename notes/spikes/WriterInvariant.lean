namespace P2
/-! response_writer.go as a state machine (hooks observe only). -/
inductive UEv | hdr (c : Nat) | body (n : Nat) | flush | hook (h : Nat)
  deriving DecidableEq, Repr

inductive Op
  | writeHeader (c : Nat)
  | write (len fwd : Nat)     -- underlying accepted `fwd ≤ len` bytes
  | flush
  | before (h : Nat)
  deriving Repr

structure W where
  head     : Bool
  status   : Nat := 0
  size     : Nat := 0
  hooks    : List Nat := []      -- registration order
  onceDone : Bool := false
  under    : List UEv := []      -- what reached the underlying writer / hooks, oldest first
  deriving Repr

def W.written (w : W) : Bool := w.status != 0

/-- WriteHeader: sync.Once, hooks LIFO, forward, record. -/
def W.writeHeader (w : W) (c : Nat) : W :=
  if w.onceDone then w
  else if w.written then { w with onceDone := true }
  else { w with onceDone := true,
                under := w.under ++ (w.hooks.reverse.map UEv.hook) ++ [UEv.hdr c],
                status := c }

def W.step (w : W) : Op → W
  | .writeHeader c => w.writeHeader c
  | .write _ fwd =>
    let w := if w.written then w else w.writeHeader 200
    if w.head then w else { w with under := w.under ++ [UEv.body fwd], size := w.size + fwd }
  | .flush =>
    let w := if w.written then w else w.writeHeader 200
    { w with under := w.under ++ [UEv.flush] }
  | .before h => { w with hooks := w.hooks ++ [h] }

def isHdr : UEv → Bool | .hdr _ => true | _ => false
def isBody : UEv → Bool | .body _ => true | _ => false
def bodySum : List UEv → Nat
  | [] => 0
  | .body n :: t => n + bodySum t
  | _ :: t => bodySum t

theorem bodySum_append (a b : List UEv) : bodySum (a ++ b) = bodySum a + bodySum b := by
  induction a with
  | nil => simp [bodySum]
  | cons x xs ih => cases x <;> simp [bodySum, ih] <;> omega

/-- The invariant: codes are ≥ 100 (valid statuses), so `status = 0` means "nothing sent". -/
structure Inv (w : W) : Prop where
  unsent  : w.status = 0 → ∀ e ∈ w.under, isHdr e = false ∧ isBody e = false
  sent    : w.status ≠ 0 → (w.under.filter isHdr) = [UEv.hdr w.status] ∧ w.onceDone = true
  size    : w.size = bodySum w.under
  head    : w.head = true → ∀ e ∈ w.under, isBody e = false

def validOp : Op → Prop
  | .writeHeader c => 100 ≤ c
  | _ => True

theorem inv_init (hd : Bool) : Inv { head := hd } := by
  constructor <;> simp [bodySum]

end P2

namespace P2

theorem filter_hooks (l : List Nat) : (l.map UEv.hook).filter isHdr = [] := by
  induction l with
  | nil => rfl
  | cons x xs ih => simp [isHdr, ih]

theorem bodySum_hooks (l : List Nat) : bodySum (l.map UEv.hook) = 0 := by
  induction l with
  | nil => rfl
  | cons x xs ih => simp [bodySum, ih]

theorem filter_none {l : List UEv} (h : ∀ e ∈ l, isHdr e = false) : l.filter isHdr = [] := by
  induction l with
  | nil => rfl
  | cons x xs ih =>
    have hx := h x (by simp)
    simp [hx, ih (fun e he => h e (by simp [he]))]

theorem inv_writeHeader (w : W) (c : Nat) (hc : 100 ≤ c) (h : Inv w) : Inv (w.writeHeader c) := by
  unfold W.writeHeader
  by_cases h1 : w.onceDone = true
  · simp [h1]; exact h
  · by_cases h2 : w.written = true
    · -- written but once not done: contradicts `sent`
      have : w.status ≠ 0 := by simpa [W.written] using h2
      exact absurd (h.sent this).2 h1
    · have hs : w.status = 0 := by simpa [W.written] using h2
      simp only [h1, h2, Bool.false_eq_true, ↓reduceIte]
      have hu := h.unsent hs
      constructor
      · intro h0; simp at h0; omega
      · intro _
        refine ⟨?_, rfl⟩
        simp only [List.filter_append, filter_hooks, List.append_nil]
        rw [filter_none (fun e he => (hu e he).1)]
        simp [isHdr]
      · simp only [bodySum_append, bodySum_hooks, bodySum]
        have := h.size; simp at this ⊢; omega
      · intro hh e he
        simp at he
        rcases he with he | ⟨x, _, rfl⟩ | rfl
        · exact h.head hh e he
        · rfl
        · rfl

-- (the `write`/`flush` cases of `inv_step` and the lift `inv_run` over `List.foldl` were sketched in the
-- spike and are left to the real development in lean/Flamego/Proofs/Writer.lean)

end P2
