namespace P1
/-- tree.go:149-162 / 187-201: insert before the first element of strictly greater rank. -/
def insertByRank (rank : α → Nat) (x : α) : List α → List α
  | [] => [x]
  | y :: ys => if rank x < rank y then x :: y :: ys else y :: insertByRank rank x ys

theorem insert_perm_split (rank : α → Nat) (x : α) (l : List α) :
    ∃ pre post, l = pre ++ post ∧ insertByRank rank x l = pre ++ x :: post ∧
      (∀ y ∈ pre, rank y ≤ rank x) ∧ (∀ y, post.head? = some y → rank x < rank y) := by
  induction l with
  | nil => exact ⟨[], [], rfl, rfl, by simp, by simp⟩
  | cons y ys ih =>
    unfold insertByRank
    by_cases h : rank x < rank y
    · simp only [h, ↓reduceIte]
      exact ⟨[], y :: ys, rfl, rfl, by simp, by simp [h]⟩
    · simp only [h, ↓reduceIte]
      obtain ⟨pre, post, h1, h2, h3, h4⟩ := ih
      refine ⟨y :: pre, post, by simp [h1], by simp [h2], ?_, h4⟩
      intro z hz
      simp at hz
      rcases hz with rfl | hz
      · omega
      · exact h3 z hz

theorem insert_sorted (rank : α → Nat) (x : α) (l : List α)
    (hs : l.Pairwise (fun a b => rank a ≤ rank b)) :
    (insertByRank rank x l).Pairwise (fun a b => rank a ≤ rank b) := by
  induction l with
  | nil => simp [insertByRank]
  | cons y ys ih =>
    unfold insertByRank
    rw [List.pairwise_cons] at hs
    by_cases h : rank x < rank y
    · simp only [h, ↓reduceIte]
      rw [List.pairwise_cons]
      refine ⟨?_, List.pairwise_cons.mpr hs⟩
      intro z hz
      simp at hz
      rcases hz with rfl | hz
      · omega
      · have := hs.1 z hz; omega
    · simp only [h, ↓reduceIte]
      rw [List.pairwise_cons]
      refine ⟨?_, ih hs.2⟩
      intro z hz
      obtain ⟨pre, post, h1, h2, _, _⟩ := insert_perm_split rank x ys
      rw [h2] at hz
      simp at hz
      rcases hz with hz | rfl | hz
      · exact hs.1 z (by rw [h1]; simp [hz])
      · omega
      · exact hs.1 z (by rw [h1]; simp [hz])
#print axioms insert_sorted
end P1
