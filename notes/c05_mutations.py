#!/usr/bin/env python3
"""C05 mutations. usage: c05_mutations.py <repo-copy> <name>|list|reset
Each mutation edits the scratch repo copy in place (git checkout . resets it)."""
import subprocess, sys

def rep(path, old, new, count=1):
    s = open(path).read()
    assert old in s, (path, old[:40])
    open(path, "w").write(s.replace(old, new, count))

def m_once_nilcheck(r):
    # replace strOnce.Do in Segment.String by a nil/empty check
    p = r + "/internal/route/definition.go"
    s = open(p).read()
    i = s.index("func (s *Segment) String() string {")
    j = s.index("\treturn s.str\n}", i)
    body = s[i:j]
    body = body.replace("\ts.strOnce.Do(func() {\n", "\tif s.str == \"\" {\n", 1)
    k = body.rindex("\t})\n")
    body = body[:k] + "\t}\n" + body[k + 4:]
    open(p, "w").write(s[:i] + body + s[j:])

def m_route_once_nilcheck(r):
    # the same for Route.String (only computed while serving: leaf.Route())
    rep(r + "/internal/route/definition.go",
        "\tr.strOnce.Do(func() {\n\t\tvar buf bytes.Buffer\n\t\tfor _, s := range r.Segments {\n\t\t\tbuf.WriteString(s.String())\n\t\t}\n\t\tr.str = buf.String()\n\t})\n",
        "\tif r.str == \"\" {\n\t\tvar buf bytes.Buffer\n\t\tfor _, s := range r.Segments {\n\t\t\tbuf.WriteString(s.String())\n\t\t}\n\t\tr.str = buf.String()\n\t}\n")

def m_injector_memo(r):
    # injector.Value memoises the implementor it found for an interface type (writes the shared Flame-level map while serving)
    rep(r + "/inject/inject.go",
        "\t\t\tif k.Implements(t) {\n\t\t\t\tval = v\n\t\t\t\tbreak\n\t\t\t}\n\t\t}\n",
        "\t\t\tif k.Implements(t) {\n\t\t\t\tval = v\n\t\t\t\tbreak\n\t\t\t}\n\t\t}\n\t\tif val.IsValid() {\n\t\t\tinj.values[t] = val\n\t\t}\n")

def m_static_params(r):
    # the static shortcut hands ONE Params map, built at registration, to every request of a fully static route
    p = r + "/router.go"
    rep(p, "\thandlerWrapper func(Handler) Handler\n}", "\thandlerWrapper func(Handler) Handler\n\n\tstaticParams map[string]map[string]route.Params // prebuilt params of static routes\n}")
    rep(p, "\t\tcontextCreator: contextCreator,\n\t}\n", "\t\tcontextCreator: contextCreator,\n\t\tstaticParams:   make(map[string]map[string]route.Params),\n\t}\n")
    rep(p, "\t\tr.staticRoutes[m] = make(map[string]route.Leaf)\n", "\t\tr.staticRoutes[m] = make(map[string]route.Leaf)\n\t\tr.staticParams[m] = make(map[string]route.Params)\n")
    rep(p, "\t\t\tr.staticRoutes[m][leaf.Route()] = leaf\n", "\t\t\tr.staticRoutes[m][leaf.Route()] = leaf\n\t\t\tr.staticParams[m][leaf.Route()] = route.Params{\"route\": leaf.Route()}\n")
    rep(p, "\t\tleaf.Handler()(w, req, route.Params{\n\t\t\t\"route\": leaf.Route(),\n\t\t})\n", "\t\tleaf.Handler()(w, req, r.staticParams[req.Method][req.URL.Path])\n")

def m_arg_pool(r):
    # fastInvoke takes its argument slice from a sync.Pool (defer Put) and puts it back once more on the error path
    p = r + "/inject/inject.go"
    rep(p, "import (\n\t\"fmt\"\n\t\"reflect\"\n)", "import (\n\t\"fmt\"\n\t\"reflect\"\n\t\"sync\"\n)\n\nvar argPool = sync.Pool{New: func() interface{} { s := make([]interface{}, 8); return &s }}")
    rep(p, "\t\tin = make([]interface{}, numIn) // Panic if t is not kind of Func\n",
        "\t\tp := argPool.Get().(*[]interface{})\n\t\tdefer argPool.Put(p)\n\t\tif cap(*p) < numIn {\n\t\t\t*p = make([]interface{}, numIn)\n\t\t}\n\t\tin = (*p)[:numIn] // Panic if t is not kind of Func\n")
    s = open(p).read()
    i = s.index("func (inj *injector) fastInvoke")
    j = s.index("return nil, fmt.Errorf(\"value not found for type %v\", argType)", i)
    s = s[:j] + "argPool.Put(p)\n\t\t\t\t" + s[j:]
    open(p, "w").write(s)

def m_append_handlers(r):
    rep(r + "/flame.go", "\tc := newContext(w, r, params, hs, urlPath)\n",
        "\tf.handlers = append(f.handlers[:len(f.handlers):len(f.handlers)], handlers...)[:len(f.handlers)]\n\tc := newContext(w, r, params, hs, urlPath)\n")

def m_cache_leaf(r):
    p = r + "/router.go"
    rep(p, "\thandlerWrapper func(Handler) Handler\n}", "\thandlerWrapper func(Handler) Handler\n\n\tlastLeaf route.Leaf // most recently matched leaf\n}")
    rep(p, "\tparams[\"route\"] = leaf.Route()\n", "\tr.lastLeaf = leaf\n\tparams[\"route\"] = leaf.Route()\n")

def m_pool_contexts(r):
    p = r + "/context.go"
    rep(p, "// newContext creates and returns a new Context.\n",
        "var contextPool []*context\n\n// newContext creates and returns a new Context.\n")
    rep(p, "\tc := &context{\n\t\tInjector:       inject.New(),\n\t\thandlers:       handlers,\n\t\tresponseWriter: NewResponseWriter(r.Method, w),\n\t\trequest:        &Request{Request: r},\n\t\tparams:         Params(params),\n\t\turlPath:        urlPath,\n\t}\n",
        "\tvar c *context\n\tif n := len(contextPool); n > 0 {\n\t\tc = contextPool[n-1]\n\t\tcontextPool = contextPool[:n-1]\n\t} else {\n\t\tc = &context{}\n\t}\n\t*c = context{\n\t\tInjector:       inject.New(),\n\t\thandlers:       handlers,\n\t\tresponseWriter: NewResponseWriter(r.Method, w),\n\t\trequest:        &Request{Request: r},\n\t\tparams:         Params(params),\n\t\turlPath:        urlPath,\n\t}\n")
    rep(p, "func (c *context) run() {\n", "func (c *context) run() {\n\tif c.index == 0 {\n\t\tdefer func() { contextPool = append(contextPool, c) }()\n\t}\n")

def m_leaf_params(r):
    p = r + "/internal/route/leaf.go"
    rep(p, "type baseLeaf struct {\n", "type baseLeaf struct {\n\tlastParams Params // The parameters of the last match.\n")
    rep(p, "func (l *placeholderLeaf) match(segment string, params Params, header http.Header) bool {\n\tif !l.matchHeader(header) {\n\t\treturn false\n\t}\n\tparams[l.bind] = segment\n",
        "func (l *placeholderLeaf) match(segment string, params Params, header http.Header) bool {\n\tif !l.matchHeader(header) {\n\t\treturn false\n\t}\n\tif l.lastParams == nil {\n\t\tl.lastParams = make(Params)\n\t}\n\tl.lastParams[l.bind] = segment\n\tparams[l.bind] = l.lastParams[l.bind]\n")

MUT = {"static_params": m_static_params, "arg_pool": m_arg_pool, "injector_memo": m_injector_memo, "once_nilcheck": m_once_nilcheck, "route_once_nilcheck": m_route_once_nilcheck, "append_handlers": m_append_handlers, "cache_leaf": m_cache_leaf,
       "pool_contexts": m_pool_contexts, "leaf_params": m_leaf_params}

if __name__ == "__main__":
    repo, name = sys.argv[1], sys.argv[2]
    if name == "list":
        print(" ".join(MUT))
    elif name == "reset":
        subprocess.check_call(["git", "checkout", "-q", "."], cwd=repo)
    else:
        subprocess.check_call(["git", "checkout", "-q", "."], cwd=repo)
        MUT[name](repo)
