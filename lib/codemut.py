#!/usr/bin/env python3
"""
Sensitivity of the CODE-LEVEL TIE (DESIGN §18): does a small slip in a translated body break the refinement proofs?

    lib/codemut.py <sites.json> <out.json> i/n          (run it in a COPY of /verif; sites from `lib/srcmut.py sites`)

For every mutation site (mutator/) inside a function whose body is translated to Lean (the `translated` lists of
lean/Flamego/Gen/*Code.lean), the mutant is applied in a scratch worktree of /repo, the translator is run on it, and the
`Props/*Code` modules are rebuilt against that translation — nothing else: no harness, no correspondence. Outcomes:
  no-build      the mutant does not compile (of no interest)
  untranslated  the body left the translated subset (the tie is reported as not re-established)
  proof-broke   the refinement proofs no longer check (the tie is reported as not re-established)
  unchanged     the generated Lean is byte-identical (the mutant touches something the translation does not look at)
  survived      the generated Lean changed and every proof still checks: an equivalent mutant, or a weakness of the theorems
"""
import json, os, re, shutil, subprocess, sys, glob

ROOT = os.path.dirname(os.path.dirname(os.path.abspath(__file__)))
ENV = dict(os.environ, GOFLAGS="-mod=mod", GOPROXY="off", GOSUMDB="off", GOTOOLCHAIN="local")
LEAN = os.path.join(ROOT, "lean")
GEN = os.path.join(LEAN, "Flamego", "Gen")
sys.path.insert(0, os.path.join(ROOT, "lib"))
from props import PROPS


def sh(cmd, **kw):
    p = subprocess.run(cmd, stdout=subprocess.PIPE, stderr=subprocess.STDOUT, text=True, **kw)
    return p.returncode, p.stdout


def main():
    sites = json.load(open(sys.argv[1]))
    i, n = map(int, sys.argv[3].split("/"))
    wt = "/root/scratch/codemut_wt%d" % i
    tmp = "/root/scratch/codemut_gen%d" % i
    # which (file, function) pairs are translated: from the positions the generated files quote
    translated = set()
    for f in glob.glob(os.path.join(GEN, "*Code.lean")):
        for m in re.finditer(r"/-- `func (?:\([^)]*\) )?(\w+)` \((\w+\.go):\d+\) -/", open(f).read()):
            translated.add((m.group(2), m.group(1)))
    code_modules = sorted(set(m for p in PROPS.values() for m in p.get("code_modules", [])))
    mine = [s for s in sites if (os.path.basename(s["file"]), s["func"].split(".")[-1]) in translated]
    mine = [s for k, s in enumerate(mine) if k % n == i - 1]
    pristine = {os.path.basename(f): open(f).read() for f in glob.glob(os.path.join(GEN, "*Code.lean"))}
    subprocess.run(["git", "-C", "/repo", "worktree", "remove", "--force", wt], stdout=subprocess.DEVNULL, stderr=subprocess.DEVNULL)
    shutil.rmtree(wt, ignore_errors=True)
    subprocess.run(["git", "-C", "/repo", "worktree", "prune"])
    rc, out = sh(["git", "-C", "/repo", "worktree", "add", "--detach", wt, "HEAD"])
    assert rc == 0, out
    res = []
    try:
        for s in mine:
            subprocess.run(["git", "-C", wt, "checkout", "--", "."], stdout=subprocess.DEVNULL)
            p = os.path.join(wt, s["file"])
            src = open(p, "rb").read()
            if src[s["start"]:s["end"]].decode() != s["old"]:
                continue
            open(p, "wb").write(src[:s["start"]] + s["new"].encode() + src[s["end"]:])
            r = dict(file=s["file"], func=s["func"], line=s["line"], op=s["op"], old=s["old"][:80], new=s["new"][:80])
            rc, out = sh(["go", "build", "./..."], cwd=wt, env=ENV)
            if rc != 0:
                r["outcome"] = "no-build"
                res.append(r); continue
            shutil.rmtree(tmp, ignore_errors=True)
            sh([os.path.join(ROOT, "build", "translator"), wt, tmp, os.path.join(LEAN, "GenDocumented")], env=ENV)
            rep = {}
            try:
                rep = json.load(open(os.path.join(tmp, "report.json")))
            except Exception:
                pass
            failed = [e for e in (rep.get("failed_emitters") or {}) if e.endswith("Code")]
            changed, dropped = [], []
            for fn, old in pristine.items():
                np_ = os.path.join(tmp, fn)
                if not os.path.exists(np_):
                    continue
                new = open(np_).read()
                if new != old:
                    changed.append(fn)
                    was = set(re.findall(r'"(\w+)"', re.search(r"def translated : List (?:_root_\.)?String := \[([^\]]*)\]", old).group(1)))
                    now = set(re.findall(r'"(\w+)"', re.search(r"def translated : List (?:_root_\.)?String := \[([^\]]*)\]", new).group(1)))
                    dropped += sorted(was - now)
            if failed or dropped:
                r["outcome"] = "untranslated"; r["detail"] = failed + dropped
            elif not changed:
                r["outcome"] = "unchanged"
            else:
                for fn in changed:
                    shutil.copyfile(os.path.join(tmp, fn), os.path.join(GEN, fn))
                rc, out = sh(["lake", "build"] + code_modules, cwd=LEAN)
                r["outcome"] = "proof-broke" if rc != 0 else "survived"
                r["changed"] = changed
                if rc != 0:
                    m = re.findall(r"error: (Flamego/\S+)", out)
                    r["detail"] = sorted(set(x.split(":")[0] for x in m))[:4]
                for fn in changed:
                    open(os.path.join(GEN, fn), "w").write(pristine[fn])
            res.append(r)
            print(json.dumps(r), flush=True)
    finally:
        subprocess.run(["git", "-C", "/repo", "worktree", "remove", "--force", wt], stdout=subprocess.DEVNULL, stderr=subprocess.DEVNULL)
        for fn, old in pristine.items():
            open(os.path.join(GEN, fn), "w").write(old)
        json.dump(res, open(sys.argv[2], "w"), indent=1)


if __name__ == "__main__":
    main()
