#!/bin/bash
# Re-run every quick check on the unchanged /repo so that the committed evidence files come from this tree.
cd "$(dirname "$0")/.."
./check setup >/dev/null 2>&1
fail=0
for p in C01 C02 C03 C04 C05 C06 C07 C08 C09 C10 C11 C12 C13 C14 C15 C16 C17 C18; do
  out=$(./check $p quick 2>&1 | grep -E "^(OK|VIOLATION|BROKEN)" | cut -c1-160)
  echo "$out"
  case "$out" in OK*) ;; *) fail=1;; esac
done
python3-vt -c "
import json,jsonschema,glob
s=json.load(open('/root/.vp/EVIDENCE.schema.json'))
for f in sorted(glob.glob('evidence/*.json')):
    e=json.load(open(f)); jsonschema.validate(e,s)
    c=e['coverage']; assert c.get('obligations',0)>=1 and c.get('discharged')==c.get('obligations'), f
print('evidence valid:', len(glob.glob('evidence/*.json')))"
exit $fail
