#!/usr/bin/env python3
"""
Constant-mutation self-test: is a changed constant of the SOURCE reported with a concrete failing input?

    lib/constmut.py [--only name,name…] [--out file.json] [--shard i/n]      (run it in a COPY of /verif)

The translator knows where it read every constant of Gen/ConstFacts.lean (VERIF_FACT_SITES). For each one the
literal in a scratch worktree of the repository is changed (a string gets one more byte, a number + 1), the
tree is built, and the quick check of the property the constant serves is run against it (VERIF_REPO).
Expected: `VIOLATION … replay=…counterexample…` — the build-time obligation `…_documented` breaks, the model is
rebuilt with the documented value, and the correspondence shows an input on which the code no longer behaves
like it (DESIGN §12.3). `no-failing-input-found` or `OK` means the generators do not exercise that constant.
"""
import json, os, re, shutil, subprocess, sys, time

ROOT = os.path.dirname(os.path.dirname(os.path.abspath(__file__)))
sys.path.insert(0, os.path.join(ROOT, "lib"))
from constsens import parse_defs, GEN

WT = os.environ.get("TRYSEED_WT", "/root/scratch/wtmut")
ENV = dict(os.environ, GOFLAGS="-mod=mod", GOPROXY="off", GOSUMDB="off", GOTOOLCHAIN="local")


def sh(cmd, **kw):
    p = subprocess.run(cmd, stdout=subprocess.PIPE, stderr=subprocess.STDOUT, text=True, **kw)
    return p.returncode, p.stdout


def mutate_text(site):
    t, k = site["text"], site["kind"]
    if k == "num":
        return "(%s + 1)" % t
    if k == "str":
        if len(t) >= 2 and t[0] in "\"`" and t[-1] == t[0]:
            return t[:-1] + "x" + t[-1]
        return "(%s + \"x\")" % t
    return None


def main():
    only, outp, shard = None, os.path.join(ROOT, "build", "constmut.json"), (0, 1)
    args = sys.argv[1:]
    for i, a in enumerate(args):
        if a == "--only":
            only = set(args[i + 1].split(","))
        if a == "--out":
            outp = args[i + 1]
        if a == "--shard":
            x, y = args[i + 1].split("/")
            shard = (int(x), int(y))
    rc, out = sh([os.path.join(ROOT, "check"), "setup"], cwd=ROOT)
    assert rc == 0, out[-2000:]
    sites_path = os.path.join(ROOT, "build", "fact_sites.json")
    tmp = os.path.join(ROOT, "build", "gen.sites")
    shutil.rmtree(tmp, ignore_errors=True)
    sh([os.path.join(ROOT, "build", "translator"), "/repo", tmp, os.path.join(ROOT, "lean", "GenDocumented")],
       env=dict(ENV, VERIF_FACT_SITES=sites_path))
    sites = json.load(open(sites_path))
    _, defs = parse_defs(os.path.join(GEN, "ConstFacts.lean"))
    group = {d["name"]: d["group"] for d in defs}
    subprocess.run(["git", "-C", "/repo", "worktree", "remove", "--force", WT], stdout=subprocess.DEVNULL, stderr=subprocess.DEVNULL)
    shutil.rmtree(WT, ignore_errors=True)
    subprocess.run(["git", "-C", "/repo", "worktree", "prune"])
    rc, out = sh(["git", "-C", "/repo", "worktree", "add", "--detach", WT, "HEAD"])
    assert rc == 0, out
    results = []
    names = sorted(n for n in sites if sites[n] and group.get(n))
    names = [n for i, n in enumerate(names) if i % shard[1] == shard[0]]
    try:
        for name in names:
            if only and name not in only:
                continue
            site = sites[name][0]
            new = mutate_text(site)
            if new is None:
                results.append({"name": name, "result": "skipped", "why": "kind " + site["kind"]})
                continue
            path = os.path.join(WT, site["file"])
            src = open(path, "rb").read()
            if src[site["start"]:site["end"]].decode() != site["text"]:
                results.append({"name": name, "result": "skipped", "why": "site text mismatch"})
                continue
            open(path, "wb").write(src[:site["start"]] + new.encode() + src[site["end"]:])
            t0 = time.time()
            rc, out = sh(["go", "build", "./..."], cwd=WT, env=ENV)
            if rc != 0:
                res = {"name": name, "result": "nocompile", "detail": out[-300:]}
            else:
                pid = group[name]
                rc, out = sh([os.path.join(ROOT, "check"), pid, "quick"], cwd=ROOT, env=dict(os.environ, VERIF_REPO=WT))
                v = [l for l in out.splitlines() if l.startswith(("VIOLATION", "OK ", "BROKEN"))]
                line = v[-1] if v else "?"
                if line.startswith("VIOLATION") and "no-failing-input-found" not in line:
                    kind = "caught"
                elif line.startswith("VIOLATION"):
                    kind = "OBLIGATION-ONLY"
                elif line.startswith("OK"):
                    kind = "MISSED"
                else:
                    kind = "broken"
                res = {"name": name, "serves": pid, "result": kind, "verdict": line[:200]}
            res.update(site={"file": site["file"], "text": site["text"], "mutated": new}, seconds=round(time.time() - t0, 1))
            results.append(res)
            print(json.dumps(res), flush=True)
            subprocess.run(["git", "-C", WT, "checkout", "--", "."])
    finally:
        subprocess.run(["git", "-C", "/repo", "worktree", "remove", "--force", WT], stdout=subprocess.DEVNULL, stderr=subprocess.DEVNULL)
        shutil.rmtree(WT, ignore_errors=True)
        sh([os.path.join(ROOT, "check"), "setup"], cwd=ROOT)
    summary = {"mutants": len(results), "caught": sum(r["result"] == "caught" for r in results),
               "not_caught": [r["name"] + ":" + r["result"] for r in results if r["result"] not in ("caught", "skipped", "nocompile")],
               "results": results}
    json.dump(summary, open(outp, "w"), indent=1)
    print("SUMMARY", json.dumps({k: v for k, v in summary.items() if k != "results"}))


if __name__ == "__main__":
    main()
