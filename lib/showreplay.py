#!/usr/bin/env python3
"""pretty-print a replay file with hex fields decoded"""
import json, sys, re
def dec(tok):
    def d(h):
        if h == "-": return "''"
        try: return repr(bytes.fromhex(h).decode("latin-1"))
        except Exception: return h
    return re.sub(r"\b([0-9a-f]{2})+\b|(?<![\w-])-(?![\w-])", lambda m: d(m.group(0)), tok)
r = json.load(open(sys.argv[1]))
bad = set(r.get("diverging_lines") or [])
for i, op in enumerate(r["ops"]):
    print(("!! " if i in bad else "   ") + dec(op))
    if i in bad:
        print("      real : " + dec(r["real"][i]))
        print("      model: " + dec(r["model"][i]))
