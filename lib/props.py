"""Per-property configuration for /verif/check."""
import hashlib

COMMON_TRUST = [
    "Lean 4.33.0 kernel (axioms allowed: propext, Classical.choice, Quot.sound; audited per theorem by #print axioms)",
    "the Lean statement of the property in lean/Flamego/Props/<id>.lean as a reading of properties.jsonl",
    "the correspondence check (Go harness + line protocol + generators) that ties the hand-written model to /repo",
    "the translator that regenerates lean/Flamego/Gen/Facts.lean from /repo's source",
]


def _sess_key(lines, a, b):
    return hashlib.sha1("\n".join(lines[a + 1:b]).encode()).hexdigest()


def generic_stats(nontrivial, rule, sample_n=3):
    """distinct sessions (by their op lines) that are non-trivial by `nontrivial(sess_lines, real_out)`"""
    def f(lines, sessions, R, M):
        seen, nt, kinds, samples = set(), 0, {}, []
        for (a, b) in sessions:
            k = _sess_key(lines, a, b)
            hdr = lines[a].split()
            kinds[hdr[1]] = kinds.get(hdr[1], 0) + 1
            if k in seen:
                continue
            seen.add(k)
            if nontrivial(lines[a:b], R[a:b]):
                nt += 1
                if len(samples) < sample_n and b - a > 3:
                    samples.append({"ops": lines[a:b][:30], "real": R[a:b][:30]})
        if not samples and sessions:
            a, b = sessions[0]
            samples.append({"ops": lines[a:b][:30], "real": R[a:b][:30]})
        return {"distinct_sessions": len(seen), "distinct_nontrivial": nt, "rule": rule,
                "session_kinds": kinds, "samples": samples}
    return f


def no_known(k, sess, R, M):
    return False


PROPS = {}

# ---------------------------------------------------------------------------------- C13
def _c13_nontrivial(sess, real):
    # a status was sent and at least one hook or body/flush event surrounds it
    return any(l.startswith("trace ") and "hdr" in l and "," in l for l in real)

PROPS["C13"] = {
    "technique": "Lean 4 theorems (closed form of the writer state machine, all op sequences) + differential correspondence with the real responseWriter",
    "level_text": "Every clause of C13 is a Lean theorem over Model/Writer for all operation sequences, methods and short writes "
                  "(closed form in terms of the first trigger); the model is tied to response_writer.go by an exhaustive-to-depth "
                  "and random differential check against a spy writer on every run.",
    "level_note": "Trusted: Lean kernel; the model is hand-written and tied by differential testing only; hooks are observers; codes 100..999.",
    "props_modules": ["Flamego.Props.C13"],
    "suite": "C13",
    "stats": generic_stats(_c13_nontrivial,
        "sessions = operation sequences on one responseWriter (exhaustive to a depth over a 9-op alphabet for GET and HEAD, "
        "then random up to 13 ops); distinct by op text; non-trivial = a status line was sent AND the underlying trace has "
        "at least one more event (hook, body, flush)"),
    "known_match": no_known,
    "trusted_base": COMMON_TRUST + [
        "modelled, not verified: the wrapped http.ResponseWriter is a spy that accepts the number of bytes it is told to; "
        "hooks are observers (a hook calling back into the writer deadlocks on sync.Once in Go and is outside the model)",
        "guard: status codes 100..999 (net/http panics on others)"],
    "assumptions": ["sync.Once and atomic int32 behave sequentially within one request (single goroutine)"],
}


HOOK_COMMITS = ["a5cf397"]

_ALL = ['C01', 'C02', 'C03', 'C04', 'C05', 'C06', 'C07', 'C08', 'C09', 'C10', 'C11', 'C12', 'C13', 'C14', 'C15', 'C16', 'C17', 'C18']
NOT_APPLICABLE = [
    {"property_id": p, "reason": "check not built yet in this revision (work in progress; see DESIGN.md §11 for the plan)"}
    for p in _ALL if p not in PROPS
]
