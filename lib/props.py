"""Per-property configuration for /verif/check."""
import hashlib

COMMON_TRUST = [
    "Lean 4.33.0 kernel (axioms allowed: propext, Classical.choice, Quot.sound; audited per theorem by #print axioms)",
    "the Lean statement of the property in lean/Flamego/Props/<id>.lean as a reading of properties.jsonl",
    "the correspondence check (Go harness + line protocol + generators) that ties the hand-written model to /repo",
    "the translator that regenerates lean/Flamego/Gen/Facts.lean from /repo's source",
]


def _sess_key(lines, a, b):
    return hashlib.sha1("\n".join(lines[a + 1:b]).encode()).hexdigest()


def generic_stats(nontrivial, rule, sample_n=3):
    """distinct sessions (by their op lines) that are non-trivial by `nontrivial(sess_lines, real_out)`"""
    def f(lines, sessions, R, M):
        seen, nt, kinds, samples = set(), 0, {}, []
        for (a, b) in sessions:
            k = _sess_key(lines, a, b)
            hdr = lines[a].split()
            kinds[hdr[1]] = kinds.get(hdr[1], 0) + 1
            if k in seen:
                continue
            seen.add(k)
            if nontrivial(lines[a:b], R[a:b]):
                nt += 1
                if len(samples) < sample_n and b - a > 3:
                    samples.append({"ops": lines[a:b][:30], "real": R[a:b][:30]})
        if not samples and sessions:
            a, b = sessions[0]
            samples.append({"ops": lines[a:b][:30], "real": R[a:b][:30]})
        return {"distinct_sessions": len(seen), "distinct_nontrivial": nt, "rule": rule,
                "session_kinds": kinds, "samples": samples}
    return f


def no_known(k, sess, R, M):
    return False


PROPS = {}

# ---------------------------------------------------------------------------------- C13
def _c13_nontrivial(sess, real):
    # a status was sent and at least one hook or body/flush event surrounds it
    return any(l.startswith("trace ") and "hdr" in l and "," in l for l in real)

PROPS["C13"] = {
    "technique": "Lean 4 theorems (closed form of the writer state machine, all op sequences) + differential correspondence with the real responseWriter",
    "level_text": "Every clause of C13 is a Lean theorem over Model/Writer for all operation sequences, methods and short writes "
                  "(closed form in terms of the first trigger); the model is tied to response_writer.go by an exhaustive-to-depth "
                  "and random differential check against a spy writer on every run.",
    "level_note": "Trusted: Lean kernel; the model is hand-written and tied by differential testing only; hooks are observers; codes 100..999.",
    "props_modules": ["Flamego.Props.C13"],
    "suite": "C13",
    "stats": generic_stats(_c13_nontrivial,
        "sessions = operation sequences on one responseWriter (exhaustive to a depth over a 9-op alphabet for GET and HEAD, "
        "then random up to 13 ops); distinct by op text; non-trivial = a status line was sent AND the underlying trace has "
        "at least one more event (hook, body, flush)"),
    "known_match": no_known,
    "trusted_base": COMMON_TRUST + [
        "modelled, not verified: the wrapped http.ResponseWriter is a spy that accepts the number of bytes it is told to; "
        "hooks are observers (a hook calling back into the writer deadlocks on sync.Once in Go and is outside the model)",
        "guard: status codes 100..999 (net/http panics on others)"],
    "assumptions": ["sync.Once and atomic int32 behave sequentially within one request (single goroutine)"],
}

# ------------------------------------------------------------------- router suites
import router_props as rp

ROUTER_TRUST = COMMON_TRUST + [
    "parameter: Go's regexp engine (every theorem is quantified over all engines; at run time the model is given "
    "Go's own answers through the two-pass oracle protocol)",
    "parameter: net/http header canonicalisation (the harness sends canonical names)",
    "the AST on each ADD line is what the real route parser returns for the text (text ↔ AST is property C06's tie)",
]

PROPS["C01"] = {
    "technique": "Lean 4 theorems over the route-tree model (all route sets, orders, paths) + differential correspondence "
                 "of Flame.ServeHTTP and route.Tree.Match with the model",
    "level_text": "Dispatch is modelled executably (registration with rank insertion, backtracking matcher, router layer); "
                  "theorems are over all route sets/registration orders/paths; the model is tied to tree.go/leaf.go/router.go by "
                  "a differential check on random and small-scope-exhaustive route sets at both the Flame and the Tree level.",
    "level_note": "Trusted: Lean kernel; hand-written model tied by differential testing; regexp is a parameter.",
    "props_modules": ["Flamego.Props.C01"],
    "suite": "C01",
    "compare": lambda s, R, M: rp.cmp_dispatch(s, R, M),
    "stats": rp.router_stats(lambda op, r, m, n: r.startswith("h ") and n >= 2,
        "case = (registered route set, request); distinct by route texts + request line; non-trivial = the request was "
        "dispatched to a handler while at least two routes were registered"),
    "known_match": no_known,
    "trusted_base": ROUTER_TRUST,
    "assumptions": ["regexp.FindStringSubmatch / MatchString are deterministic functions of (pattern, input)"],
}

def _router_entry(pid, technique, level_text, compare, nontrivial, rule, extra_trust=()):
    PROPS[pid] = {
        "technique": technique,
        "level_text": level_text,
        "level_note": "Trusted: Lean kernel; hand-written model tied by differential testing; regexp, net/http header "
                      "canonicalisation and the text→AST step of the real parser are parameters.",
        "props_modules": ["Flamego.Props." + pid],
        "suite": pid,
        "compare": compare,
        "stats": rp.router_stats(nontrivial, rule),
        "known_match": no_known,
        "trusted_base": ROUTER_TRUST + list(extra_trust),
        "assumptions": ["regexp.FindStringSubmatch / MatchString are deterministic functions of (pattern, input)"],
    }

_router_entry("C02",
    "Lean 4 theorems over the matcher's parameter threading + differential correspondence of handler-visible params, Tree.Match params and URLPath re-assembly",
    "Parameters are modelled exactly as the matcher threads them (including values left by abandoned branches); theorems over all "
    "routes/paths; correspondence compares, for every dispatched request, the values of the winning form's binds, `route`, and the "
    "URL rebuilt from them, at Flame and Tree level.",
    lambda s, R, M: rp.cmp_dispatch(s, R, M, params=True),
    lambda op, r, m, n: r.startswith("h ") and "=" in (m.split()[3] if len(m.split()) > 3 else ""),
    "case = (route set, request); non-trivial = dispatched to a route whose winning form has at least one bind")
_router_entry("C07",
    "Lean 4 theorems (serve is a total function with exactly one outcome; index-level matcher never slices out of range) + "
    "differential correspondence on arbitrary byte paths, methods and headers with recover() around ServeHTTP",
    "Totality and single-outcome are by construction of the model; the correspondence feeds arbitrary bytes as path/method/headers, "
    "recovers panics, counts chains through an application middleware and issues every request twice.",
    lambda s, R, M: rp.cmp_dispatch(s, R, M, chains=True),
    lambda op, r, m, n: True,
    "case = (route set, request); every distinct case counts (the quantifier is 'any request whatsoever'); distribution shows raw-byte paths and odd methods")
_router_entry("C08",
    "Lean 4 theorems over addRoute (rejections and acceptance) + differential correspondence of registration verdicts (panic / no panic) and subsequent reachability",
    "Registration is modelled with every rejection of tree.go/leaf.go/router.go; the correspondence compares ok/err of every "
    "registration in random valid+invalid histories (panics recovered) and then dispatch on instances of the accepted routes.",
    lambda s, R, M: rp.cmp_dispatch(s, R, M, setup=True),
    lambda op, r, m, n: n >= 1,
    "case = (history of registrations, request after it); non-trivial = at least one registration was accepted; the distribution counts accepted and rejected registrations")
_router_entry("C09",
    "Lean 4 theorems over the header-constraint table and leaf eligibility + differential correspondence with Headers() re-specification and header-carrying requests",
    "Constraints are modelled per registration handle, consulted by every leaf of it (both forms, every method); theorems cover "
    "replacement, the eligibility test and eviction from the fast path; the correspondence interleaves Headers() calls and requests.",
    lambda s, R, M: rp.cmp_dispatch(s, R, M, setup=True),
    lambda op, r, m, n: " " in op.strip() and len(op.split()) > 3,
    "case = (route set with constraints, request); non-trivial = the request carries at least one header field")
_router_entry("C10",
    "Lean 4 theorems (fast-path table invariant ⇒ serve = serveTreeOnly) + differential correspondence Flame.ServeHTTP vs route.Tree.Match on an identically populated tree vs the model",
    "The shortcut table is part of the router model; theorem: table miss ⇒ tree; invariant-based unobservability; the correspondence "
    "runs every request against the real Flame and a shadow tree populated through the export, in histories interleaving "
    "registrations, Headers() and requests.",
    lambda s, R, M: rp.cmp_dispatch(s, R, M, params=True),
    lambda op, r, m, n: r.startswith("h "),
    "case = (history, request); non-trivial = dispatched (to a static or shadowing dynamic route)")
_router_entry("C12",
    "Lean 4 theorems over skeleton/replaceAll/name table + differential correspondence of Router.URLPath / Context.URLPath / Leaf.URLPath",
    "URL building is modelled as skeleton + a model of strings.Replacer; name-table panics are theorems; the correspondence builds "
    "URLs for named routes with values containing braces, other bind names, slashes and empty strings, with and without the optional segment.",
    lambda s, R, M: rp.cmp_dispatch(s, R, M, params=True, setup=True, urls=True),
    lambda op, r, m, n: op.startswith("URL") or r.startswith("h "),
    "case = (route set, URL-building call or dispatched request); counted when a URL was built",
    extra_trust=["parameter: strings.Replacer (modelled as leftmost, first-listed-key replacement and differentially checked); "
                 "bind names are brace-free in generated cases because Go's map order makes colliding keys non-deterministic"])

HOOK_COMMITS = ["a5cf397"]

_ALL = ['C01', 'C02', 'C03', 'C04', 'C05', 'C06', 'C07', 'C08', 'C09', 'C10', 'C11', 'C12', 'C13', 'C14', 'C15', 'C16', 'C17', 'C18']
NOT_APPLICABLE = [
    {"property_id": p, "reason": "check not built yet in this revision (work in progress; see DESIGN.md §11 for the plan)"}
    for p in _ALL if p not in PROPS
]
