"""Per-property configuration for /verif/check."""
import hashlib

COMMON_TRUST = [
    "Lean 4.33.0 kernel (axioms allowed: propext, Classical.choice, Quot.sound; audited per theorem by #print axioms)",
    "the Lean statement of the property in lean/Flamego/Props/<id>.lean as a reading of properties.jsonl",
    "the correspondence check (Go harness + line protocol + generators) that ties the hand-written model to /repo",
    "the translator that regenerates lean/Flamego/Gen/Facts.lean from /repo's source",
]


def _sess_key(lines, a, b):
    return hashlib.sha1("\n".join(lines[a + 1:b]).encode()).hexdigest()


def generic_stats(nontrivial, rule, sample_n=3):
    """distinct sessions (by their op lines) that are non-trivial by `nontrivial(sess_lines, real_out)`"""
    def f(lines, sessions, R, M):
        seen, nt, kinds, samples = set(), 0, {}, []
        for (a, b) in sessions:
            k = _sess_key(lines, a, b)
            hdr = lines[a].split()
            kinds[hdr[1]] = kinds.get(hdr[1], 0) + 1
            if k in seen:
                continue
            seen.add(k)
            if nontrivial(lines[a:b], R[a:b]):
                nt += 1
                if len(samples) < sample_n and b - a > 3:
                    samples.append({"ops": lines[a:b][:30], "real": R[a:b][:30]})
        if not samples and sessions:
            a, b = sessions[0]
            samples.append({"ops": lines[a:b][:30], "real": R[a:b][:30]})
        return {"distinct_sessions": len(seen), "distinct_nontrivial": nt, "rule": rule,
                "session_kinds": kinds, "samples": samples}
    return f


def no_known(k, sess, R, M):
    return False


PROPS = {}

# ---------------------------------------------------------------------------------- C13
def _c13_nontrivial(sess, real):
    # a status was sent and at least one hook or body/flush event surrounds it
    return any(l.startswith("trace ") and "hdr" in l and "," in l for l in real)

PROPS["C13"] = {
    "technique": "Lean 4 theorems (closed form of the writer state machine, all op sequences); tie to the source of both kinds: the method bodies of response_writer.go are translated to Lean on every run and proved to refine the machine for all states (code-level refinement), and the real responseWriter is run against the model (differential correspondence)",
    "level_text": "Every clause of C13 is a Lean theorem over Model/Writer for all operation sequences, methods and short writes "
                  "(closed form in terms of the first trigger); the model is tied to response_writer.go by an exhaustive-to-depth "
                  "and random differential check against a spy writer on every run. Stacks of two writers (a flamego writer wrapping "
                  "another one: mounted applications, sub-requests) are modelled too (Model/WriterNest): stack_projects shows each "
                  "level is an ordinary writer on an operation sequence of its own, so every clause holds at both levels "
                  "(stack_client_one_status, stack_client_status_first, stack_levels_truthful, stack_head_no_body); exhaustive and "
                  "random two-level sessions over all four method pairs are compared on every run. "
                  "CODE-LEVEL TIE: /verif/translator (gocode.go) regenerates Gen/WriterCode.lean from response_writer.go on every run — "
                  "the struct field by field, NewResponseWriter, callBefore, WriteHeader, Write, Flush, Before, Status, Size, Written as "
                  "pure state-passing functions — and Props/C13Code proves for ALL states, arguments and answers of the wrapped writer "
                  "that each generated method is one step of Model/Writer (writeHeader_refines, write_refines, flush_refines …), hence "
                  "for every call sequence (code_refines, code_is_machine) and every clause (code_at_most_one_status, "
                  "code_status_before_body, code_status_truthful, code_size_truthful, code_written_iff, code_head_no_body). When the "
                  "source leaves the translated subset or the refinement no longer checks, the evidence says so and the "
                  "correspondence, run over four seeds instead of one, is the tie that decides.",
    "level_note": "Trusted: Lean kernel; the translator of method bodies (gocode.go) and its conventions (Code/GoSem.lean: environment objects answer arbitrarily, hooks are observers, integers do not wrap); the hand-written machine is additionally tied by differential testing; codes 100..999.",
    "props_modules": ["Flamego.Props.C13", "Flamego.Props.C13Nest", "Flamego.Props.C13Late"],
    "code_modules": ["Flamego.Props.C13Code"],
    "suite": "C13",
    "stats": generic_stats(_c13_nontrivial,
        "sessions = operation sequences on one responseWriter (exhaustive to a depth over a 9-op alphabet for GET and HEAD, "
        "then random up to 13 ops) and on a stack of two (inner wraps outer; exhaustive to depth 2/3 over both levels and the four "
        "GET/HEAD pairs, then random); distinct by op text; non-trivial = a status line was sent AND the underlying trace has "
        "at least one more event (hook, body, flush)"),
    "known_match": no_known,
    "trusted_base": COMMON_TRUST + [
        "modelled, not verified: the wrapped http.ResponseWriter is a spy that accepts the number of bytes it is told to; "
        "hooks are observers (a hook calling back into the writer deadlocks on sync.Once in Go and is outside the model)",
        "guard: status codes 100..999 (net/http panics on others)",
        "code-level tie: the Go→Lean translator of method bodies (translator/gocode.go, ~900 lines: a documented subset — field "
        "updates, calls of own methods hoisted in evaluation order, if/return restructuring, sync.Once.Do as a done flag, "
        "sync/atomic loads and stores as plain accesses, calls on the embedded interface as recorded environment calls with "
        "arbitrary answers, the descending-index loop idiom) and Code/GoSem.lean; Hijack and Push are not translated (listed in "
        "the generated file) and no clause of C13 speaks about them"],
    "assumptions": ["sync.Once and atomic int32 behave sequentially within one request (single goroutine)",
                    "the wrapped http.ResponseWriter is an http.Flusher and never reports a negative byte count (hypotheses "
                    "`World` of the code-level theorems; both are facts of net/http's own writers)"],
}


def _conc_plain_extra(ctx):
    """C07 under load: the ordinary (non -race) harness serves the C05 request mix from N goroutines on fresh
    instances and compares every response with the serial outcome of the same request, a few seeds in a row.
    A response that differs, or a process the Go runtime aborts (concurrent map access, nil dereference in a
    half-built cache), is a failing history: serving is no longer total / a function of routes and request."""
    import json, os, subprocess
    workdir, out_paths = ctx["workdir"], []
    cov = ctx["ev"]["coverage"]
    rounds = 8 if ctx["tier"] == "quick" else 40
    served = 0
    for k in range(rounds):
        outdir = os.path.join(workdir, "conc%d" % k)
        os.makedirs(outdir, exist_ok=True)
        seed = ctx["seed"] * 100 + k
        try:
            p = subprocess.run([ctx["HARNESS"], "conc", str(seed), "quick", outdir], env=ctx["GOENV"],
                               stdout=subprocess.PIPE, stderr=subprocess.PIPE, text=True, timeout=600)
            rc, so, se = p.returncode, p.stdout, p.stderr
        except subprocess.TimeoutExpired:
            rc, so, se = -9, "", "hang: the concurrent run did not finish within 600 s"
        summary = {}
        for line in so.splitlines():
            if line.startswith("{"):
                try:
                    summary = json.loads(line)
                except ValueError:
                    pass
        served += summary.get("served_concurrently", 0)
        if rc == 0:
            continue
        div = {}
        try:
            div = json.load(open(os.path.join(outdir, "divergence.json")))
        except Exception:
            pass
        out_paths.append(ctx["write_replay"](ctx["pid"], "concurrent", {
            "what": "requests served from several goroutines on one instance: a response differs from the serial outcome of the "
                    "same request, or the Go runtime aborted the process",
            "divergence": div, "exit_status": rc, "stderr_head": se[:6000].split("\n"), "summary": summary, "seed": seed,
            "how_to_replay": "build/harness conc %d quick <dir>   (a goroutine schedule cannot be replayed deterministically: "
                             "the replay is the program and the seed; it failed in round %d of %d)" % (seed, k + 1, rounds),
            "ops": ["NEW noop"]}))
        break
    cov["concurrent_rounds"] = {"rounds": rounds, "served_concurrently": served,
                                "cmd": "build/harness conc <seed*100+k> quick <dir>  (no race detector: responses vs serial outcome, runtime aborts)"}
    return out_paths

# ---------------------------------------------------------------------------------- C14
def _c14_nontrivial(sess, real):
    # at least one request of the session got a status line out through the return handler
    for l in real[1:]:
        f = l.split()
        if len(f) in (4, 6) and f[0] != "0":
            return True
    return False

PROPS["C14"] = {
    "technique": "Lean 4 theorems (the return-value table composed with the response-writer machine, all payloads) + "
                 "differential correspondence with a real Flame serving handlers of every supported result shape",
    "level_text": "Every row of C14's table is a Lean theorem over Model/Return (the repaired defaultReturnHandler, finding F14) "
                  "executed on Model/Writer, for all payloads, statuses 100..999 and GET/HEAD; `zero_writes_nothing`, "
                  "`written_iff_nonempty`, `fast_eq_reflective`, `custom_handler_replaces` cover the remaining clauses. The model is "
                  "tied to return_handler.go / context.go run() / teapotInvoker by an exhaustive small-scope and random differential "
                  "check: real handlers of 31 Go func types at five chain positions — and the result lists of the table lifted over the "
                  "parameter lists (Context) / (http.ResponseWriter, *http.Request) / (Context, *http.Request) / (*http.Request), i.e. every "
                  "complete signature the framework may special-case with a FastInvoker — served by a real Flame on every run; error "
                  "values of concrete kind struct, pointer, string, byte slice, int and func behind the static type error / interface{}.",
    "level_note": "Trusted: Lean kernel; hand-written model tied by differential testing only. `(int, x)` always sends the int "
                  "status, even when x is nil/empty (chain stops) and panics in net/http when the int is outside 100..999 — "
                  "stated as theorems, the literal 'zero results write nothing' reading for (0, \"\") is proved false.",
    "props_modules": ["Flamego.Props.C14"],
    "suite": "C14",
    "stats": generic_stats(_c14_nontrivial,
        "sessions = one Flame (method, chain position, handler func type, optional custom ReturnHandler, optional pre-write) "
        "serving 1..n requests whose handler returns the listed values (func types `<P>.<base>`: the result list of <base> behind the "
        "parameter list P = C|W|Q|R, exhaustive over the table's rows with the small value pools, a third of the random draws), plus `retseq` sessions: one Flame, each request one chain "
        "of up to 8 handlers that return values and/or Map a ReturnHandler into the request or app scope mid-chain (exhaustive "
        "to depth 4/5 over a 9-step alphabet, then random), plus `retnest` sessions: a nested request with its own func() (int, string) "
        "handler is served (from a Before hook or from a custom ReturnHandler) while the outer handler's result is being rendered, "
        "all pairings of fast/reflective invocation; distinct by the op lines; non-trivial = at least one "
        "request got a status line out through the return handler"),
    "known_match": no_known,
    "trusted_base": COMMON_TRUST + [
        "modelled, not verified: reflect (Kind / IsZero / Elem / Interface().(error) per value are read off the value "
        "description the generator emits; Value.String() of a non-string kind is the parameter `ph`, computed with reflect by the harness)",
        "modelled, not verified: net/http rejects status codes outside 100..999 with a panic (httptest.ResponseRecorder does the same); "
        "the recorder, unlike a real server, treats 1xx as final and does not strip bodies for 204/304 — codes are compared as recorded",
        "the injector lookup of the ReturnHandler is a parameter (request scope, then app scope) — C04 proves the scope rule"],
    "assumptions": ["a value's Error() method is deterministic; an Error() that panics is modelled as Act.panic after the 500 status",
                    "convention: a value whose dynamic type implements error AND whose static result type is that concrete type has a kind "
                    "other than Int/String/byte-slice (behind the static type error / interface{} every kind is generated: the table "
                    "asserts error before it looks at the kind)",
                    "the wrapped writer accepts every byte (short writes are C13's subject)"],
}

# ---------------------------------------------------------------------------------- C04
def _c04_line_equal(real, model):
    """token by token; a comma-separated field of the model may list alternatives `a|b` per position
    (Go's map iteration picks among several implementors of an interface): the real value must be one of them"""
    if real == model:
        return True
    rt, mt = real.split(" "), model.split(" ")
    if len(rt) != len(mt):
        return False
    for a, b in zip(rt, mt):
        if a == b:
            continue
        ap, bp = a.split(","), b.split(",")
        if len(ap) != len(bp):
            return False
        for x, y in zip(ap, bp):
            if x not in y.split("|"):
                return False
    return True

def _c04_nontrivial(sess, real):
    # at least two registrations were made AND a lookup / invocation / Apply delivered a registered value
    regs = sum(1 for l in sess if l.split(" ")[0] in ("M", "MT", "S", "FM", "FMT")) + sum(l.count(".") // 2 for l in sess if l[:2] in ("H ", "U "))
    hit = any(r.startswith("val ") or (r.startswith("ran ") and not r.startswith("ran - ")) or
              (r.startswith("fields ") and any(x not in ("0", "-") for x in r.split(" ")[1].split(","))) for r in real)
    return regs >= 2 and hit

def _c04_stats(lines, sessions, R, M):
    st = generic_stats(_c04_nontrivial,
        "sessions = registrations (Map/MapTo/Set) on 1..3 nested injectors interleaved with Value, Invoke (plain MakeFunc "
        "function and hand-written FastInvoker of the same signature) and Apply, exhaustive over a 5-registration alphabet per "
        "scope first, then random; plus sessions on a real Flame (app-scope Map, request-scope Map inside handlers, several "
        "requests, the built-in auto-wrapped shapes); distinct by op text; non-trivial = at least two registrations AND some "
        "lookup/invocation/Apply delivered a registered value")(lines, sessions, R, M)
    st["lines_with_several_admissible_values"] = sum(1 for m in M if "|" in m)
    st["invocations_ran"] = sum(1 for r in R if r.startswith("ran "))
    st["invocations_not_found"] = sum(1 for r in R if r.startswith("err "))
    st["requests_served"] = sum(1 for l in lines if l == "RQ")
    st["requests_panicked_not_found"] = sum(1 for r in R if r.endswith("resp panic"))
    st["apply_errors"] = sum(1 for r in R if r.startswith("fields ") and "err=notfound" in r)
    return st

PROPS["C04"] = {
    "technique": "Lean 4 theorems over a model of the injector scope chain (all universes, chains, signatures, map-iteration choices) "
                 "+ differential correspondence with the real inject package and a real Flame",
    "level_text": "Every clause of C04 is a Lean theorem over Model/Inject for all type universes, scope chains of any length, registration "
                  "orders, handler signatures, struct layouts and map-iteration choices; the model is tied to inject/inject.go, handler.go, "
                  "context.go and flame.go by an exhaustive small-scope and random differential check (reflect.MakeFunc handlers, "
                  "hand-written and built-in FastInvokers, reflect.StructOf structs, real requests through a Flame) on every run.",
    "level_note": "Trusted: Lean kernel; the model is hand-written and tied by differential testing only; where several implementors of an "
                  "interface sit in one scope the Go answer depends on map iteration and is compared by membership in the model's set.",
    "props_modules": ["Flamego.Props.C04"],
    "suite": "C04",
    "stats": _c04_stats,
    "compare": lambda sess, R, M: [i for i in range(len(sess)) if i >= len(R) or i >= len(M) or not _c04_line_equal(R[i], M[i])],
    "known_match": no_known,
    "trusted_base": COMMON_TRUST + [
        "reflect (Type identity as map key, Kind, Implements, Call, MakeFunc, StructOf, CanSet, Tag.Lookup) behaves as documented; the "
        "universe's isInterface/implements relation is computed by reflect in the harness and sent to the model",
        "guard: registered values are valid reflect.Values (no Map(nil), no Set(t, reflect.Value{})) and MapTo/Set values are assignable "
        "to the key type; parent links are acyclic (a cyclic SetParent makes Value recurse forever)",
        "modelled, not verified: a FastInvoker's own Invoke method is user code; the theorems cover positional wrappers (the built-in "
        "ContextInvoker, httpHandlerFuncInvoker, teapotInvoker, LoggerInvoker and the harness's generic ones)"],
    "assumptions": ["Go map iteration may visit the entries of one injector in any order, independently per lookup",
                    "one request's handlers run sequentially on one goroutine (concurrent requests are C05)"],
}

# ---------------------------------------------------------------------------------- C16
def _c16_stats(lines, sessions, R, M):
    """distinct = (session options, request) pairs; non-trivial = the request got past the method and
    prefix filters, i.e. the middleware touched the file system (an open happened) or answered."""
    seen, nt, kinds, outcomes, samples = set(), 0, {}, {}, []
    clean = 0
    for (a, b) in sessions:
        hdr = lines[a]
        kinds["static"] = kinds.get("static", 0) + 1
        for i in range(a + 1, b):
            l = lines[i]
            if l.startswith("CLEAN ") or l.startswith("JOIN "):
                clean += 1
                continue
            if l.startswith("BURST "):
                f = l.split()
                kinds["bursts"] = kinds.get("bursts", 0) + 1
                kinds["requests_in_bursts"] = kinds.get("requests_in_bursts", 0) + int(f[1]) * ((len(f) - 2) // 3)
                kinds["largest_burst"] = max(kinds.get("largest_burst", 0), int(f[1]) * ((len(f) - 2) // 3))
                continue
            if not l.startswith("REQ "):
                continue
            k = hashlib.sha1((hdr + "\n" + l).encode()).hexdigest()
            if k in seen:
                continue
            seen.add(k)
            o = R[i].split()
            kind = o[0] if o else "?"
            outcomes[kind] = outcomes.get(kind, 0) + 1
            if kind != "silent" or (len(o) > 1 and o[-1] != "opens=none"):
                nt += 1
                if len(samples) < 4 and kind in ("serve", "redirect") and nt % 7 == 0:
                    samples.append({"session": hdr, "op": l, "real": R[i]})
    return {"distinct_requests": len(seen), "distinct_nontrivial": nt, "outcomes": outcomes,
            "clean_join_comparisons": clean, "session_kinds": kinds, "samples": samples,
            "rule": "distinct = (options line, REQ line) pairs; non-trivial = the real middleware answered (serve, redirect, "
                    "304) or at least opened a name in the file system (so the request passed the method and prefix "
                    "filters); CLEAN/JOIN lines (path.Clean, path.Join, http.Dir name check vs the Lean functions) are "
                    "counted separately"}

PROPS["C16"] = {
    "shrink_keep": ("FS ", "OUT "),   # the file tree of the session is not shrunk away
    "technique": "Lean 4 theorems over a model of static.go's decision logic and of path.Clean/http.Dir's lexical name mapping "
                 "(all byte-string paths, all options, all file systems) + differential correspondence with the real middleware "
                 "on a real temporary directory tree",
    "level_text": "PARTIAL proof. Proved for all inputs over the model: the middleware stays silent unless the method is GET/HEAD and the path "
                  "is under the normalised prefix at a segment boundary; every name it opens is one of two names derived from the request; "
                  "what it serves is the file the file system returned for such a name; path.Clean(\"/\"+name) never contains '..', '.' or "
                  "an empty component, so the OS name http.Dir opens is lexically inside the directory; a redirect happens only for a "
                  "directory whose cleaned URL lacks the trailing slash and goes to cleaned path + '/'. The model is tied to static.go, "
                  "path.Clean, path.Join and http.Dir.Open's name check by differential testing on every run (real files, real Flame).",
    "level_note": "PARTIAL: containment is delegated by flamego to net/http and the OS. http.Dir.Open, os.Open (symbolic links, mounts), "
                  "http.ServeContent (range/conditional handling, what bytes are sent) and http.Redirect (rendering of Location) are "
                  "parameters, not verified; path.Clean/path.Join/the http.Dir name check are modelled in Lean and differentially "
                  "checked against Go, not proved about Go's source. Trusted: Lean kernel; the hand-written model tied by differential testing only.",
    "props_modules": ["Flamego.Props.C16"],
    "suite": "C16",
    "stats": _c16_stats,
    "known_match": no_known,
    "trusted_base": COMMON_TRUST + [
        "parameters (assumed, not verified): os.Open/Stat resolve the lexical OS name http.Dir builds (no symbolic links, no "
        "mount tricks inside the served directory); http.ServeContent sends the content of the file handle it is given; "
        "http.Redirect; filepath.Join(root, rel) is concatenation because the configured directory is a clean path other than '/'",
        "modelled and differentially checked (not proved against Go's source): path.Clean, path.Join, utf8.ValidString, "
        "http.Dir.Open's name mapping and its refusal of NUL / invalid UTF-8 (go1.23 filepath.Localize)",
        "the harness's containment oracle: every 200 body is compared with the on-disk bytes of a regular file inside the "
        "temporary pub/ directory; files next to pub/ with distinct contents are never accepted",
    ],
    "assumptions": [
        "linux: filepath.Separator is '/', so http.Dir's separator test is vacuous",
        "the model's fs parameter is instantiated with the table of the temporary tree keyed by cleaned relative path (no symlinks)",
        "requests carry no Range/If-Modified-Since/If-Match headers; If-None-Match is absent, junk, or exactly one file's ETag",
        "f.Stat() does not fail after a successful Open",
    ],
}

# ---------------------------------------------------------------------------------- C18
def _c18_stats(lines, sessions, R, M):
    """distinct operation lines; non-trivial = the real result carries data (not the zero value of its type,
    not `err`/`nomatch`); plus the measured distribution per operation/accessor and per outcome"""
    zero = {"-", "0", "0 .", "0 ok", "0 syntax", "0 0", "0 1", "err", "nomatch"}
    seen, nt, kinds, outcome, samples = set(), 0, {}, {}, []
    for i, l in enumerate(lines):
        if l.startswith("NEW ") or l in seen:
            continue
        seen.add(l)
        f = l.split()
        k = f[0] + (":" + f[1] if f[0] in ("Q", "P") else "")
        kinds[k] = kinds.get(k, 0) + 1
        r = R[i] if i < len(R) else ""
        if f[0] == "Q":
            o = "default-given" if f[4] != "n" else "no-default"
            outcome[o] = outcome.get(o, 0) + 1
        if f[0] == "C":
            ok = r == f[2]
            outcome["cookie-roundtrip-exact" if ok else "cookie-roundtrip-other"] = \
                outcome.get("cookie-roundtrip-exact" if ok else "cookie-roundtrip-other", 0) + 1
        if f[0] == "M":
            # every write whose name is not written again later must read back its own value
            names, vals, got = f[1::2], f[2::2], r.split(",")
            last = all(got[i] == vals[i] for i in range(len(names)) if names[i] not in names[i + 1:]) \
                if len(got) == len(names) else False
            key = "multi-cookie-all-last-values-read" if last else "multi-cookie-other"
            outcome[key] = outcome.get(key, 0) + 1
            rel = any(a != b and (a.startswith(b) or b.startswith(a)) for a in names for b in names)
            if rel:
                outcome["multi-cookie-with-prefix-related-names"] = outcome.get("multi-cookie-with-prefix-related-names", 0) + 1
        if r not in zero and r != "panic":
            nt += 1
            if len(samples) < 6 and f[0] in ("Q", "C", "K", "P", "M") and len(l) > 24 and i % 7 == 0:
                samples.append({"op": l, "real": r})
    return {"distinct_ops": len(seen), "distinct_nontrivial": nt, "op_kinds": kinds, "outcomes": outcome,
            "rule": "cases = distinct operation lines (one accessor call on one real request, one cookie round trip, or one "
                    "codec/strconv comparison); non-trivial = the implementation's result is not the zero value of its type "
                    "(not empty / 0 / false / err / nomatch)",
            "samples": samples}


PROPS["C18"] = {
    "technique": "Lean 4 theorems (one generic accessor rule instantiated for all 12 accessors; QueryEscape/QueryUnescape and "
                 "cookie round trip for every byte string through a byte-level model of net/url and net/http's cookie "
                 "sanitiser/parser); tie to the source of both kinds: the bodies of 13 accessors of context.go are translated to Lean on "
                 "every run and proved equal to the model's accessors for all inputs (code-level refinement), and the real accessors are "
                 "run against the model on real requests (differential correspondence)",
    "level_text": "The accessor rule is a Lean theorem per accessor over Model/Access for all query strings, parameter maps, cookie "
                  "headers, names and defaults; queryUnescape(queryEscape s) = s, cookie-safety of the escaped bytes and the "
                  "Set-Cookie -> Cookie round trip are theorems for every byte string. The model (incl. strconv.Atoi/ParseInt/"
                  "ParseBool, strings.TrimSpace, url.ParseQuery, cookie sanitising/parsing) is tied to /repo and the standard "
                  "library by a differential check through a real flamego instance on every run. CODE-LEVEL TIE: /verif/translator "
                  "regenerates Gen/ContextCode.lean from context.go on every run (the context struct and the bodies of Param, ParamInt, "
                  "ParamInt64, Query, QueryTrim, QueryStrings, QueryUnescape, QueryBool, QueryInt, QueryInt64, Cookie, SetCookie, RemoteAddr as pure "
                  "functions; library calls stand for the models of Code/LibHTTP.lean) and Props/C18Code proves each generated body "
                  "equal to the model's accessor for every context, name and variadic default (…_refines), hence the property's one rule "
                  "of the code's own bodies (code_…_rule), that no accessor changes the context (code_accessors_pure), and the cookie round trip from the bodies of SetCookie and Cookie themselves (setCookie_refines, code_cookie_roundtrip). When the "
                  "source leaves the translated subset or a refinement no longer checks, the evidence says so and the correspondence, "
                  "run over four seeds instead of one, decides.",
    "level_note": "Trusted: Lean kernel; the translator of method bodies and the library models of Code/LibHTTP.lean (the hand-written model is additionally tied by differential testing); strconv.ParseFloat is a parameter "
                  "(answered by Go at run time, only `ParseFloat(\"\") = 0` is assumed); strconv.IntSize = 64; dispatch of the two "
                  "harness routes is C01/C02's subject. Three clauses hold only in a weaker form on the unchanged code "
                  "(see *_full / *_full_false in Props/C18.lean): QueryTrim/QueryUnescape also convert the caller's default; "
                  "an over-long digit run followed by junk parses to the clamped limit, not 0.",
    "props_modules": ["Flamego.Props.C18"],
    "code_modules": ["Flamego.Props.C18Code"],
    "suite": "C18",
    "stats": _c18_stats,
    "known_match": no_known,
    "trusted_base": COMMON_TRUST + [
        "parameter, not modelled: strconv.ParseFloat(s, 64) (value component as IEEE-754 bits, supplied per run by Go through the "
        "oracle protocol; the theorems assume only ParseFloat(\"\") = 0)",
        "modelled and differentially checked on every run, not verified: net/url QueryEscape/QueryUnescape/PathUnescape/parseQuery, "
        "net/http Cookie.String/sanitizeCookieValue/readCookies/parseCookieValue, strconv.Atoi/ParseInt/ParseBool, strings.TrimSpace",
        "the user agent between the two requests is modelled (Model/Access.lean clientJar, harness clientCookieHeader): it keeps the "
        "name=value part of every non-empty Set-Cookie line, a later cookie of an EQUAL name replacing the stored one, and sends "
        "all of them back in one Cookie header joined with \"; \"",
        "the bind-parameter map is taken as given (what Tree.Match stored: PathUnescape of the captured text, raw on error) — "
        "that it equals the captured text is property C02",
        "code-level tie: the Go→Lean translator of method bodies (translator/gocode.go, contextcode.go) and Code/LibHTTP.lean, which "
        "says what each library call of the accessors stands for (in terms of the differentially checked models above); an index "
        "or slice expression out of range is a Go panic the translation does not represent (every `defaultVal[0]` is guarded by "
        "`len(defaultVal) > 0`, which the proofs use); QueryFloat64 and Redirect are not translated (listed in the "
        "generated file)"],
    "assumptions": ["strconv.IntSize = 64 (printed by the harness and compared on every session)",
                    "strconv.ParseFloat(\"\", 64) returns 0 (monitored: the oracle answer for the empty text is compared)",
                    "the handler runs on the goroutine of ServeHTTP with the request's own Context (single request at a time)"],
}

# ---------------------------------------------------------------------------------- C17
def _c17_nontrivial(sess, real):
    # a render call with a non-empty body under a status other than 200, or an encoder failure,
    # or a visibility case in which one request resolves the renderer and another does not
    for op, out in zip(sess[1:], real[1:]):
        f, o = op.split(), out.split()
        if f and f[0] == "R" and len(o) == 7:
            if o[4] == "enc-error" or (o[3] != "-" and o[0] != "200"):
                return True
        if f and f[0] == "V" and "unresolved@" in out and ";" in out:
            return True
    return False

def _c17_compare(sess, R, M):
    """line equality, except that for a value the encoder REFUSES (`enc-error` on both sides) the text of the error
    body is not compared: the property speaks of every ENCODABLE value; what is still compared for an unencodable
    one is the status, the headers as sent and as left behind, and that an error was reported at all"""
    bad = []
    for i in range(len(sess)):
        if i >= len(R) or i >= len(M):
            bad.append(i)
            continue
        if R[i] == M[i]:
            continue
        r, m = R[i].split(), M[i].split()
        if len(r) == 7 and len(m) == 7 and r[4] == "enc-error" and m[4] == "enc-error" and r[:3] + r[4:] == m[:3] + m[4:] and r[3] != "-" and m[3] != "-":
            continue
        bad.append(i)
    return bad


def _c17_stats(inner):
    """generic stats + measured counts of the wire-served requests; an op line that the executor does
    not parse is a generator bug and must not pass silently as `bad-op` == `bad-op`"""
    def f(lines, sessions, R, M):
        if any(r == "bad-op" for r in R):
            import sys
            raise sys.modules["__main__"].Broken("C17: the generator emitted an op line the executor does not parse")
        st = inner(lines, sessions, R, M)
        st["wire_served"] = sum(1 for r in R if r.endswith(("wire=ok", "wire=bad")))
        st["multibyte_plaintext_wire_served"] = sum(
            1 for l, r in zip(lines, R) if l.startswith("R txt ") and not r.endswith("wire=-")
            and any(int(l.split()[4][i:i + 2], 16) >= 0x80 for i in range(0, len(l.split()[4]) - 1, 2) if l.split()[4] != "-"))
        return st
    return f

PROPS["C17"] = {
    "technique": "Lean 4 theorems over a model of render.go on top of the C13 writer machine (all statuses, options, payloads, "
                 "encoders as a parameter) + a minimal scope-chain model for visibility + differential correspondence with the "
                 "real Renderer middleware; decode-back of JSON/XML bodies checked differentially only",
    "level_text": "Status, Content-Type table (configured charset, utf-8 default, none for Binary), verbatim Binary/PlainText bodies, "
                  "'body = the standard encoder's bytes for the configured indentation', 'an earlier status stands', and "
                  "visibility of Render in the request scope are Lean theorems for all inputs; the model is tied to render.go by "
                  "an exhaustive small-scope and random differential check through a real Flame instance and an httptest recorder.",
    "level_note": "PARTIAL proof: that a JSON/XML body decodes back to the given value is a property of encoding/json and "
                  "encoding/xml (parameters of the model) — it is checked differentially on every run (each generated body is "
                  "decoded with the standard decoders and compared with the input), not proved. Also trusted: Lean kernel; the "
                  "hand-written model (tied by differential testing only); httptest.ResponseRecorder as the wrapped writer; "
                  "status codes 100..999; Before hooks do not touch Content-Type.",
    "props_modules": ["Flamego.Props.C17"],
    "code_modules": ["Flamego.Props.C17Code"],
    "suite": "C17",
    "compare": _c17_compare,
    "stats": _c17_stats(generic_stats(_c17_nontrivial,
        "sessions = one Flame instance with Renderer(opts) for a method/charset/indent combination, each op one request "
        "(render call with status, pre-written state and payload) or one visibility case (two routes, three requests); "
        "distinct by op text; non-trivial = some render call produced a non-empty body under a status other than 200 or hit "
        "an encoder error, or a visibility case had both a resolved and an unresolved request")),
    "known_match": no_known,
    "trusted_base": COMMON_TRUST + [
        "parameters, not verified: encoding/json and encoding/xml (their output for a value and indentation arrives as data; "
        "decode(encode v) = v is monitored on every generated case, never proved); net/http's http.Error (modelled as of go1.23: "
        "Del Content-Length, Set Content-Type text/plain, Set X-Content-Type-Options, WriteHeader, message line); "
        "httptest.ResponseRecorder (keeps bodies for every status, snapshots headers at WriteHeader)",
        "reflect-based injection is reduced to exact-type lookup through request scope then instance scope (the full injector is C04)",
        "guard: status codes 100..999 (net/http panics on others); Before hooks are observers that leave Content-Type alone"],
    "assumptions": ["the handler chain of one request runs on one goroutine",
                    "no other value bound in the scopes implements flamego.Render"],
}

# ---------------------------------------------------------------------------- C03 / C15
# Both properties are theorems over Model/Chain (the run()/Next()/Recovery machine) and share the
# `chain` session kind; each has its own generator (suite) and its own non-triviality rule.
import os as _os, subprocess as _sp

_FMODEL = _os.path.join(_os.path.dirname(_os.path.dirname(_os.path.abspath(__file__))),
                        "lean", ".lake", "build", "bin", "fmodel")


def _chain_handlers(sess):
    return [l.split() for l in sess if l.startswith("H ")]


def _chain_acts(sess):
    out = []
    for h in _chain_handlers(sess):
        if len(h) >= 3 and h[1] == "p" and h[2] != "-":
            out += h[2].split(",")
    return out


def _chain_events(real):
    ev = []
    for l in real:
        if " | " in l:
            ev.append(l.split(" | ")[0].split(","))
    return ev


def _c03_nontrivial(sess, real):
    # some handler called Next() and at least two handlers started in one request
    # (so nesting/cursor bookkeeping was exercised), or the chain was stopped early by a write/cancel
    acts = _chain_acts(sess)
    for ev in _chain_events(real):
        starts = [e for e in ev if e.startswith(">")]
        if "n" in acts and len(starts) >= 2:
            return True
        if len(starts) >= 1 and len(starts) < len(_chain_handlers(sess)) and any(a[0] in "wbc" for a in acts):
            return True
    return False


def _c15_nontrivial(sess, real):
    # Recovery is installed and a panic actually happened during a request
    # (a handler was unwound, Recovery's body reached the client, or a panic escaped)
    if not any(h[1:2] == ["r"] for h in _chain_handlers(sess)):
        return False
    for l in real:
        if " | " not in l:
            continue
        ev, under, esc = l.split(" | ")
        if "!" in ev or ",P" in "," + under.split(" ")[0] or ",D" in "," + under.split(" ")[0] or esc != "esc=-":
            return True
    return False


def _c15_known_match(k, sess, real_out, model_out):
    """F15 only: the session registers a panicking Before hook, the only diverging lines are REQ
    observations, and on every line the real code did exactly what the model does when the writer's
    Once is spent by the panicking hook (Cfg.onceBug, i.e. response_writer.go as it is)."""
    if k.get("id") != "F15":
        return False
    if "h" not in _chain_acts(sess):
        return False
    for l, r, m in zip(sess, real_out, model_out):
        if r != m and l.strip() != "REQ":
            return False
    try:
        hdr = sess[0].split()
        bug_sess = [" ".join(hdr + ["bug"])] + list(sess[1:])
        p = _sp.run([_FMODEL, "run"], input="\n".join(bug_sess) + "\n", stdout=_sp.PIPE, text=True, timeout=60)
        as_is = p.stdout.split("\n")
        if as_is and as_is[-1] == "":
            as_is.pop()
    except Exception:
        return False
    return p.returncode == 0 and as_is == list(real_out)


_C15_RULE = ("sessions = one real Flame with flamego.Recovery() at a chosen position (exhaustive: every position of every stack of "
        "depth<=3/4 over a 12-handler alphabet, methods GET/HEAD/POST cycling; every HEAD stack of depth<=3 over 8 handlers that "
        "answer without an explicit status; then random stacks up to depth 7/10 with a random method, ~3% with a panicking Before hook), "
        "2-3 requests per instance; distinct by op text; non-trivial = a panic actually happened in a request (a handler was "
        "unwound, Recovery's body reached the client, or a panic escaped)")

# F17: the witness of `no_escape_full_false` (Props/C15) as a session; it is part of every generated C15 stream.
_F17_OPS = ["H p n,n -", "H r", "H p w200 -", "H p pS -"]


def _c15_stats(lines, sessions, R, M):
    st = generic_stats(_c15_nontrivial, _C15_RULE)(lines, sessions, R, M)
    seen = 0
    for (a, b) in sessions:
        hs = [l for l in lines[a:b] if l.startswith("H ")]
        if hs == _F17_OPS and lines[a].split()[3:7] == ["2", "0", "2", "0"]:
            # re-observed: the REAL code lets the panic of the 4th handler escape ServeHTTP (and the model agrees)
            for i in range(a, b):
                if lines[i].strip() == "REQ" and R[i] == M[i] and R[i].endswith("esc=str") and ">3,!3,!0" in R[i]:
                    seen += 1
    st["known_findings_observed"] = {"F17": seen}
    return st


_CHAIN_TRUST = COMMON_TRUST + [
    "modelled, not verified: handlers are finite programs over write/body/next/cancel/map/panic/hook-panic with an "
    "abstract return effect (the return-value table is C14); dependency injection is reduced to 'resolvable or not' (C04)",
    "modelled, not verified: Recovery's logging and stack rendering; the development page is a token, its length a parameter",
    "the harness observes Recovery only through its effects (the real flamego.Recovery() cannot be instrumented)",
]

PROPS["C03"] = {
    "technique": "Lean 4 theorems over an executable interpreter of run()/Next() (all chains, all handler programs) "
                 "+ differential correspondence with a real Flame instance",
    "level_text": "Every clause of C03 is a Lean theorem over Model/Chain for all chains (middleware, group, route handlers, "
                  "optional/nil action) and all handler programs; the model is tied to context.go/flame.go/router.go by an "
                  "exhaustive small-scope and random differential check against a real *flamego.Flame on every run.",
    "level_note": "Trusted: Lean kernel; hand-written model tied by differential testing; handlers are finite programs; methods GET/HEAD/POST.",
    "props_modules": ["Flamego.Props.C03"],
    "suite": "C03",
    "stats": generic_stats(_c03_nontrivial,
        "sessions = one real Flame per handler stack (exhaustive over stacks of depth<=3 (quick) / 4 (thorough) from a "
        "15-handler alphabet, spread over all middleware/group/route/action layouts; methods GET/HEAD/POST all three for depth<=2, "
        "cycling for deeper stacks; plus every HEAD stack of depth<=3 over 8 handlers that answer without an explicit status; "
        "then random stacks up to depth 7/10 with a random method); the return effect of a handler is delivered through every Go "
        "signature that can deliver it — 5 parameter lists x 9 result lists x the rows of the return-value table, exhaustive in short "
        "stacks (handler first / inside a Next() / last), half of the random handlers; "
        "distinct by op text; non-trivial = a handler called Next() and >=2 handlers started in one request, or the chain "
        "was cut short after a write/cancel"),
    "known_match": no_known,
    "trusted_base": _CHAIN_TRUST,
    "assumptions": ["one goroutine per request; the request context is cancelled only by the handlers' own cancel action",
                    "status codes 100..999"],
}

PROPS["C15"] = {
    "technique": "Lean 4 theorems over the same interpreter with Recovery frames and panic unwinding "
                 "+ differential correspondence with a real Flame instance using flamego.Recovery()",
    "level_text": "Containment, status, body detail, completion of outer middleware and instance health are Lean theorems over "
                  "Model/Chain for every chain with Recovery at any position and every program; tied to recovery.go/context.go/"
                  "response_writer.go by differential checking (five panic value kinds, injection failures, dev/prod, "
                  "repeated requests on one instance). Which mode a process is in (FLAMEGO_ENV at start, SetEnv afterwards) is "
                  "modelled in Model/Env with theorems for every value and call sequence (Props/C15Env) and tied by `envinit` "
                  "sessions that run the real package in fresh processes.",
    "level_note": "Trusted: Lean kernel; hand-written model tied by differential testing; open finding F15 (panicking Before hook) "
                  "matched by signature; position-based containment is proved under a stated guard (see Props/C15).",
    "props_modules": ["Flamego.Props.C15", "Flamego.Props.C15Env"],
    "suite": "C15",
    "stats": _c15_stats,
    "known_match": _c15_known_match,
    "trusted_base": _CHAIN_TRUST + ["flamego.SetEnv is switched per session and restored (global state)"],
    "assumptions": ["one goroutine per request", "panic values are non-nil", "status codes 100..999"],
}


# ---------------------------------------------------------------------------------- C05
def _c05_extra(ctx):
    """Race run (the SEARCH, not the proof): build the harness with -race, serve a request mix serially, then
    from N goroutines, compare every response with its serial outcome. Returns replay paths for violations."""
    import json, os, shutil, subprocess, sys
    root, repo, workdir = ctx["ROOT"], ctx["REPO"], ctx["workdir"]
    build = os.path.join(root, "build")
    src = os.path.join(root, "harness") if repo == "/repo" else os.path.join(build, "harness_src")
    binp = os.path.join(build, "harness-race")
    env = dict(ctx["GOENV"], CGO_ENABLED="1")   # -race needs cgo; only this build overrides the check's GOENV
    rc, out = ctx["sh"](["go", "build", "-race", "-tags", "verif", "-o", binp, "."], cwd=src, env=env, timeout=900)
    cov = ctx["ev"]["coverage"]
    if rc != 0:
        print("BROKEN (machinery, not a verdict): go build -race failed:\n" + out[-3000:])
        sys.exit(2)
    outdir = os.path.join(workdir, "conc")
    os.makedirs(outdir, exist_ok=True)
    runenv = dict(os.environ, GORACE="halt_on_error=1 exitcode=66 log_path=%s" % os.path.join(outdir, "race"))
    cmd = [binp, "conc", str(ctx["seed"]), ctx["tier"], outdir]
    p = subprocess.run(cmd, env=runenv, stdout=subprocess.PIPE, stderr=subprocess.PIPE, text=True, timeout=1500)
    summary = {}
    for line in p.stdout.splitlines():
        if line.startswith("{"):
            try:
                summary = json.loads(line)
            except ValueError:
                pass
    cov["concurrent_run"] = summary or {"result": "no-summary", "rc": p.returncode}
    cov["concurrent_run_cmd"] = "go build -race -tags verif -o build/harness-race ./harness && GORACE='halt_on_error=1 log_path=<dir>/race' build/harness-race conc %d %s <dir>" % (ctx["seed"], ctx["tier"])
    if summary:
        # the counts that matter for C05 are those of the concurrent run, not of the (trivial) line protocol
        cov["evaluations"] = summary.get("served_concurrently", 0)
        cov["distinct_nontrivial"] = summary.get("distinct_requests", 0)
        cov["rule"] = ("evaluations = responses served from %s goroutines and compared with the serial outcome of the same "
                       "request; distinct_nontrivial = distinct requests in the mix (every one reaches routing; kinds in "
                       "concurrent_run.request_kinds)" % summary.get("goroutines"))
    reports = sorted(fn for fn in os.listdir(outdir) if fn.startswith("race"))
    # the footprint entries that break footprint_disciplined (if any), for the evidence and the replay
    unguarded = []
    try:
        import re
        gen = open(os.path.join(root, "lean", "Flamego", "Gen", "ConcFacts.lean")).read()
        for m in re.finditer(r"\{ target := (\"[^\n]*), kind := (\"[^\"]*\"), fn := (\"[^\n]*\"),\n\s*objects := (\"[^\n]*\"),\n\s*once := \"[^\"]*\", insideOnce := false, atomic := false, requestLocal := false \}", gen):
            unguarded.append({"target": json.loads(m.group(1)), "kind": json.loads(m.group(2)), "fn": json.loads(m.group(3)), "objects": json.loads(m.group(4))})
    except Exception as e:
        unguarded = ["could not parse Gen/ConcFacts.lean: %s" % e]
    cov["unguarded_shared_writes"] = unguarded
    how = ("cd %s && CGO_ENABLED=1 go build -race -tags verif -o /tmp/harness-race . && "
           "GORACE='halt_on_error=1 log_path=/tmp/race' /tmp/harness-race conc %d %s /tmp/conc-out   "
           "(a goroutine schedule cannot be replayed deterministically: the replay is the program, the seed and the report)"
           % (src, ctx["seed"], ctx["tier"]))
    if p.returncode == 0 and not reports:
        return []
    if reports or p.returncode == 66:
        text = "".join(open(os.path.join(outdir, fn)).read() for fn in reports)[:20000]
        return [ctx["write_replay"](ctx["pid"], "race", {
            "what": "the Go race detector reported a data race while the framework served requests concurrently",
            "race_report": text.split("\n"), "unguarded_shared_writes_in_footprint": unguarded, "summary": summary, "seed": ctx["seed"], "tier": ctx["tier"],
            "how_to_replay": how, "ops": ["NEW noop"]})]
    if p.returncode == 1:
        div = {}
        try:
            div = json.load(open(os.path.join(outdir, "divergence.json")))
        except Exception:
            pass
        return [ctx["write_replay"](ctx["pid"], "counterexample", {
            "what": "a response served concurrently differs from the one the same request gets when served alone",
            "divergence": div, "unguarded_shared_writes_in_footprint": unguarded, "summary": summary, "seed": ctx["seed"], "tier": ctx["tier"],
            "how_to_replay": how, "ops": ["NEW noop"]})]
    if "fatal error: concurrent map" in p.stderr or "WARNING: DATA RACE" in p.stderr:
        # the Go runtime's own detector (unsynchronised map access) aborted the process before/without a race report
        return [ctx["write_replay"](ctx["pid"], "race", {
            "what": "the Go runtime aborted the concurrent run: unsynchronised access to shared framework state",
            "race_report": p.stderr[:20000].split("\n"), "unguarded_shared_writes_in_footprint": unguarded,
            "summary": summary, "seed": ctx["seed"], "tier": ctx["tier"], "how_to_replay": how, "ops": ["NEW noop"]})]
    print("BROKEN (machinery, not a verdict): race binary exited %d: %s %s" % (p.returncode, p.stdout[-1500:], p.stderr[-1500:]))
    sys.exit(2)


def _c05_line_equal(real, model):
    """concreq sessions: a lookup the model prints as `val a|b` (several admissible answers, Go's map iteration
    decides) is matched by a real `val x` or `val x&y` (the answers seen in the passes of the executor) when every
    real answer is admissible; everything else is plain equality"""
    if real == model:
        return True
    rt, mt = real.split(" "), model.split(" ")
    if len(rt) != 2 or len(mt) != 2 or rt[0] != "val" or mt[0] != "val":
        return False
    return set(rt[1].split("&")) <= set(mt[1].split("|"))


def _c05_compare(sess, R, M):
    return [i for i in range(len(sess)) if i >= len(R) or i >= len(M) or not _c05_line_equal(R[i], M[i])]


def _c05_concreq_nontrivial(sess, real):
    """a concreq session in which some request looked a type up (and got a value) that ANOTHER request maps,
    i.e. the isolation of the request scopes is actually exercised"""
    if not sess or not sess[0].startswith("NEW concreq"):
        return False
    mapped, looked = {}, {}
    for l, r in zip(sess, real):
        f = l.split()
        if len(f) >= 4 and f[0] == "O":
            if f[2] in ("m", "mt"):
                mapped.setdefault(f[3], set()).add(f[1])
            elif f[2] == "v" and r.startswith("val "):
                looked.setdefault(f[3], set()).add(f[1])
    return any(looked.get(t, set()) - {rid} for t, rids in mapped.items() for rid in rids) or \
        any(len(rids) > 1 for rids in mapped.values())


def _c05_stats(lines, sessions, R, M):
    st = generic_stats(_c05_concreq_nontrivial,
        "line protocol of C05: `concreq` sessions (harness/concreq.go) — N requests on one Flame, their micro-operations "
        "(c.Map / c.Value / writer ops / Param / Params()[k]=v / Route.String / URLPath) interleaved as the session's "
        "schedule says; observations compared with `Conc.solo` of the request machine (Model/ConcReq); non-trivial = two "
        "requests map the same type, or one looks up (and finds) a type another one maps")(lines, sessions, R, M)
    st["concreq_sessions"] = sum(1 for (a, b) in sessions if lines[a].startswith("NEW concreq"))
    st["concreq_requests"] = sum(1 for l in lines if l.startswith("Q "))
    st["concreq_observations"] = sum(1 for l in lines if l.startswith("O "))
    st["concreq_lookups_with_several_admissible_values"] = sum(1 for m in M if m.startswith("val ") and "|" in m)
    st["concreq_nontrivial_sessions"] = st["distinct_nontrivial"]
    return st


def _c05_concreq_race(ctx):
    """the concreq sessions of this run once more, through the harness built with -race (its executor then also runs the
    free-running, truly concurrent passes): every observation is compared with the model output of the correspondence
    step; a race report, a runtime abort or a divergent observation is a violation."""
    import json, os, subprocess
    root, workdir = ctx["ROOT"], ctx["workdir"]
    binp = os.path.join(root, "build", "harness-race")
    ops_p, model_p = os.path.join(workdir, "ops.txt"), os.path.join(workdir, "model.txt")
    cov = ctx["ev"]["coverage"]
    if not (os.path.exists(binp) and os.path.exists(ops_p) and os.path.exists(model_p)):
        cov["concreq_race_run"] = "skipped (no race binary or no correspondence output)"
        return []
    lines = open(ops_p).read().split("\n")
    M = open(model_p).read().split("\n")
    while lines and lines[-1] == "":
        lines.pop()
    starts = [i for i, l in enumerate(lines) if l.startswith("NEW ")] + [len(lines)]
    sess = [(a, b) for a, b in zip(starts, starts[1:]) if lines[a].startswith("NEW concreq")]
    if ctx["tier"] != "thorough":
        sess = sess[ctx["seed"] % 3::3]          # quick: every third session (the race build is ~8x slower)
    sub, subM = [], []
    for a, b in sess:
        sub += lines[a:b]
        subM += M[a:b]
    outdir = os.path.join(workdir, "concreq-race")
    os.makedirs(outdir, exist_ok=True)
    sub_p, real_p = os.path.join(outdir, "ops.txt"), os.path.join(outdir, "real.txt")
    open(sub_p, "w").write("\n".join(sub) + "\n")
    env = dict(os.environ, GORACE="halt_on_error=1 exitcode=66 log_path=%s" % os.path.join(outdir, "race"))
    p = subprocess.run([binp, "exec", sub_p, real_p], env=env, stdout=subprocess.PIPE, stderr=subprocess.PIPE, text=True, timeout=1500)
    reports = sorted(fn for fn in os.listdir(outdir) if fn.startswith("race"))
    how = ("build/harness-race exec <ops> <out>  with GORACE='halt_on_error=1 log_path=<dir>/race' on the `ops` below (the "
           "plain harness of --replay runs the lock-step pass only; the free-running passes need the -race build or "
           "VERIF_CONCREQ_FREE=1; a goroutine schedule cannot be replayed deterministically)")
    cov["concreq_race_run"] = {"sessions": len(sess), "lines": len(sub), "rc": p.returncode, "race_reports": len(reports)}
    if reports or p.returncode == 66 or "fatal error: concurrent map" in p.stderr or "WARNING: DATA RACE" in p.stderr:
        text = "".join(open(os.path.join(outdir, fn)).read() for fn in reports)[:20000] or p.stderr[:20000]
        return [ctx["write_replay"](ctx["pid"], "race", {
            "what": "the Go race detector / runtime reported unsynchronised access to framework state while the requests of a "
                    "concreq session were served concurrently",
            "race_report": text.split("\n"), "seed": ctx["seed"], "tier": ctx["tier"], "how_to_replay": how,
            "ops": sub if len(sub) < 400 else sub[:400]})]
    if p.returncode != 0:
        print("BROKEN (machinery, not a verdict): harness-race exec exited %d: %s" % (p.returncode, p.stderr[-1500:]))
        import sys
        sys.exit(2)
    R = open(real_p).read().split("\n")
    pos = 0
    for a, b in sess:
        n = b - a
        s_ops, s_R, s_M = sub[pos:pos + n], R[pos:pos + n], subM[pos:pos + n]
        pos += n
        bad = _c05_compare(s_ops, s_R, s_M)
        if bad:
            return [ctx["write_replay"](ctx["pid"], "counterexample", {
                "what": "under true concurrency (harness built with -race, free-running passes) a request observed something "
                        "other than what the same request observes when served alone (the model's `solo` run)",
                "ops": s_ops, "real": s_R, "model": s_M, "diverging_lines": bad, "seed": ctx["seed"], "tier": ctx["tier"],
                "how_to_replay": how})]
    return []


def _c05_extra_all(ctx):
    """the whole-application race run (harness/conc.go), then the concreq sessions through the same -race binary"""
    cov = ctx["ev"]["coverage"]
    line_rule, line_evals = cov.get("rule"), cov.get("evaluations")
    # A shared sync.Map / sync.Pool is no data race (documented as safe for concurrent use, Props/C05
    # `synchronisedContainers`), but it carries state from one request to the next: whether ISOLATION survives it is
    # decided by the concurrent correspondence, which then runs at thorough depth whatever tier was asked for.
    try:
        import os, re
        gen = open(os.path.join(ctx["ROOT"], "lean", "Flamego", "Gen", "ConcFacts.lean")).read()
        body = gen[gen.index("def libraryCallsOnShared"):]
        body = body[:body.index("]\n")] if "]\n" in body else body
        stateful = sorted(set(re.findall(r'callee := "(\(\*sync\.(?:Map|Pool)\)\.\w+)"', body)))
    except Exception:
        stateful = []
    if stateful:
        cov["synchronised_shared_containers"] = {"calls": stateful, "consequence": "the concurrent runs were made at thorough depth"}
        ctx = dict(ctx, tier="thorough")
    try:
        v = _c05_extra(ctx)      # overwrites evaluations / distinct_nontrivial / rule with the counts of the race run
    except SystemExit:
        # the whole-application run gave up (e.g. its SERIAL outcome is not repeatable — itself a symptom of state
        # leaking between requests): if the concreq sessions exhibit a concrete failing input, report that instead
        v2 = _c05_concreq_race(ctx)
        if v2:
            return v2
        raise
    cov["concreq_rule"], cov["concreq_lines_compared"] = line_rule, line_evals
    return v + _c05_concreq_race(ctx)


PROPS["C05"] = {
    "technique": "Lean 4 theorems: race freedom from an access discipline (all executions), frame/isolation theorem over all "
                 "interleavings, and `decide`-checked theorems over the write footprint that a Go SSA flow analysis regenerates "
                 "from the source on every run; plus a -race differential run (serial vs N goroutines) as the search",
    "level_text": "PARTIAL proof. (i) drf_of_discipline: in the model of Model/Conc.lean (program order + sync.Once edge + atomic "
                  "edge) every execution that respects the discipline orders all conflicting accesses by happens-before; "
                  "(ii) footprint_disciplined & co.: every write that serving can perform, as extracted from the current source, "
                  "is request-local, inside the sync.Once closure of the written object, or a sync/atomic op; once-guarded fields "
                  "are read only after Do; library calls on shared objects are on a documented list; (iii) interleaving_serial: "
                  "for every interleaving each request's record equals its solo record and the once caches hold only what they compute; "
                  "(iv) Props/C05Req: the same on the CONCRETE models — `reqMachine` (Model/ConcReq) interleaves the micro-operations "
                  "(c.Map / c.Value on the injector scope chain of C04, the writer of C13, Params reads and stores, the once-guarded "
                  "Route.String, Router.urlPath) of any number of requests: req_interleaving_serial, "
                  "observations_depend_only_on_own_request, request_scope_invisible_to_others, writer_private (+ C13 per request), "
                  "params_private, shared_config_unchanged, footprint_matches_machine (every request-local write site of the "
                  "regenerated footprint is a documented component of the per-request record).",
    "level_note": "PARTIAL: Lean cannot exhibit the Go memory model or the scheduler — the theorems are about a model of executions and "
                  "about an extracted write footprint; the footprint extraction (translator/concfacts*.go: SSA flow analysis in a "
                  "set-up and a serve phase, reflection modelled as transparent, library code opaque) is trusted, as is its "
                  "classification of net/http's per-request (w, r) as request-local; application handlers are outside the claim; "
                  "`serve` is abstract in the isolation theorem of Props/C05 and a list of micro-operations in Props/C05Req (tied to the code by the "
                  "`concreq` sessions: lock-step interleavings on every run, free-running ones through the -race build); "
                  "the -race run is supporting evidence and the hunting ground for "
                  "replays, not a proof; its reference answer for every request is the request served on an instance that served nothing else. "
                  "A footprint change with no observed race ends in no-failing-input-found.",
    "props_modules": ["Flamego.Props.C05", "Flamego.Props.C05Req"],
    "suite": "C05",
    "stats": _c05_stats,
    "compare": _c05_compare,
    "shrink_keep": ("R ", "Q "),      # the routes and the request declarations are the environment of a concreq session
    "known_match": no_known,
    "trusted_base": COMMON_TRUST + [
        "translator/concfacts*.go: the phase-sensitive flow analysis that extracts Gen/ConcFacts.lean (allocation-site x phase heap "
        "abstraction, on-the-fly call graph, reflect.ValueOf/Interface/Call transparent, sync.Once.Do and sync/atomic recognised by name); "
        "its soundness is argued in its header comment, not proved",
        "the Go memory model: a data-race-free execution is sequentially consistent (DRF-SC); sync.Once and sync/atomic order "
        "events as modelled by HB.once / HB.atomic",
        "net/http's Handler contract: every ServeHTTP call gets its own ResponseWriter and *Request (classified request-local)",
        "the libraries listed in Props/C05.lean `documentedConcurrencySafe` are safe for concurrent use as documented "
        "(regexp.Regexp matching, charmbracelet/log.Logger, sync, sync/atomic, reflect inspection, http.Dir); methods of a shared "
        "sync.Map / sync.Pool are data-race free by documentation (`synchronisedContainers`) — what such a container carries from "
        "one request to the next is an isolation question decided by the concurrent correspondence, which then runs at thorough depth",
        "the header map a response writer hands out is that writer's own; the Append… functions of the standard library return the "
        "buffer they were given; a function only ever called under one sync.Once runs under it",
        "the Go race detector and scheduler (supporting evidence only)",
        "Props/C05Req `ownerTable`: the documented list of per-request object kinds (a prefix of the footprint's write target); "
        "concreq sessions: the bind parameters of a request are those the generator built its path from (routing itself is C01/C02), "
        "reflect's Implements/Kind computed in the harness and sent to the model (as for C04)"],
    "assumptions": ["set-up (routes, middleware, mapped services) has finished before the first ServeHTTP and happens-before it",
                    "application handlers and application-supplied services synchronise their own state",
                    "handlers do not call the set-up API (Use/Get/Map on the Flame) while requests are served"],
    "extra_check": _c05_extra_all,
    "leanchecker": True,
}


# ---------------------------------------------------------------------------------- C11
def _c11_nontrivial(sess, real):
    # a registration made inside a group was observed on the real router, and the program also
    # uses at least one of Combo / Routes / Any / AutoHead / a recovered panic
    ops = [l.split()[1] for l in sess if l.startswith("S ") and len(l.split()) > 1]
    if "group" not in ops:
        return False
    if not any(k in ops for k in ("combo", "routes", "any", "autohead", "recover")):
        return False
    return any(l.startswith("reg ") for l in real) or sess[0].split()[2:3] == ["x"]

PROPS["C11"] = {
    "technique": "Lean 4 theorems (stack interpreter of the registration DSL = environment-passing flat expansion, for all "
                 "programs and all answers of the route-tree layer) + differential correspondence with the real router "
                 "(program vs flat list of Route calls vs model)",
    "level_text": "Every clause of C11 is a Lean theorem over Model/Dsl for all registration programs (arbitrarily nested Group with "
                  "handlers, Combo, Routes, Any, the verb shortcuts, AutoHead, panics recovered by the caller) and every acceptance "
                  "oracle of the route-tree layer: interp = flat (same registrations in the same order, also before a panic), the group "
                  "stack is restored, AutoHead only concerns Get while on, Combo refuses a repeated verb, handlers/paths are "
                  "outer-first. The model is tied to router.go on every run: small-scope exhaustive and random programs run on a real "
                  "Flame as written and as the harness's own flat list of Route calls (handler slices with spare capacity and shared "
                  "backing arrays, optional HandlerWrapper), probe requests compare handler trace and params, and the registrations "
                  "observed on the real router are compared with the model's.",
    "level_note": "Trusted: Lean kernel; the model is hand-written and tied by differential testing only. 'Same chosen route, handler "
                  "order and parameters for every request' follows because dispatch is a function of the ordered registration list "
                  "(C01/C02/C03); the harness additionally serves requests on both routers. Acceptance by the route tree (parse errors, "
                  "duplicates) is a parameter of every theorem. Models the repaired code for findings F9, F13 and F16.",
    "props_modules": ["Flamego.Props.C11", "Flamego.Props.C11App", "Flamego.Proofs.DslApp"],
    "suite": "C11",
    "stats": generic_stats(_c11_nontrivial,
        "sessions = registration programs (all sequences of <=2 [thorough: sampled <=3] items over 6 wrappers x 15 statements, then "
        "random programs of 1-5 statements nested up to depth 3, then random programs over a rich route syntax); distinct by op text; "
        "non-trivial = the program has a Group AND at least one of Combo/Routes/Any/AutoHead/recovered panic AND at least one "
        "registration was observed on the real router (mode m) or it is a rich-syntax program (mode x)"),
    "known_match": no_known,
    "trusted_base": COMMON_TRUST + [
        "parameter, not verified here: the route-tree layer's acceptance of a single registration (parser + AddRoute; property C08) — "
        "every theorem is quantified over it; the driver instantiates it with the duplicate/short-form rule that is exact for the "
        "routes the mode-m generator writes, and the comparison checks that instance",
        "dispatch, handler chain and bind parameters are functions of the ordered registration list (properties C01/C02/C03)",
        "guard: method strings are ASCII (strings.ToUpper / strings.TrimSpace are modelled on ASCII); handlers are callable funcs "
        "(the only non-func handler modelled is a string left among the handlers of Routes)",
        "a Combo is used as one chained expression; a ComboRoute value kept and used in another group scope is outside the program syntax"],
    "assumptions": ["registration happens on one goroutine before serving (the router has no locking)",
                    "a failed AddRoute leaves nothing observable behind (finding F11 is repaired separately)"],
}
PROPS["C11"]["technique"] += ("; plus the end-to-end composition (Model/DslApp, Props/C11App): the acceptance of a registration is the "
    "model parser + the model route trees (accReal), the registrations a program leaves are served by the application model of C07 "
    "(appOfProg), and the driver answers every probe request through App.serve")
PROPS["C11"]["level_text"] += (" End to end (Props/C11App, for every engine, program, handler environment, surrounding application and "
    "request): serving the application declared by a program equals serving the application declared by its flat list of Route calls "
    "run through the same interpreter (dsl_serve_eq_flat_serve); a dispatched request runs middleware ++ (group handlers outermost "
    "first ++ the route's own) ++ action (dsl_chain_layout, dsl_chain_layout_nested); a request is dispatched iff a registration of "
    "its method left by the program has a form admitting the path (dsl_dispatch_iff, from C01.serve_dispatch_iff, whose guard is "
    "proved for every program); a refused, recovered registration is invisible to every request (dsl_rejected_invisible). In mode m "
    "the driver's acceptance is accReal and every probe request is answered by App.serve on appOfProg (handler-id trace from the "
    "chain machine's event trace + the `route` parameter), cross-checked against the Dsl-level lookup in the flat list.")
PROPS["C11"]["trusted_base"] = [
    ("the driver instantiates the acceptance with accReal = model parser (C06) + Router.addMethods on the router built from the earlier "
     "registrations (C08/C10 models); the Dsl-level theorems stay quantified over every acceptance function")
    if t.startswith("parameter, not verified here: the route-tree layer's acceptance") else t
    for t in PROPS["C11"]["trusted_base"]]


# ---------------------------------------------------------------------------------- C06
def _c06_stats(lines, sessions, R, M):
    """distinct inputs by the real parser's verdict; F12 witnesses that still reproduce"""
    seen = set()
    acc = rej = nt = 0
    shapes = {"optional": 0, "bind": 0, "params": 0, "regex": 0, "multi_param": 0, "spacing_normalised": 0}
    f12 = 0
    samples = []
    for i, l in enumerate(lines):
        f = l.split()
        if not f:
            continue
        if f[0] == "DOCW":
            if i < len(R) and R[i].endswith(" differs"):
                f12 += 1
            continue
        if f[0] != "PARSE" or f[1] in seen:
            continue
        seen.add(f[1])
        out = R[i].split() if i < len(R) else []
        if out and out[0] == "ok":
            acc += 1
            ast = out[2]
            structured = False
            if "o" in [s[:1] for s in ast.split("|")]:
                shapes["optional"] += 1; structured = True
            if ".B" in ast:
                shapes["bind"] += 1; structured = True
            if ".P" in ast:
                shapes["params"] += 1; structured = True
            if ":R" in ast:
                shapes["regex"] += 1
            if "," in ast:
                shapes["multi_param"] += 1
            if out[1] != f[1]:
                shapes["spacing_normalised"] += 1
            if structured:
                nt += 1
                if len(samples) < 3 and ".P" in ast:
                    samples.append({"op": l, "real": R[i]})
        else:
            rej += 1
            hexs = [f[1][j:j + 2] for j in range(0, len(f[1]), 2)]
            if hexs[:1] == ["2f"] and "7b" in hexs:   # starts with '/' and contains '{'
                nt += 1
    return {"distinct_inputs": len(seen), "accepted": acc, "rejected": rej, "distinct_nontrivial": nt,
            "rule": "distinct input strings; non-trivial = accepted with an optional marker, a bind or a parameter list in the "
                    "AST (AST, canonical string and fixpoint all compared), or rejected although it starts with '/' and contains a '{' "
                    "(gets past the Root state and reaches the bind lexer states)",
            "accepted_shapes": shapes, "f12_witnesses_reproduced": f12, "samples": samples}


PROPS["C06"] = {
    "technique": "Lean 4 theorems over a lexer that interprets the regenerated rule table and a recursive-descent parser for the "
                 "struct-tag grammar (soundness, completeness, canonical form) + exhaustive-to-length and random differential "
                 "correspondence with the real participle-based parser",
    "level_text": "parse_complete / parse_sound / render_canonical / parse_render / render_fixpoint / never_panics are Lean theorems "
                  "for all byte strings and all ASTs over Model/Lexer + Model/Parser; the lexer model interprets the rule table the "
                  "translator regenerates from parser.go (patterns reduced to byte sets with Go's regexp), classes_documented / "
                  "rules_documented / grammar_documented pin the regenerated facts; the model is tied to the real parser by "
                  "comparing verdict, AST (from the exported struct fields), Route.String() and the fixpoint on every string up to a "
                  "length bound over a 12-symbol token alphabet, all small well-formed ASTs with random spacing, mutations and "
                  "random bytes.",
    "level_note": "Trusted: Lean kernel; participle's lexer/parser engine is modelled (observationally checked, exhaustively to a "
                  "length bound), not verified; Go regexp is used by the translator to reduce the lexer patterns to byte sets. "
                  "Known finding F12: the README's BNF and the lexer's classes differ ('documented grammar' = the lexer rules + struct tags).",
    "props_modules": ["Flamego.Props.C06"],
    "suite": "C06",
    "stats": _c06_stats,
    "known_match": no_known,
    "trusted_base": COMMON_TRUST + [
        "modelled, not verified: participle v2.1.4 (stateful lexer: first matching rule, push/pop, eager lexing; parser: "
        "ordered alternatives, groups, lookahead 2) - its observable behaviour on this grammar is what Model/Lexer + "
        "Model/Parser are compared with",
        "Go regexp as used by the translator: each lexer pattern is reduced to the set of single bytes it accepts and "
        "whether it repeats; the translator refuses patterns that are not a single ASCII character class (optionally under +)"],
    "assumptions": ["Go's regexp matches a character class byte-wise on ASCII input and never matches a byte >= 0x80 "
                    "(invalid UTF-8 decodes to U+FFFD) against an ASCII class",
                    "the parser is used through Parser.Parse only (ParseString, no Elide/Mapper options beyond those regenerated "
                    "into Gen.parserOptions)"],
}


# ------------------------------------------------------------------- router suites
import router_props as rp

ROUTER_TRUST = COMMON_TRUST + [
    "parameter: Go's regexp engine (every theorem is quantified over all engines; at run time the model is given "
    "Go's own answers through the two-pass oracle protocol)",
    "parameter: net/http header canonicalisation (the harness sends canonical names)",
    "the AST on each ADD line is what the real route parser returns for the text (text ↔ AST is property C06's tie)",
]

PROPS["C01"] = {
    "technique": "Lean 4 theorems over the route-tree model (all route sets, orders, paths) + differential correspondence "
                 "of Flame.ServeHTTP and route.Tree.Match with the model",
    "level_text": "Tree-free characterisation proved for every history of registrations (any order, accepted or rejected, routes as "
                  "the parser produces them — that guard is itself a theorem for parsed texts), every regex engine, header predicate and "
                  "path: dispatch_iff (dispatched ⇔ some accepted route's long/short form admits the segments), backtracking_complete, "
                  "dispatch_sound, dispatch_first/dispatch_least (the winner is the head of the priority enumeration: children in list "
                  "order, a match-all child taking 1,2,3… segments, the match-all leaf last), sibling_order_fifo + tree_invariant (lists "
                  "sorted by rank, first come first served within a rank), rank_documented (regenerated iota order), and "
                  "serve_dispatch_iff at Router.ServeHTTP level (fast path included). Props/C01Priority reads list order in terms of rank "
                  "and registration ids, for every history with increasing ids: birth_order (BirthInv: equally ranked siblings stand in "
                  "registration order at every depth, a node's time being minHid = the id of its earliest route; every node has a leaf "
                  "beneath it), enumeration_sorted (derivWalks is sorted by the documented priority), leaf_priority, subtree_priority, "
                  "matchall_fewest, matchall_leaf_last (the chosen walk against any other accepting walk, walks given declaratively by "
                  "ReachW), and the router_* versions (the ids of a router's method trees increase when the calls' numbers do). "
                  "The model is tied to tree.go/leaf.go/router.go by a "
                  "differential check on random, wide (13–24 alternatives under one node) and small-scope-exhaustive route sets at Flame "
                  "and Tree level; route texts are parsed by the verified model parser.",
    "level_note": "Trusted: Lean kernel; hand-written model tied by differential testing; regexp is a parameter.",
    "props_modules": ["Flamego.Props.C01", "Flamego.Props.C01Router", "Flamego.Props.C01Priority", "Flamego.Proofs.TreeMatch", "Flamego.Proofs.TreeAdd", "Flamego.Proofs.ParsedOfWF", "Flamego.Proofs.RouterBuild", "Flamego.Proofs.TreeBirth", "Flamego.Proofs.TreeWalks", "Flamego.Proofs.RouterBirth"],
    "suite": "C01",
    "compare": lambda s, R, M: rp.cmp_dispatch(s, R, M),
    "stats": rp.router_stats(lambda op, r, m, n: r.startswith("h ") and (" alts=" not in m or int(m.rsplit(" alts=", 1)[1]) >= 2),
        "case = (registered route set, request); distinct by route texts + request line; non-trivial = the request was "
        "dispatched AND had at least two accepting walks in its method tree (so priority, not mere admission, decided the "
        "winner; counted by the model driver as the length of `derivs`, see distribution alts_*); TREQ/IREQ lines count when dispatched"),
    "known_match": no_known,
    "trusted_base": ROUTER_TRUST,
    "assumptions": ["regexp.FindStringSubmatch / MatchString are deterministic functions of (pattern, input)"],
}

def _router_entry(pid, technique, level_text, compare, nontrivial, rule, extra_trust=()):
    PROPS[pid] = {
        "technique": technique,
        "level_text": level_text,
        "level_note": "Trusted: Lean kernel; hand-written model tied by differential testing; regexp, net/http header "
                      "canonicalisation and the text→AST step of the real parser are parameters.",
        "props_modules": ["Flamego.Props." + pid],
        "suite": pid,
        "compare": compare,
        "stats": rp.router_stats(nontrivial, rule),
        "known_match": no_known,
        "trusted_base": ROUTER_TRUST + list(extra_trust),
        "assumptions": ["regexp.FindStringSubmatch / MatchString are deterministic functions of (pattern, input)"],
    }

_router_entry("C02",
    "Lean 4 theorems over the matcher's parameter threading + differential correspondence of handler-visible params, Tree.Match params and URLPath re-assembly",
    "Parameters are modelled exactly as the matcher threads them (including values left by abandoned branches); theorems over all "
    "routes/paths; correspondence compares, for every dispatched request, the values of the winning form's binds, `route`, and the "
    "URL rebuilt from them, at Flame and Tree level; in sessions in which the code accepted a registration the model refuses, "
    "the round-trip clause is checked on the real outputs alone.",
    rp.cmp_params,
    lambda op, r, m, n: r.startswith("h ") and "=" in (m.split()[3] if len(m.split()) > 3 else ""),
    "case = (route set, request); non-trivial = dispatched to a route whose winning form has at least one bind")
PROPS["C02"]["props_modules"] = ["Flamego.Props.C02", "Flamego.Proofs.Params", "Flamego.Proofs.ParamsAdd", "Flamego.Proofs.ParamsUrl", "Flamego.Proofs.ParamsRegex"]
PROPS["C02"]["assumptions"] = PROPS["C02"]["assumptions"] + ["EngineLaws (Proofs/ParamsRegex.lean): soundness of a reported match of an assembled segment pattern — a hypothesis of regex_values_match / roundtrip_regex, never postulated; false for context-sensitive assertions such as \\b, \\B (finding F26)"]
_router_entry("C07",
    "Lean 4 theorems (serve is a total function with exactly one outcome; index-level matcher never slices out of range) + "
    "differential correspondence on arbitrary byte paths, methods and headers with recover() around ServeHTTP",
    "Totality and single-outcome are by construction of the model; the matcher is additionally modelled at the level of Go's string "
    "indexes (Model/TreeIdx: path, next, every slice expression a possible panic) and proved, for every byte string and every tree, "
    "never to slice out of range and to equal the segment-level matcher; the correspondence feeds arbitrary bytes as "
    "path/method/headers, recovers panics, counts chains through an application middleware, issues every request twice (once more "
    "with another request served on the same instance meanwhile) and runs the real Tree.Match against the index-level model on "
    "every request (IREQ lines: leaf and captured values).",
    lambda s, R, M: rp.cmp_dispatch(s, R, M, chains=True),
    lambda op, r, m, n: True,
    "case = (route set, request); every distinct case counts (the quantifier is 'any request whatsoever'); distribution shows raw-byte paths and odd methods")
PROPS["C07"]["props_modules"] = ["Flamego.Props.C07", "Flamego.Props.C07App", "Flamego.Proofs.App",
                                 "Flamego.Props.AppFull", "Flamego.Proofs.AppFull"]
PROPS["C07"]["extra_check"] = _conc_plain_extra
PROPS["C07"]["technique"] += ("; plus an end-to-end model of one request through a whole application (Model/App: Before hooks, "
    "router, createContext, handler chain) with theorems tying C01/C03/C10 together at Flame.ServeHTTP, and `NEW app` sessions "
    "against a real flamego instance")
PROPS["C07"]["level_text"] += (" Application level (Props/C07App): App.serve composes the router model, the chain machine and "
    "the writer exactly as Flame.ServeHTTP / createContext do; app_one_chain, app_before_stops, app_chain_of_chosen_route "
    "(via C01.serve_dispatch_iff), app_shortcut_invisible (via C10.shortcut_unobservable), app_unknown_method (unguarded), "
    "app_serve_frame and the C03 / C15 transfer lemmas are over all applications and requests. `NEW app` sessions build a real Flame with Before "
    "hooks, middleware, routes with handler lists and header constraints, an action and default / user-supplied not-found "
    "chains, change it between requests, serve every request twice, and compare hooks run, the chain's events (with the "
    "parameters each handler saw), the client's writer and escaped panics by plain equality."
    " Composed model (Model/AppFull, Props/AppFull): ONE machine in which a handler has a typed signature resolved by the "
    "injector through request scope → app scope (Inject.resolveArgs), its Map actions really change the request scope (or the "
    "Flame's), its return values go through the ReturnHandler visible when it returns (Ret.afterHandler / Ret.Out.act), Static "
    "(Static.staticDecide) and Renderer / Render (Render.renderOps) are middleware among the handlers and every write goes "
    "through Model/Writer. full_refines_chain: erasing types and returns along a run gives a configuration of the chain machine "
    "of Model/Chain whose run is exactly the projection of the composed run (guard: every rendered return was expressible "
    "there, recorded by the machine as `rep`), so C03 / C15 transfer (full_starts_no_skip, full_at_most_once, "
    "full_well_bracketed; full_starts_no_skip_unguarded, full_well_bracketed_unguarded, full_next_runs_rest_inside, "
    "full_recovery_frame_contains and full_auto_advance_iff are proved on the composed machine without any guard). C04 at application level: "
    "unresolved_param_panics_before_body, resolved_params_enter_body, later_handler_sees_map, unresolved_param_recovery_first "
    "(500, nothing escapes), scope_unchanged_without_mapApp, request_maps_invisible_to_later_requests (serveSeqFull). C14×C03: "
    "return_rendering_is_respondFrom, return_writes_nothing_chain_continues, return_writes_written / return_writes_chain_stops, "
    "custom_return_handler_mapped_midchain_applies_to_later_handlers. C16×C03: static_silent_next_handler_runs, "
    "static_silent_run_continues, static_serves_chain_stops. C17×C04: renderer_visible_to_later_handlers, "
    "renderer_same_request_only, render_without_renderer_panics, render_action_is_render. `NEW appfull` sessions build a real "
    "Flame with reflect.MakeFunc handlers over the type universe of C04, Recovery, Renderer, Static over a temporary directory, "
    "custom ReturnHandlers, and compare per request the handler enter/exit trace with argument ids, status, body, header names "
    "and escaped panics by plain equality.")
PROPS["C07"]["assumptions"] = PROPS["C07"]["assumptions"] + [
    "composed model (Model/AppFull): the parameters of Recovery, Static and Renderer themselves (Context, *log.Logger) are "
    "always resolvable (NewWithLogger maps the logger, newContext the Context, nothing can be unmapped); no panicking "
    "Before-hooks of the response writer (finding F15 is C15's); an interface type with several implementors in one scope "
    "is resolved with iteration choice 0 (generated sessions never create that ambiguity; C04 treats it)",
    "composed model: the values of the headers net/http computes for Static (Content-Type by extension, Last-Modified, "
    "Content-Length) are not modelled, only their names; http.Redirect's HTML body is a parameter (Env.redirectBody) "
    "instantiated by the driver for paths without HTML-special characters",
    "appfull sessions avoid (both sides would disagree, see harness/appfull.go): status codes outside 100..999 in return "
    "values, custom ReturnHandlers, WriteHeader and render actions (net/http panics inside WriteHeader and the writer's "
    "sync.Once stays spent - behind Recovery the client then gets 200 with Recovery's body and the chain goes on; the models "
    "of C13/C14 leave the writer untouched), a lone returned value of a kind other than string / []byte / error (reflect's "
    "placeholder text, parameter Env.ph), and http.ServeContent's own conditional / range handling (outside Model/Static)"]
PROPS["C07"]["trusted_base"] = PROPS["C07"]["trusted_base"] + [
    "parameters of the composed model (Model/AppFull.Env): reflect's type universe (sent by the harness on the NEW line), "
    "encoding/json and encoding/xml (as in C17), the file system under Static's directory (declared by FS lines, as in C16)"]
_router_entry("C08",
    "Lean 4 theorems over addRoute (rejections and acceptance) + differential correspondence of registration verdicts (panic / no panic) and subsequent reachability",
    "Registration is modelled with every rejection of tree.go/leaf.go/router.go; the correspondence compares ok/err of every "
    "registration in random valid+invalid histories (panics recovered) and then dispatch on instances of the accepted routes.",
    lambda s, R, M: rp.cmp_dispatch(s, R, M, setup=True),
    lambda op, r, m, n: n >= 1,
    "case = (history of registrations, request after it); non-trivial = at least one registration was accepted; the distribution counts accepted and rejected registrations")
PROPS["C08"]["props_modules"] = ["Flamego.Props.C08", "Flamego.Proofs.Register"]
_router_entry("C09",
    "Lean 4 theorems over the header-constraint table and leaf eligibility + differential correspondence with Headers() re-specification and header-carrying requests",
    "Constraints are modelled per registration handle, consulted by every leaf of it (both forms, every method); theorems cover "
    "replacement, the eligibility test and eviction from the fast path; the correspondence interleaves Headers() calls and requests.",
    lambda s, R, M: rp.cmp_dispatch(s, R, M, setup=True),
    lambda op, r, m, n: " " in op.strip() and len(op.split()) > 3,
    "case = (route set with constraints, request); non-trivial = the request carries at least one header field")
_router_entry("C10",
    "Lean 4 theorems (fast-path table invariant ⇒ serve = serveTreeOnly) + differential correspondence Flame.ServeHTTP vs route.Tree.Match on an identically populated tree vs the model",
    "The shortcut table is part of the router model. `shortcut_unobservable`: for every engine, every history of registrations "
    "(any method lists, succeeding or failing), Headers() and Name() calls from newRouter() — routes as the parser produces them, "
    "one handle per registration — and every request (any bytes as path, any headers), serve (table first) and serveTreeOnly "
    "return the same outcome (same leaf, same parameters, or not-found); proved from a router invariant tying every table entry "
    "to a static path of the method's tree spelling the key (Proofs/ShortcutTree, Proofs/Shortcut). `statics_keys_plain` and "
    "corollaries: keys are route texts without '?', with exactly one leading '/'; `distinct_handles_needed` shows the "
    "one-handle-per-registration guard cannot be dropped. The correspondence "
    "runs every request against the real Flame and a shadow tree populated through the export, in histories interleaving "
    "registrations, Headers() and requests; on top of the comparison with the model, every request's outcome at Flame.ServeHTTP "
    "is compared with the outcome of the real tree alone (a monitor on the code that needs no model).",
    rp.cmp_shortcut,
    lambda op, r, m, n: r.startswith("h "),
    "case = (history, request); non-trivial = dispatched (to a static or shadowing dynamic route)")
PROPS["C09"]["props_modules"] = ["Flamego.Props.C09", "Flamego.Props.C09Values"]
PROPS["C09"]["code_modules"] = ["Flamego.Props.C09Code"]

for _pid in ("C07", "C10"):
    PROPS[_pid]["code_modules"] = ["Flamego.Props.C10Code"] + (["Flamego.Props.C07Code"] if _pid == "C07" else [])
    PROPS[_pid]["technique"] = PROPS[_pid]["technique"] + "; code-level tie for the dispatcher router.ServeHTTP: its body is translated to Lean on every run and proved to make exactly the one call the model's Router.serve decides"
    PROPS[_pid]["level_text"] = PROPS[_pid]["level_text"] + (
        " CODE-LEVEL TIE: /verif/translator regenerates Gen/RouterCode.lean from router.go on every run (the router struct and the body of "
        "ServeHTTP; leaves and trees stand for the model's, Tree.Match is a parameter, the handler called is recorded) and Props/C10Code "
        "proves serve_refines (for every router whose tables hold what the model router's hold, the body makes exactly one call: of the "
        "handler of the leaf Router.serve chooses with the parameters it delivers, or of the not-found handler exactly when the model "
        "says so), code_one_chain, code_shortcut_unobservable (for every history of registrations: what the body does is what full tree "
        "matching alone decides) and agrees_of (the agreement holds for the tables built from the model router in the Go struct's "
        "shape). When the source leaves the translated subset or a proof no longer checks, the evidence says so and the "
        "correspondence, run over four seeds instead of one, decides.")
    PROPS[_pid]["trusted_base"] = PROPS[_pid]["trusted_base"] + [
        "code-level tie: the Go→Lean translator of method bodies (translator/gocode.go, routercode.go), Code/GoSem.lean, "
        "Code/LibRoute.lean (a route.Leaf / route.Tree stands for the model's leaf / tree; `world` is a field added to record which "
        "function value the dispatcher called)"]
PROPS["C07"]["level_text"] = PROPS["C07"]["level_text"] + (
    " The outermost step as well: Gen/FlameCode.lean (Flame.ServeHTTP, Flame.Before, regenerated from flame.go on every run; the "
    "loop over the Before handlers is a translated range loop with early return) and Props/C07Code: serve_closed (trim the URL "
    "prefix, run the Before handlers in registration order on the trimmed request until one answers true, ask the router exactly "
    "when none did), before_stops, all_false_serves, before_registers_last.")

PROPS["C04"]["code_modules"] = ["Flamego.Props.C04Code"]
PROPS["C04"]["technique"] = PROPS["C04"]["technique"] + "; code-level tie for injector.Value / Set / SetParent: the bodies are translated to Lean on every run and proved to return an element of the model's set of admissible answers along every chain of scopes"
PROPS["C04"]["level_text"] = PROPS["C04"]["level_text"] + (
    " CODE-LEVEL TIE: /verif/translator regenerates Gen/InjectCode.lean from inject/inject.go on every run (the injector struct, Map, Set, "
    "Value, SetParent; reflect.Type / reflect.Value / Kind / Implements stand for the universe of Model/Inject, the parent injector is an "
    "environment object) and Props/C04Code proves value_one (one level: exact registration, else an implementor of this scope, else the "
    "parent's answer, the zero Value without a parent; registrations untouched), chain_in_valueSet (with every parent answering what the "
    "code's own Value returns on it, the result is an element of the model's valueSet for the chain, zero exactly when that is empty), "
    "code_nearest_exact, code_implementor_before_parent, set_refines / map_refines (Set and Map = register for every lookup). When the source leaves the "
    "translated subset or a proof no longer checks, the evidence says so and the correspondence, run over four seeds instead of one, decides.")
PROPS["C04"]["trusted_base"] = PROPS["C04"]["trusted_base"] + [
    "code-level tie: the Go→Lean translator of method bodies (translator/gocode.go, injectcode.go), Code/GoSem.lean (a Go map as an "
    "association list with one entry per key; the order of `range` over it is whatever order the run took) and Code/LibReflect.lean; "
    "MapTo, Invoke, Apply, fastInvoke, callInvoke are not translated (listed in the generated file)"]

PROPS["C17"]["technique"] = PROPS["C17"]["technique"] + "; code-level tie: the bodies of JSON, XML, Binary and PlainText are translated to Lean on every run and proved to issue exactly the model's operations on the response writer, for every renderer, payload and behaviour of the encoders"
PROPS["C17"]["level_text"] = PROPS["C17"]["level_text"] + (
    " CODE-LEVEL TIE: /verif/translator regenerates Gen/RenderCode.lean from render.go on every run (the render struct, RenderOptions, "
    "and the four methods; the response writer is an environment object whose trace records every call made on it or through it: "
    "Header().Set, WriteHeader, Write, the encoder's SetIndent/Indent/Encode, http.Error) and Props/C17Code proves binary_refines, "
    "plainText_refines, json_refines, xml_refines (the calls a body makes are exactly Model/Render's renderOps, for the encoder that "
    "did what the environment's encoder did) and carries the clauses over (code_binary, code_plainText, code_json, code_xml: status "
    "sent once and first, the table's Content-Type, payload verbatim / exactly the encoder's output). When the source leaves the "
    "translated subset or a proof no longer checks, the evidence says so and the correspondence, run over four seeds instead of one, decides.")
PROPS["C17"]["trusted_base"] = PROPS["C17"]["trusted_base"] + [
    "code-level tie: the Go→Lean translator of method bodies (translator/gocode.go, rendercode.go) and Code/GoSem.lean; what an "
    "encoder writes and whether it fails is the environment's (a parameter, as in the model); the text of an error is a parameter"]

PROPS["C09"]["technique"] = PROPS["C09"]["technique"] + "; code-level tie for HeaderMatcher.Match: its body is translated to Lean on every run and proved equal to the model's constraint test for every engine, constraint set and header set, in whatever order Go ranges over the map"
PROPS["C09"]["level_text"] = PROPS["C09"]["level_text"] + (
    " CODE-LEVEL TIE: /verif/translator regenerates Gen/HeaderCode.lean from internal/route/header_matcher.go on every run "
    "(NewHeaderMatcher, Match; a compiled regexp stands for its expression, MatchString is the engine parameter) and Props/C09Code "
    "proves match_refines (the generated Match = the model's hdrPairsOK when the header set is read through Header.Get), match_iff "
    "(true exactly when every constrained header has a non-empty first value its expression finds), match_order_irrelevant (the "
    "order in which the map is ranged over cannot matter) and match_pure. When the source leaves the translated subset or a "
    "proof no longer checks, the evidence says so and the correspondence, run over four seeds instead of one, decides.")
PROPS["C09"]["trusted_base"] = PROPS["C09"]["trusted_base"] + [
    "code-level tie: the Go→Lean translator of method bodies (translator/gocode.go, headercode.go); Header.Get as modelled in "
    "Code/LibHTTP.lean (first value of the key; canonicalisation of the key is net/http's and arrives with the request lines)"]
PROPS["C10"]["props_modules"] = ["Flamego.Props.C10", "Flamego.Proofs.Shortcut", "Flamego.Proofs.ShortcutTree"]
_router_entry("C12",
    "Lean 4 theorems over skeleton/replaceAll/name table + differential correspondence of Router.URLPath / Context.URLPath / Leaf.URLPath",
    "URL building is modelled as skeleton + a model of strings.Replacer; name-table panics are theorems; the correspondence builds "
    "URLs for named routes with values containing braces, other bind names, slashes and empty strings, with and without the optional segment.",
    lambda s, R, M: rp.cmp_dispatch(s, R, M, params=True, setup=True, urls=True),
    lambda op, r, m, n: op.startswith("URL") or r.startswith("h "),
    "case = (route set, URL-building call or dispatched request); counted when a URL was built",
    extra_trust=["parameter: strings.Replacer (modelled as leftmost, first-listed-key replacement and differentially checked); "
                 "bind names are brace-free in generated cases because Go's map order makes colliding keys non-deterministic"])

PROPS["C02"]["level_text"] = ("Parameters are modelled exactly as the matcher threads them (values left by abandoned branches included). Proved for all "
    "trees registration can build, engines and paths: params_of_winner (every bind of the winning walk is delivered with the value that walk "
    "captured; stale values never shadow it — from build_bindsDistinct), decoded_once, placeholder_one_segment / placeholder_no_slash, "
    "matchall_span, route_param_canonical, serve_fast_params, roundtrip_partial / dispatch_roundtrip (regex-free routes, long and short form) "
    "and, under the hypothesis structure EngineLaws (never postulated; monitored at run time by the harness), regex_values_match and "
    "roundtrip_full_holds. The correspondence compares, for every dispatched request, the values of the winning form's binds, `route`, and the "
    "URL rebuilt from them, at Flame and Tree level.")
PROPS["C08"]["level_text"] = ("register_ok_iff: for every tree registration can build and every parsed route, addRoute succeeds ⇔ ValidNew (a declarative "
    "spec listing the statement's clauses: no optional/empty inner segment, every segment classifies, binds pairwise distinct along the route, "
    "at most one inner match-all, no second match-all at a position, no leaf with the same text — optional mark aside — for the long and the "
    "short form); one rejection corollary per clause; accepted_reachable (an accepted route's own instances are dispatched, to it or to an "
    "earlier-priority route); grammar_rejected / unknown_method_rejected at router level; failed registrations change nothing. The "
    "correspondence compares ok/err of every registration in random valid+invalid histories (panics recovered) and then dispatch.")
PROPS["C09"]["level_text"] = ("chosen_satisfies_constraints (whatever is chosen satisfies its own constraints — static or dynamic route, long or short "
    "form, any method), constraints_filter_priority_order (the winner under constraints is the first walk of the unconstrained priority "
    "order whose constraints hold: failing routes are skipped, nothing else moves), headers_replace, constraints_iff, "
    "headers_evict_shortcut, over all histories/engines/requests; the correspondence interleaves Headers() calls (re-specified, mixed-case "
    "method lists, several methods) with header-carrying requests.")

# obligations about the constants regenerated from the source (translator/constfacts*.go → Gen/ConstFacts.lean)
for _pid in ("C02", "C08", "C11", "C12", "C13", "C14", "C15", "C16", "C17", "C18"):
    PROPS[_pid]["props_modules"] = PROPS[_pid]["props_modules"] + ["Flamego.Props.ConstFacts." + _pid]
PROPS["C01"]["props_modules"] = PROPS["C01"]["props_modules"] + ["Flamego.Props.ConstFacts.C02"]

HOOK_COMMITS = ["a5cf397"]  # /repo commit adding verif_export.go (//go:build verif)

PROPS["C12"]["code_modules"] = ["Flamego.Props.C12Code"]
PROPS["C12"]["technique"] = PROPS["C12"]["technique"] + "; code-level tie for router.URLPath: its body (name lookup and panic, the index loop over the pairs, withOptional) is translated to Lean on every run and proved equal to the model's Router.urlPath"
PROPS["C12"]["level_text"] = PROPS["C12"]["level_text"] + (
    " CODE-LEVEL TIE: the body of router.URLPath in Gen/RouterCode.lean (regenerated from router.go on every run; a panic is the "
    "result `none`, the loop `for i := 1; i < len(pairs); i += 2` a translated index loop, Leaf.URLPath stands for the model's "
    "urlPath) and Props/C12Code: pairs_loop (the loop computes the model's pairs-to-map function: later duplicates win, a trailing "
    "odd element is ignored), urlPath_refines (the body returns what the model's Router.urlPath returns, `none` exactly for an unknown "
    "name; the router is unchanged), names_agree_of. When the source leaves the translated subset or a proof no longer checks, the "
    "evidence says so and the correspondence, run over four seeds instead of one, decides.")
PROPS["C12"]["trusted_base"] = PROPS["C12"]["trusted_base"] + [
    "code-level tie: the Go→Lean translator of method bodies (translator/gocode.go, routercode.go), Code/GoSem.lean, Code/LibRoute.lean "
    "(Leaf.URLPath stands for the model's urlPath on the leaf's route — the substitution itself is the model's, tied by the "
    "correspondence); an index out of range is not represented (the loop's indices are in range by its bound)"]

for _pid in ("C01", "C02", "C08"):
    PROPS[_pid]["code_modules"] = PROPS[_pid].get("code_modules", []) + ["Flamego.Props.C01Code"]
    PROPS[_pid]["technique"] = PROPS[_pid]["technique"] + "; code-level tie for the match-style decision: isMatchStyleStatic / checkMatchStylePlaceholder / checkMatchStyleAll of leaf.go are translated to Lean on every run and proved equal to the model's classification for every segment"
    PROPS[_pid]["level_text"] = PROPS[_pid]["level_text"] + (
        " CODE-LEVEL TIE (match style): /verif/translator regenerates Gen/ClassifyCode.lean from internal/route on every run (the AST "
        "structs of definition.go, a pointer field being an Option, and the three predicates newLeaf / newTree ask) and Props/C01Code "
        "proves static_refines, placeholder_refines, all_refines (for every segment of the parser's AST the generated predicate answers "
        "what Model/Classify's staticLit / holeBind / allBind answer — bind name and capture limit included) and styles_exclusive. "
        "When the source leaves the translated subset or a proof no longer checks, the evidence says so and the correspondence, run "
        "over four seeds instead of one, decides.")
    PROPS[_pid]["trusted_base"] = PROPS[_pid]["trusted_base"] + [
        "code-level tie: the Go→Lean translator (translator/gocode.go, classifycode.go); the embedding goSeg of the model's AST into "
        "the Go structs (every AST the real parser returns has exactly one of Ident / BindIdent / BindParameters set per element — "
        "C06's tie); a nil dereference is not represented (each is guarded by a nil test in the source, which the proofs use); "
        "strconv.Atoi as Model/Classify reads it (atoiGo)"]
for _pid in ("C02", "C08"):
    PROPS[_pid]["code_modules"] = PROPS[_pid].get("code_modules", []) + ["Flamego.Props.C02Code"]
    PROPS[_pid]["level_text"] = PROPS[_pid]["level_text"] + (
        " And for regex segments: constructMatchStyleRegex (leaf.go: two nested range loops with early returns, a bytes.Buffer, a map "
        "used as a set) is translated on every run too, and Props/C02Code proves regex_refines — for every engine and every segment of "
        "the parser's AST it returns what the model's classifyRegex returns: the same anchored pattern, the same bind list aligned with "
        "the capture groups (the groups of a user's own expression unnamed), and an error exactly when and of the kind the model says "
        "(empty element, non-regex literal, expression that does not compile, bind used twice, pattern that does not compile).")
PROPS["C02"]["code_modules"] = PROPS["C02"]["code_modules"] + ["Flamego.Props.C02TreeCode"]
PROPS["C02"]["level_text"] = PROPS["C02"]["level_text"] + (
    " And at match time: regexTree.match (tree.go), translated on every run (Gen/RegexTreeCode.lean; the parameter map the method "
    "stores into is an extra result), is proved in Props/C02TreeCode to answer what the model's treeMatch answers for a regex node: "
    "every named bind set to the submatch of its own group, the groups of a user's own expression skipped (tree_match_refines).")
for _pid in ("C01", "C02"):
    PROPS[_pid]["code_modules"] = PROPS[_pid]["code_modules"] + ["Flamego.Props.C01LeafCode"]
    PROPS[_pid]["level_text"] = PROPS[_pid]["level_text"] + (
        " The match-all leaf too: matchAllLeaf.match / matchAll (leaf.go), translated on every run (Gen/AllLeafCode.lean; matchHeader, "
        "inherited from baseLeaf, is a parameter), are proved in Props/C01LeafCode to be the index-level model's matchAllLeafIdx for a "
        "position inside the path: refused when the capture limit is positive and smaller than the number of remaining segments, refused "
        "when the header constraints fail, else the bind is segment + \"/\" + path[next:] (matchAll_refines, match_refines).")
for _pid in ("C02", "C09"):
    PROPS[_pid]["code_modules"] = PROPS[_pid]["code_modules"] + ["Flamego.Props.C02LeafCode"]
    PROPS[_pid]["level_text"] = PROPS[_pid]["level_text"] + (
        " The leaves' own `match` too: staticLeaf, placeholderLeaf and regexLeaf (leaf.go), translated on every run "
        "(Gen/StaticLeafCode, Gen/HoleLeafCode, Gen/RegexLeafCode; matchHeader is a parameter), are proved in Props/C02LeafCode to be "
        "the model's leafMatch for a leaf of that pattern — and in each a leaf whose header constraints fail neither matches nor writes "
        "a parameter (static_leaf_refines, hole_leaf_refines, regex_leaf_refines).")
PROPS["C12"]["code_modules"] = PROPS["C12"]["code_modules"] + ["Flamego.Props.C12LeafCode"]
PROPS["C12"]["technique"] = PROPS["C12"]["technique"] + "; and for baseLeaf.URLPath: its body (three nested range loops with break/continue into a bytes.Buffer, the \"/\" fallback, the range over the values building the replacer's pairs) is translated to Lean on every run and proved equal to the model's urlPath"
PROPS["C12"]["level_text"] = PROPS["C12"]["level_text"] + (
    " The leaf's half too: baseLeaf.URLPath (internal/route/leaf.go), translated on every run (Gen/LeafURLCode.lean: a bytes.Buffer "
    "is its content, strings.NewReplacer(pairs...).Replace is the model's replaceAll on the paired-up list, the map of values is "
    "ranged over in the order of the list that stands for it), is proved in Props/C12LeafCode to return the model's urlPath r vals "
    "withOptional for every route AST, every list of values and either flag, leaving the leaf unchanged (urlPath_refines; the loops in "
    "closed form: params_loop, elem_body, skeleton_go_eq, pairs_loop); Props/C12's theorems then hold of the code: "
    "code_order_irrelevant (Go's unspecified map iteration order cannot be observed), code_tokenwise (simultaneous substitution, never "
    "re-scanned), code_unknown_ignored, code_annotations_dropped, code_optional_fallback_root.")
PROPS["C12"]["trusted_base"] = PROPS["C12"]["trusted_base"] + [
    "code-level tie for baseLeaf.URLPath: translator/treecode.go (LeafURLCode); Code/LibRoute.lean: bytes.Buffer as its content, "
    "strings.Replacer as the model's replaceAll over the paired-up argument list (replaceAll itself is compared with the real "
    "strings.Replacer by the correspondence check on every run; keys are never empty here: each is `{`+name+`}`)"]
PROPS["C06"]["code_modules"] = PROPS["C06"].get("code_modules", []) + ["Flamego.Props.C06Code"]
PROPS["C06"]["technique"] = PROPS["C06"]["technique"] + "; code-level tie for the rendering: (*Segment).String and (*Route).String of definition.go (sync.Once around loops into a bytes.Buffer) are translated to Lean on every run and proved equal to the model's Segment.render / Route.render, memo filled or not"
PROPS["C06"]["level_text"] = PROPS["C06"]["level_text"] + (
    " CODE-LEVEL TIE for the rendering half: (*Segment).String and (*Route).String (internal/route/definition.go), translated on "
    "every run (Gen/SegStringCode.lean, Gen/RouteStringCode.lean: sync.Once is its done flag, a bytes.Buffer its content, the tagless "
    "switch on a parameter's value an if-else chain, the index-dependent \", \" separator as written), are proved in Props/C06Code "
    "to return the model's Segment.render / Route.render for every AST — on a fresh segment (seg_string_fresh), and under the "
    "invariant that a filled memo holds the rendering also on every later call (seg_string_memo, route_string_memo, "
    "seg_string_stable, route_string_stable: memoisation cannot be observed); code_render_fixpoint carries Props/C06's "
    "canonical-form theorem to the code: for every accepted input, String() of the parsed route is the input with normalised "
    "spacing, parses to the same structure and is a fixpoint. The PARSER itself (participle's generated parser) is not translated: "
    "its tie remains the regenerated grammar facts plus the correspondence. When the source leaves the translated subset or a proof "
    "no longer checks, the evidence says so and the correspondence, run over four seeds instead of one, decides.")
PROPS["C06"]["trusted_base"] = PROPS["C06"]["trusted_base"] + [
    "code-level tie for String(): the Go→Lean translator of method bodies (translator/gocode.go, treecode.go: SegStringCode, "
    "RouteStringCode), Code/GoSem.lean, Code/LibRoute.lean (bytes.Buffer as its content); in (*Route).String the call s.String() "
    "stands for the VALUE Gen/SegStringCode's String returns — that it also fills the segment's own memo is not represented there "
    "(Props/C06Code.seg_string_memo proves a segment's memo never changes what its String returns); sync.Once is a done flag "
    "(its happens-before edge is C05's subject, checked by the race detector, not here)"]
for _pid in ("C01", "C02", "C08"):
    PROPS[_pid]["code_modules"] = PROPS[_pid]["code_modules"] + ["Flamego.Props.C02BaseTreeCode"]
    PROPS[_pid]["technique"] = PROPS[_pid]["technique"] + "; and for the matcher every tree inherits (baseTree.matchLeaf / matchSubtree / matchNextSegment / Match of tree.go, where precedence is decided): translated to Lean on every run and proved, one level of the tree at a time, to be the model's matchLeaves / matchSubsIdx / matchNextIdx"
    PROPS[_pid]["level_text"] = PROPS[_pid]["level_text"] + (
        " The matcher's core too: baseTree.matchLeaf, matchSubtree and matchNextSegment (internal/route/tree.go), translated on every "
        "run (Gen/BaseTreeCode.lean; a call of a method on a child — an interface value in t.subtrees / t.leaves — stands for the "
        "model's function on that child, Code/LibTree.lean, so the bodies are ONE LEVEL of the recursion over the tree), are proved in "
        "Props/C02BaseTreeCode to be the model's matchLeaves (first leaf in order that matches), matchSubsIdx (subtrees in order, each "
        "searched to the bottom before the next; the match-all subtree ends the loop; then the tree's own match-all leaf) and "
        "matchNextIdx (cut the segment off, dispatch) — matchLeaf_refines, matchSubtree_refines, matchNextSegment_refines — and "
        "hence, at any cursor inside a path, to return what the segment-level matchNext of Model/Tree.lean returns "
        "(matchNextSegment_segments, via Proofs/TreeIdx; the index-level model does not panic there); code_first_leaf_wins; and "
        "Match_refines: baseTree.Match itself (trim the leading slashes, search from the root with an empty map, percent-decode every "
        "value in place — unescape_loop, with the distinctness of the map's names from Proofs/ParamsDistinct) is the model's Node.match "
        "for every byte string. matchAllTree.matchAll (a `for cond` loop) is not translated: it remains the model's matchAllLoopIdx, "
        "tied by the correspondence.")
    PROPS[_pid]["trusted_base"] = PROPS[_pid]["trusted_base"] + [
        "code-level tie for baseTree's matcher: translator/treecode.go (BaseTreeCode), Code/LibTree.lean — calls on the children "
        "stand for the model's functions on them (the induction over the height of the tree is the model's own recursion; the "
        "leaves' and subtrees' own match methods have their theorems in Props/C01LeafCode, C02LeafCode, C02TreeCode); "
        "hok l.hid stands for l.matchHeader(header); strings.Index and strings.TrimLeft are modelled for \"/\" only, url.PathUnescape is Base/Codec.pathUnescape; a slice bound out "
        "of range (a Go panic) is not represented — the theorems are stated for the runs on which the index-level model does not "
        "panic, which Proofs/TreeIdx and Props/C07 show to be all request paths"]
for _pid in ("C01", "C02", "C08"):
    PROPS[_pid]["code_modules"] = PROPS[_pid]["code_modules"] + ["Flamego.Props.C08AllTreeCode"]
    PROPS[_pid]["level_text"] = PROPS[_pid]["level_text"].replace(
        "matchAllTree.matchAll (a `for cond` loop) is not translated: it remains the model's matchAllLoopIdx, tied by the correspondence.",
        "matchAllTree.matchAll too: its `for cond` loop with a return and a break inside is translated onto fuel (Gen/AllTreeCode.lean, "
        "GoSem.whileFuel with the bound len(path)+1; running out of fuel would be the result `none`) and proved in Props/C08AllTreeCode "
        "to return `some` of what the model's matchAllLoopIdx returns — the loop terminates within the bound, tries the children first, "
        "swallows one more segment on a miss, stops at the capture limit (loop_refines, matchAll_refines, matchAll_segments: the "
        "segment-level matchAllLoop; matchAll_is_lib: it is what the call on a match-all child stands for one level up).")
    PROPS[_pid]["trusted_base"] = PROPS[_pid]["trusted_base"] + [
        "code-level tie for matchAllTree.matchAll: translator/treecode.go (AllTreeCode); the bound of the `for cond` loop "
        "(len(path)+1) is part of the translation's configuration — the theorem proves it is never reached, so it is not an assumption; "
        "t.matchNextSegment (inherited from the embedded baseTree) is the model's matchNextIdx on the node's children"]
PROPS["C04"]["code_modules"] = PROPS["C04"]["code_modules"] + ["Flamego.Props.C04InvokeCode"]
PROPS["C04"]["technique"] = PROPS["C04"]["technique"] + "; and for injector.callInvoke (the parameters of a handler resolved in order, a missing one → error and no call, else exactly one call with those values): translated on every run and proved in closed form"
PROPS["C04"]["level_text"] = PROPS["C04"]["level_text"] + (
    " The invocation too: injector.callInvoke (inject/inject.go), translated on every run into Gen/InjectCode.lean (an index loop over "
    "the parameter types with a store into the argument slice and an early return; t.In(i) and reflect.ValueOf(f).Call(in) are "
    "parameters of the generated definitions, nothing is assumed about them), is proved in Props/C04InvokeCode to be: resolve the "
    "parameter types IN ORDER, each by the translated Value on the injector as the previous resolutions left it; at the first type "
    "without a value stop, report an error, and the function is NOT called; otherwise call it exactly once with exactly the resolved "
    "values in parameter order and hand its results back with a nil error (loop_refines, callInvoke_closed, "
    "code_missing_not_called, code_all_resolved_called_once, resolve_spec). Invoke's type switch, fastInvoke and Apply are not "
    "translated (reflection on struct fields / interface assertion on the function value): the correspondence ties them.")
PROPS["C04"]["trusted_base"] = PROPS["C04"]["trusted_base"] + [
    "code-level tie for callInvoke: reflect.Type.In and reflect.Value.Call are uninterpreted parameters (sigIn, callF); fmt.Errorf "
    "is a non-nil error (its text, which names the type, is observed by the correspondence); an index out of range in in[i] = val "
    "is not represented (the loop's indices are below len(in) = numIn by construction, which the proof uses)"]
for _pid in ("C01", "C02", "C08"):
    PROPS[_pid]["code_modules"] = PROPS[_pid]["code_modules"] + ["Flamego.Props.C02DispatchCode"]
    PROPS[_pid]["level_text"] = PROPS[_pid]["level_text"] + (
        " The levels are joined in Props/C02DispatchCode: each function that a call on a child stands for in the translated "
        "matcher is proved to be the translated body of the method Go dispatches to, run on that child (static_is_lib, hole_is_lib, "
        "regex_is_lib, all_is_lib, all_matchAll_is_lib for the four leaf kinds; staticTree_match_is_lib (Gen/StaticTreeCode.lean), regexTree_match_is_lib, holeTree_match_is_lib, "
        "next_is_lib and C08AllTreeCode.matchAll_is_lib for the subtrees) — what remains between the levels is Go's dynamic dispatch "
        "itself.")
for _pid in ("C07", "C10"):
    PROPS[_pid]["code_modules"] = PROPS[_pid]["code_modules"] + ["Flamego.Props.C10JoinCode"]
    PROPS[_pid]["level_text"] = PROPS[_pid]["level_text"] + (
        " The dispatcher and the matcher are joined in Props/C10JoinCode: the parameter of the translated router.ServeHTTP that "
        "stands for tree.Match is instantiated with the translated baseTree.Match (Gen/BaseTreeCode.lean), which "
        "Props/C02BaseTreeCode proves to be the model's Node.match — so the translated dispatcher running the translated matcher makes "
        "exactly the one call the model's Router.serve decides (code_matcher_agrees, serve_code_matcher).")
_ALL = ['C01', 'C02', 'C03', 'C04', 'C05', 'C06', 'C07', 'C08', 'C09', 'C10', 'C11', 'C12', 'C13', 'C14', 'C15', 'C16', 'C17', 'C18']
NOT_APPLICABLE = [
    {"property_id": p, "reason": "check not built yet in this revision (work in progress; see DESIGN.md §11 for the plan)"}
    for p in _ALL if p not in PROPS
]
