"""Comparators, statistics and PROPS entries for the router suites (C01 C02 C07 C08 C09 C10 C12)."""
import hashlib
import re

NA = "006e61"  # hex of "\x00na"
FIELDS = ("route=", "u0=", "u1=", "ux=", "chains=", "ran=", "long=", "code=", "dirty=", "laws=", "alts=", "all=")


def parse_out(line):
    """h-lines → dict(kind='h', hid, params{}, route, u0, u1, long, chains, ran); 'nf…' → kind 'nf'"""
    t = line.split()
    if not t:
        return {"kind": "?"}
    if t[0] == "nf":
        d = {"kind": "nf"}
    elif t[0] == "h" and len(t) >= 2:
        d = {"kind": "h", "hid": t[1], "params": {}}
    else:
        return {"kind": t[0]}
    for x in t[1:]:
        f = next((f for f in FIELDS if x.startswith(f)), None)
        if f:
            d[f[:-1]] = x[len(f):]
        elif d["kind"] == "h" and "=" in x:
            for kv in x.split(","):
                k, _, v = kv.partition("=")
                d["params"][k] = v
    return d


def _is_req(op):
    return op.startswith("REQ ") or op.startswith("TREQ ") or op.startswith("NREQ ") or op.startswith("IREQ ")


def _setup_diverged(sess, R, M):
    """a registration / Headers / Name line answered differently: the two sides no longer hold the
    same route set, so request outcomes are not comparable (that is C08's / C09's / C12's business)"""
    return [i for i, op in enumerate(sess) if not _is_req(op) and not op.startswith("URL ") and R[i] != M[i]]


def _is_app(sess):
    """`NEW app` sessions (harness/app.go, Driver/App.lean): a whole application behind Flame.ServeHTTP — and
    `NEW dsl` sessions (harness/dsl.go): routes declared through Group/Combo/Routes/Any; both compared line by line"""
    return bool(sess) and sess[0].split()[:2] in (["NEW", "app"], ["NEW", "dsl"], ["NEW", "appfull"])


def _is_appfull(sess):
    """`NEW appfull` sessions (harness/appfull.go, Driver/AppFull.lean): the composed application model (injector scopes,
    return values, Static, Renderer, Recovery) on one real instance serving a sequence of requests"""
    return bool(sess) and sess[0].split()[:2] == ["NEW", "appfull"]


def cmp_dispatch(sess, R, M, params=False, chains=False, setup=False, urls=False):
    if _is_app(sess):
        # every output line of an app session is an observable of C07 (Before hooks that ran, the chain's
        # events with the parameters the handlers saw, what the client received, escaped panics): plain equality
        return [i for i in range(len(sess)) if i >= len(R) or i >= len(M) or R[i] != M[i]]
    bad = []
    sd = _setup_diverged(sess, R, M)
    if sd:
        return sd if setup else []
    for i, op in enumerate(sess):
        if op.startswith("URL "):
            if urls and R[i] != M[i]:
                bad.append(i)
            continue
        if not _is_req(op):
            continue
        r, m = parse_out(R[i]), parse_out(M[i])
        if r["kind"] != m["kind"]:
            bad.append(i)
            continue
        if r["kind"] == "nf":
            if chains and r.get("chains", "1") != "1":
                bad.append(i)
            continue
        if r["kind"] != "h":
            if R[i] != M[i]:
                bad.append(i)
            continue
        if r["hid"] != m["hid"]:
            bad.append(i)
            continue
        if chains and (r.get("chains", "1") != "1" or r.get("ran", "1") != "1"):
            bad.append(i)
            continue
        if (params or chains) and r.get("dirty", "0") != "0":
            bad.append(i)      # parameters written by an earlier request's handler leaked into this request
            continue
        if params and r.get("laws", "0") != "0" and set(r["laws"].split(",")) & set(m["params"].keys()):
            bad.append(i)      # EngineLaws monitor: a value of the WINNING form does not match its own expression in full
            continue
        if (params or chains) and "all" in m:
            # what the handler's parameter map holds beyond the winning route's binds may only be what the matcher
            # wrote while serving THIS request (values of abandoned branches, documented): `all=` is the model's
            # complete map; a key or value from anywhere else was carried over from another request
            allowed = dict(kv.partition("=")[::2] for kv in m["all"].split(",")) if m["all"] != "-" else {}
            if any(allowed.get(k) != v for k, v in r["params"].items()):
                bad.append(i)
                continue
        if params or op.startswith("IREQ "):
            ok = all(r["params"].get(k, "<none>") == v for k, v in m["params"].items())
            ok = ok and r.get("route") == m.get("route")
            if r.get("u0") == NA:      # the route could not be named (registration panicked half-way): nothing to rebuild
                if not ok:
                    bad.append(i)
                continue
            ok = ok and r.get("u0") == m.get("u0")
            if m.get("long") == "1":
                ok = ok and r.get("u1") == m.get("u1")
            if "ux" in r and "ux" in m:
                ok = ok and r["ux"] == m["ux"]      # the URL of another named route built without values
            if not ok:
                bad.append(i)
    return bad


def cmp_params(sess, R, M):
    """C02: the model comparison, plus — only in sessions the model cannot judge, because a registration was answered
    differently (the code accepted a route the model refuses) — the property's own round-trip clause on the REAL
    outputs alone: substituting the values the handler received back into the route it was dispatched to (`u0` without,
    `u1` with the optional segment) reproduces the request path. Paths with percent-escapes (the clause holds "up to
    the single decoding") and routes that could not be named are left out. On the unchanged tree no registration is
    answered differently, so this monitor never runs there."""
    bad = cmp_dispatch(sess, R, M, params=True)
    if bad or _is_app(sess) or not _setup_diverged(sess, R, M):
        return bad
    for i, op in enumerate(sess):
        if not op.startswith("REQ ") or i >= len(R):
            continue
        r = parse_out(R[i])
        if r.get("kind") != "h" or r.get("u0") in (None, NA):
            continue
        f = op.split()
        try:
            path = bytes.fromhex(f[2]) if f[2] != "-" else b""
        except ValueError:
            continue
        if b"%" in path or b"{" in path:
            continue
        want = (b"/" + path.lstrip(b"/")).hex()
        if want not in (r.get("u0"), r.get("u1")):
            bad.append(i)
    return bad


def cmp_shortcut(sess, R, M):
    """C10: the model comparison, plus a monitor on the REAL code alone — a request served by Flame.ServeHTTP (fast
    path first) and the same request matched on the identically populated shadow tree (`TREQ` right after its `REQ`)
    must name the same route with the same parameters, or both nothing. This needs no model, so it also speaks when
    the registrations themselves were answered differently (a route set the model would have refused)."""
    bad = cmp_dispatch(sess, R, M, params=True)
    if _is_app(sess):
        return bad
    for i in range(len(sess) - 1):
        if sess[i].startswith("REQ ") and sess[i + 1] == "T" + sess[i] and i + 1 < len(R):
            a, b = parse_out(R[i]), parse_out(R[i + 1])
            if a["kind"] not in ("h", "nf") or b["kind"] not in ("h", "nf"):
                continue
            same = a["kind"] == b["kind"] and (a["kind"] == "nf" or (
                a.get("hid") == b.get("hid") and a.get("params") == b.get("params") and a.get("route") == b.get("route")))
            if not same and (i + 1) not in bad:
                bad.append(i + 1)
    return sorted(bad)


def router_stats(nontrivial_req, rule):
    def f(lines, sessions, R, M):
        seen = set()
        nt = 0
        dist = {"req": 0, "dispatched": 0, "notfound": 0, "add_ok": 0, "add_err": 0, "hdr": 0, "url": 0, "treq": 0, "ireq": 0,
                "static_kind": 0, "regex_kind": 0, "hole_kind": 0, "all_kind": 0, "optional": 0}
        samples = []
        for (a, b) in sessions:
            routes = []
            app = _is_app(lines[a:a + 1])
            pre = "appfull" if _is_appfull(lines[a:a + 1]) else "app"
            if app:
                dist[pre + "_sessions"] = dist.get(pre + "_sessions", 0) + 1
            for i in range(a + 1, b):
                op = lines[i]
                if app and op.startswith("REQ "):
                    k = pre + "_" + (R[i].split() or ["?"])[0]      # app_h / app_nf / app_stop / app_q; appfull_run / appfull_stop
                    dist[k] = dist.get(k, 0) + 1
                if op.startswith("ADD "):
                    t = op.split()
                    ok = R[i].startswith("ok")
                    dist["add_ok" if ok else "add_err"] += 1
                    if ok and len(t) >= 5:
                        routes.append(t[3])
                        w = t[4]
                        dist["optional"] += "?" in w
                        dist["all_kind"] += ("2a2a" in w)
                        dist["regex_kind"] += (":r" in w)
                        dist["hole_kind"] += ("b" in w.replace(";", "+").split("+")[0][:1] or "+b" in w or ";b" in w)
                        dist["static_kind"] += w.startswith("i") or ";i" in w
                elif op.startswith("HDR "):
                    dist["hdr"] += 1
                elif op.startswith("URL "):
                    dist["url"] += 1
                elif _is_req(op):
                    dist["ireq" if op.startswith("I") else "treq" if op.startswith("T") else "req"] += 1
                    if pre != "appfull":       # an appfull line says run / stop, not which route
                        h = R[i].startswith("h ")
                        dist["dispatched" if h else "notfound"] += 1
                    key = hashlib.sha1(("|".join(routes) + "#" + op).encode()).hexdigest()
                    if key in seen:
                        continue
                    seen.add(key)
                    ma = re.search(r" alts=(\d+)", M[i])
                    if ma:
                        a_ = int(ma.group(1))
                        dist["alts_0" if a_ == 0 else "alts_1" if a_ == 1 else "alts_2plus"] = dist.get(
                            "alts_0" if a_ == 0 else "alts_1" if a_ == 1 else "alts_2plus", 0) + 1
                    if nontrivial_req(op, R[i], M[i], len(routes)):
                        nt += 1
                        if len(samples) < 3:
                            samples.append({"routes_hex": routes[:8], "op": op, "real": R[i], "model": M[i]})
        if not samples and sessions:
            a, b = sessions[0]
            samples.append({"ops": lines[a:b][:12], "real": R[a:b][:12]})
        return {"distinct_cases": len(seen), "distinct_nontrivial": nt, "rule": rule, "distribution": dist, "samples": samples}
    return f
