#!/usr/bin/env python3
"""Regenerate MANIFEST.json from lib/props.py (single source of truth for the claimed checks)."""
import json, os, sys
sys.path.insert(0, os.path.dirname(os.path.abspath(__file__)))
from props import PROPS, NOT_APPLICABLE, HOOK_COMMITS

ROOT = os.path.dirname(os.path.dirname(os.path.abspath(__file__)))
checks = []
for pid in sorted(PROPS):
    c = PROPS[pid]
    checks.append({
        "property_id": pid,
        "quick_cmd": "./check %s quick" % pid,
        "thorough_cmd": "./check %s thorough" % pid,
        "evidence_file": "/verif/evidence/%s.json" % pid,
        "replay_cmd_template": "./check %s --replay {path}" % pid,
        "engine": "lean4-proof+correspondence",
        "level_claimed": {"category": "proof", "text": c["level_text"], "design_ref": c.get("design_ref", "DESIGN.md §5")},
        "level_note": c["level_note"],
        "technique": c["technique"],
    })
m = {
    "version": 1,
    "setup_cmd": "./check setup",
    "hooks": {
        "guard": "verif",
        "enable": "go build -tags verif (the harness under /verif/harness is built with it against /repo via a replace directive)",
        "baseline_off_cmd": "cd /repo && GOFLAGS=-mod=mod GOPROXY=off GOSUMDB=off go test -vet=off -count=1 ./...",
        "source_commits": HOOK_COMMITS,
        "add_only": True,
    },
    "engines": [{
        "name": "lean4-proof+correspondence",
        "path": "/verif/check",
        "serves_properties": sorted(PROPS),
        "kind_free_text": "Lean 4 theorems over hand-written executable models (lean/Flamego), re-checked by lake on every run "
                          "against facts regenerated from /repo by a Go translator, and tied to the code by a differential "
                          "correspondence check: Go harness (real code, -tags verif) vs compiled Lean model driver (fmodel)",
    }],
    "checks": checks,
    "not_applicable": NOT_APPLICABLE,
    "notes": "See DESIGN.md. Known findings: KNOWN_FINDINGS.json. Seeded breakages: seeded/.",
}
json.dump(m, open(os.path.join(ROOT, "MANIFEST.json"), "w"), indent=1)
print("MANIFEST.json: %d checks, %d not_applicable" % (len(checks), len(NOT_APPLICABLE)))
