#!/usr/bin/env python3
"""
Logic-mutation self-test of the checks (DESIGN §17): which small slips in the repository's source do the checks report?

    lib/srcmut.py sites    <sites.json>                       list the mutation sites of /repo (build/mutator)
    lib/srcmut.py prefilter <sites.json> <out.json> [jobs]    phase 1: which mutants compile and PASS the repository's suite
    lib/srcmut.py trial    <survivors.json> <out.json> i/n    phase 2 (run in a COPY of /verif): the quick checks of every property
                                                              anchored in the mutated file, against the mutated worktree

A mutant that the repository's own suite already kills is of no interest (the brief: changes that "still compile and pass
the existing tests"). A survivor must be reported by at least one check, with a concrete failing input, unless it is
equivalent (no observable difference) — every survivor the checks miss is looked at by hand and either explained as
equivalent or turned into a wider generator.
"""
import json, os, re, shutil, subprocess, sys, time
from concurrent.futures import ThreadPoolExecutor

ROOT = os.path.dirname(os.path.dirname(os.path.abspath(__file__)))
ENV = dict(os.environ, GOFLAGS="-mod=mod", GOPROXY="off", GOSUMDB="off", GOTOOLCHAIN="local")
SCRATCH = os.environ.get("SRCMUT_SCRATCH", "/root/scratch")
# not behaviour any property speaks about: the HTTP server loop, the request logger, the stack-trace pretty printer
SKIP_FUNCS = {"Flame.Run", "Flame.Stop", "New", "Classic", "stack", "source", "function", "Logger", "ordinalize"}
SKIP_FILES = {"logger.go"}


def sh(cmd, **kw):
    p = subprocess.run(cmd, stdout=subprocess.PIPE, stderr=subprocess.STDOUT, text=True, **kw)
    return p.returncode, p.stdout


def worktree(path):
    subprocess.run(["git", "-C", "/repo", "worktree", "remove", "--force", path], stdout=subprocess.DEVNULL, stderr=subprocess.DEVNULL)
    shutil.rmtree(path, ignore_errors=True)
    subprocess.run(["git", "-C", "/repo", "worktree", "prune"])
    rc, out = sh(["git", "-C", "/repo", "worktree", "add", "--detach", path, "HEAD"])
    assert rc == 0, out


def drop_worktree(path):
    subprocess.run(["git", "-C", "/repo", "worktree", "remove", "--force", path], stdout=subprocess.DEVNULL, stderr=subprocess.DEVNULL)
    shutil.rmtree(path, ignore_errors=True)
    subprocess.run(["git", "-C", "/repo", "worktree", "prune"])


def apply(wt, s):
    p = os.path.join(wt, s["file"])
    src = open(p, "rb").read()
    if src[s["start"]:s["end"]].decode() != s["old"]:
        return False
    open(p, "wb").write(src[:s["start"]] + s["new"].encode() + src[s["end"]:])
    return True


def restore(wt):
    subprocess.run(["git", "-C", wt, "checkout", "--", "."], stdout=subprocess.DEVNULL)


def passes_suite(wt, base):
    """the repository's suite without the fixed-port server test (so that mutants can be tried in parallel)"""
    rc, out = sh(["go", "test", "-json", "-vet=off", "-count=1", "-timeout", "120s", "-skip", "^TestFlame_Run$", "./..."], cwd=wt, env=ENV, timeout=600)
    passed = set()
    built = True
    for l in out.splitlines():
        try:
            e = json.loads(l)
        except Exception:
            continue
        if e.get("Action") == "pass" and e.get("Test"):
            passed.add(e["Package"] + "::" + e["Test"])
        if e.get("Action") == "build-fail" or (e.get("Action") == "output" and "[build failed]" in e.get("Output", "")):
            built = False
    missing = sorted(base - passed)
    return built, missing


def prefilter(sites_path, out_path, jobs):
    sites = [s for s in json.load(open(sites_path)) if s["func"] not in SKIP_FUNCS and s["file"] not in SKIP_FILES]
    base = set(t for t in json.load(open("/root/.vp/BASELINE.json"))["stable_pass"] if not t.endswith("::TestFlame_Run"))
    wts = [os.path.join(SCRATCH, "wtpre%d" % i) for i in range(jobs)]
    for w in wts:
        worktree(w)
    results = [None] * len(sites)

    def work(j):
        wt = wts[j]
        for i in range(j, len(sites), jobs):
            s = sites[i]
            if not apply(wt, s):
                results[i] = dict(s, result="site-mismatch")
                continue
            try:
                built, missing = passes_suite(wt, base)
            except subprocess.TimeoutExpired:
                built, missing = True, ["<timeout>"]
            results[i] = dict(s, result="nocompile" if not built else "killed-by-suite" if missing else "survivor",
                              killed_by=missing[:3])
            restore(wt)
            if i % 50 == 0:
                print("prefilter", i, "/", len(sites), flush=True)

    try:
        with ThreadPoolExecutor(jobs) as ex:
            list(ex.map(work, range(jobs)))
    finally:
        for w in wts:
            drop_worktree(w)
    json.dump(results, open(out_path, "w"), indent=1)
    import collections
    print(collections.Counter(r["result"] for r in results if r))


def anchored(file):
    out = []
    for l in open(os.path.join(ROOT, "properties.jsonl")):
        p = json.loads(l)
        if file in p["anchors"]["files"]:
            out.append(p["id"])
    return out


def trial(surv_path, out_path, shard):
    i0, n = (int(x) for x in shard.split("/"))
    surv = [s for s in json.load(open(surv_path)) if s and s["result"] == "survivor"]
    mine = [s for k, s in enumerate(surv) if k % n == i0]
    wt = os.environ.get("TRYSEED_WT", os.path.join(SCRATCH, "wtsm%d" % i0))
    worktree(wt)
    results = []
    if os.path.exists(out_path):
        results = json.load(open(out_path))
    done = {(r["file"], r["start"], r["new"]) for r in results}
    try:
        for s in mine:
            if (s["file"], s["start"], s["new"]) in done:
                continue
            if not apply(wt, s):
                continue
            props = anchored(s["file"]) or ["C07"]
            t0 = time.time()
            verdicts = {}

            def run(pid):
                rc, out = sh([os.path.join(ROOT, "check"), pid, "quick"], cwd=ROOT, env=dict(os.environ, VERIF_REPO=wt), timeout=3000)
                v = [l for l in out.splitlines() if l.startswith(("VIOLATION", "OK ", "BROKEN"))]
                return pid, (v[-1][:160] if v else "? " + out[-200:].replace("\n", " | "))

            with ThreadPoolExecutor(4) as ex:
                for pid, line in ex.map(run, props):
                    verdicts[pid] = line
            caught = [p for p, l in verdicts.items() if l.startswith("VIOLATION") and "no-failing-input-found" not in l]
            obl = [p for p, l in verdicts.items() if l.startswith("VIOLATION") and "no-failing-input-found" in l]
            broken = [p for p, l in verdicts.items() if not l.startswith(("VIOLATION", "OK "))]
            res = dict(s, result="caught" if caught else "obligation-only" if obl else "broken" if broken else "MISSED",
                       caught_by=caught, verdicts=verdicts, seconds=round(time.time() - t0, 1))
            results.append(res)
            print(json.dumps({k: res[k] for k in ("file", "line", "func", "op", "old", "new", "result", "caught_by", "seconds")}), flush=True)
            json.dump(results, open(out_path, "w"), indent=1)
            restore(wt)
    finally:
        drop_worktree(wt)
        sh([os.path.join(ROOT, "check"), "setup"], cwd=ROOT)


def main():
    cmd = sys.argv[1]
    if cmd == "sites":
        rc, out = sh(["go", "build", "-o", os.path.join(ROOT, "build", "mutator"), "."], cwd=os.path.join(ROOT, "mutator"), env=ENV)
        assert rc == 0, out
        with open(sys.argv[2], "w") as f:
            subprocess.run([os.path.join(ROOT, "build", "mutator"), "/repo"], stdout=f, check=True)
    elif cmd == "prefilter":
        prefilter(sys.argv[2], sys.argv[3], int(sys.argv[4]) if len(sys.argv) > 4 else 8)
    elif cmd == "trial":
        trial(sys.argv[2], sys.argv[3], sys.argv[4])
    else:
        raise SystemExit(__doc__)


if __name__ == "__main__":
    main()
