#!/usr/bin/env python3
"""Run the repository's test suite (guard off) and compare with /root/.vp/BASELINE.json's stable_pass list."""
import json, os, subprocess, sys
repo = sys.argv[1] if len(sys.argv) > 1 else "/repo"
env = dict(os.environ, GOFLAGS="-mod=mod", GOPROXY="off", GOSUMDB="off", GOTOOLCHAIN="local")
p = subprocess.run(["flock", "/tmp/flamego-gotest.lock", "go", "test", "-json", "-vet=off", "-count=1", "-timeout", "25m", "./..."], cwd=repo, env=env,
                   stdout=subprocess.PIPE, stderr=subprocess.STDOUT, text=True)
passed = set()
for l in p.stdout.splitlines():
    try:
        e = json.loads(l)
    except Exception:
        continue
    if e.get("Action") == "pass" and e.get("Test"):
        passed.add(e["Package"] + "::" + e["Test"])
base = set(json.load(open("/root/.vp/BASELINE.json"))["stable_pass"])
missing = sorted(base - passed)
print("baseline stable_pass=%d now_pass=%d missing=%d" % (len(base), len(passed), len(missing)))
for m in missing[:20]:
    print("  MISSING", m)
sys.exit(1 if missing else 0)
