#!/usr/bin/env python3
"""Regenerate the seeded-changes table of DESIGN.md (between the SEEDTABLE markers) from seeded/*/meta.json."""
import glob, json, os, re
ROOT = os.path.dirname(os.path.dirname(os.path.abspath(__file__)))
rows = []
for d in sorted(glob.glob(os.path.join(ROOT, "seeded", "*"))):
    m = json.load(open(os.path.join(d, "meta.json")))
    det = m.get("detection", {})
    verdicts = []
    for k, v in det.items():
        verdicts.append("%s %s" % (k.replace("/", " "), "VIOLATION" if v["rc"] == 1 else "missed" if v["rc"] == 0 else "broken"))
    summ = re.sub(r"\s+", " ", m.get("summary", "")).replace("|", "\\|")
    if len(summ) > 230:
        summ = summ[:227] + "…"
    need = re.sub(r"\s+", " ", str(m.get("needs_to_manifest", ""))).replace("|", "\\|")
    if len(need) > 160:
        need = need[:157] + "…"
    rows.append("| %s | %s | %s | %s |" % (os.path.basename(d), summ, need, "; ".join(verdicts)))
table = "| Seed | Change | Needs | Verdict of the property's check |\n|---|---|---|---|\n" + "\n".join(rows)
p = os.path.join(ROOT, "DESIGN.md")
s = open(p).read()
a, b = "<!-- SEEDTABLE-BEGIN -->", "<!-- SEEDTABLE-END -->"
if a in s:
    s = s[:s.index(a) + len(a)] + "\n" + table + "\n" + s[s.index(b):]
    open(p, "w").write(s)
print("%d seeds" % len(rows))
