#!/bin/bash
# list files that differ between a worker's copy and /verif
a=/root/scratch/$1/verif
cd $a && git status --short | grep -v -E 'build/|\.lake|replays/|Audit/|go\.sum|MANIFEST|__pycache__' 
