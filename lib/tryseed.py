#!/usr/bin/env python3
"""
Try a seeded change against the checks.

    lib/tryseed.py <seed-dir> [--props C01,C02] [--no-suite] [--tiers quick,thorough]

<seed-dir> holds patch.diff (+ demo, meta.json). The patch is applied in a scratch worktree of /repo
(outside /repo and /verif), the checks are run with VERIF_REPO pointing at it, and the worktree is
removed afterwards. Confirms first (unless --no-suite) that the change compiles, passes the baseline
suite, and that the demonstration fails with the change and passes without it.
Prints one JSON object.
"""
import json, os, re, shutil, subprocess, sys

ROOT = os.path.dirname(os.path.dirname(os.path.abspath(__file__)))
WT = os.environ.get("TRYSEED_WT", "/root/scratch/seedtest")
ENV = dict(os.environ, GOFLAGS="-mod=mod", GOPROXY="off", GOSUMDB="off", GOTOOLCHAIN="local")


def sh(cmd, cwd=None, env=None, timeout=3600):
    p = subprocess.run(cmd, cwd=cwd, env=env or ENV, stdout=subprocess.PIPE, stderr=subprocess.STDOUT, text=True, timeout=timeout)
    return p.returncode, p.stdout


def fresh_worktree():
    subprocess.run(["git", "-C", "/repo", "worktree", "remove", "--force", WT], stdout=subprocess.DEVNULL, stderr=subprocess.DEVNULL)
    shutil.rmtree(WT, ignore_errors=True)
    subprocess.run(["git", "-C", "/repo", "worktree", "prune"])
    rc, out = sh(["git", "-C", "/repo", "worktree", "add", "--detach", WT, "HEAD"])
    if rc != 0:
        raise SystemExit("worktree add failed: " + out)


def run_demo(sd):
    """returns 'pass' | 'fail' | 'none' for the demonstration in the current worktree state"""
    tests = [f for f in os.listdir(sd) if f.endswith("_test.go")]
    mains = [f for f in os.listdir(sd) if f == "main.go"]
    if tests:
        f = tests[0]
        first = open(os.path.join(sd, f)).readline()
        m = re.search(r"(?:package dir(?:ectory)?|dir|into)\W+([\w./-]+)", first)
        pkgdir = "."
        src = open(os.path.join(sd, f)).read()
        pm = re.search(r"^package\s+(\w+)", src, re.M)
        if pm and pm.group(1) in ("route", "route_test"):
            pkgdir = "internal/route"
        elif pm and pm.group(1) in ("inject", "inject_test"):
            pkgdir = "inject"
        dst = os.path.join(WT, pkgdir, "zz_seed_" + f)
        shutil.copyfile(os.path.join(sd, f), dst)
        names = re.findall(r"^func (Test\w+)\(", src, re.M)
        race = ["-race"] if "-race" in src or "go test -race" in open(os.path.join(sd, "meta.json")).read() else []
        env = dict(ENV, CGO_ENABLED="1") if race else ENV
        rc, out = sh(["flock", "/tmp/flamego-gotest.lock", "go", "test"] + race + ["-vet=off", "-count=1", "-run", "^(" + "|".join(names) + ")$", "./" + pkgdir],
                     cwd=WT, env=env, timeout=900)
        os.remove(dst)
        return ("pass" if rc == 0 else "fail"), out[-1500:]
    if mains:
        d = os.path.join(WT, "zz_seed_demo")
        os.makedirs(d, exist_ok=True)
        shutil.copyfile(os.path.join(sd, "main.go"), os.path.join(d, "main.go"))
        src = open(os.path.join(sd, "main.go")).read()
        cmd = ["go", "run"] + (["-race"] if "race" in src.lower()[:400] else []) + ["./zz_seed_demo"]
        env = dict(ENV, CGO_ENABLED="1") if "-race" in cmd else ENV
        rc, out = sh(cmd, cwd=WT, env=env, timeout=900)
        shutil.rmtree(d, ignore_errors=True)
        bad = rc != 0 or "PROPERTY VIOLATED" in out
        return ("fail" if bad else "pass"), out[-1500:]
    return "none", ""


def main():
    sd = os.path.abspath(sys.argv[1])
    args = sys.argv[2:]
    props = None
    tiers = ["quick", "thorough"]
    suite = "--no-suite" not in args
    for i, a in enumerate(args):
        if a == "--props":
            props = args[i + 1].split(",")
        if a == "--tiers":
            tiers = args[i + 1].split(",")
    meta = json.load(open(os.path.join(sd, "meta.json"))) if os.path.exists(os.path.join(sd, "meta.json")) else {}
    props = props or [meta.get("property")]
    res = {"seed": os.path.basename(sd), "property": meta.get("property"), "checks": {}}
    fresh_worktree()
    # evidence files are rewritten by every check run: keep the ones from the unchanged tree
    evdir, evbak = os.path.join(ROOT, "evidence"), os.path.join(ROOT, "build", "evidence.bak")
    shutil.rmtree(evbak, ignore_errors=True)
    if os.path.isdir(evdir):
        shutil.copytree(evdir, evbak)
    try:
        if suite:
            res["demo_without_change"], _ = run_demo(sd)
        rc, out = sh(["git", "apply", os.path.join(sd, "patch.diff")], cwd=WT)
        res["applies"] = rc == 0
        if rc != 0:
            res["apply_error"] = out[-500:]
            print(json.dumps(res, indent=1))
            return
        if suite:
            rc, out = sh(["go", "build", "./..."], cwd=WT)
            res["compiles"] = rc == 0
            rc, out = sh([sys.executable, os.path.join(ROOT, "lib", "baseline.py"), WT])
            res["baseline"] = out.strip().splitlines()[0] if out.strip() else ""
            res["baseline_ok"] = rc == 0
            res["demo_with_change"], res["demo_output_tail"] = run_demo(sd)
        for p in props:
            for tier in tiers:
                env = dict(os.environ, VERIF_REPO=WT)
                rc, out = sh([os.path.join(ROOT, "check"), p, tier], cwd=ROOT, env=env, timeout=7200)
                lines = [l for l in out.splitlines() if l.startswith(("VIOLATION", "OK ", "BROKEN", "KNOWN-FINDING"))]
                res["checks"]["%s/%s" % (p, tier)] = {"rc": rc, "lines": [l[:300] for l in lines]}
                if rc == 1:
                    break  # detected; no need for the deeper tier
    finally:
        subprocess.run(["git", "-C", "/repo", "worktree", "remove", "--force", WT], stdout=subprocess.DEVNULL, stderr=subprocess.DEVNULL)
        shutil.rmtree(WT, ignore_errors=True)
        if os.path.isdir(evbak):
            shutil.rmtree(evdir, ignore_errors=True)
            shutil.copytree(evbak, evdir)
        # put the generated facts and the harness back in step with /repo
        subprocess.run([os.path.join(ROOT, "check"), "setup"], stdout=subprocess.DEVNULL, stderr=subprocess.DEVNULL)
    print(json.dumps(res, indent=1))
    if "--keep" in args:
        dst = os.path.join(ROOT, "seeded", os.path.basename(sd))
        os.makedirs(dst, exist_ok=True)
        for f in os.listdir(sd):
            if os.path.isfile(os.path.join(sd, f)) and os.path.abspath(sd) != os.path.abspath(dst):
                shutil.copyfile(os.path.join(sd, f), os.path.join(dst, f))
        m = dict(meta)
        m["breaks_property"] = meta.get("property")
        m["confirmed_by_lead"] = {k: res.get(k) for k in ("applies", "compiles", "baseline", "baseline_ok",
                                                         "demo_without_change", "demo_with_change")}
        m["what_was_run"] = ["git apply patch.diff in a scratch worktree of /repo", "go build ./...", "lib/baseline.py (full suite vs BASELINE stable_pass)",
                             "the demonstration with and without the change"] + ["VERIF_REPO=<worktree> ./check %s" % k.replace("/", " ") for k in res["checks"]]
        m["detection"] = res["checks"]
        json.dump(m, open(os.path.join(dst, "meta.json"), "w"), indent=1)


if __name__ == "__main__":
    main()
