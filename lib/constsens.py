#!/usr/bin/env python3
"""
Sensitivity of the correspondence to every regenerated constant (a self-test of the generators).

    lib/constsens.py [--only name,name…] [--out file.json]        (run it in a COPY of /verif: it rewrites Gen files)

For every definition of lean/Flamego/Gen/ConstFacts.lean and RouteFacts.lean the MODEL's value is perturbed
(number + 1, flag flipped, one byte appended, an entry dropped), `fmodel` is rebuilt, and the quick-tier
sessions of the property the constant serves (corpus first) are run against the UNCHANGED repository: the
real code now disagrees with the model in exactly that constant, so the correspondence must diverge.
A constant whose perturbation goes unnoticed is one the generators do not exercise: a source change of it
would only be caught by the build-time `…_documented` obligation, never by a concrete failing input, and a
restructuring that hides it from the translator (DESIGN §15) would leave it without any tie.

Output: one line per constant (`sensitive` with the number of diverging sessions / `build` when the model no
longer builds / `INSENSITIVE`), and a JSON summary.
"""
import importlib.machinery, importlib.util, json, os, re, shutil, subprocess, sys, time

ROOT = os.path.dirname(os.path.dirname(os.path.abspath(__file__)))
sys.path.insert(0, os.path.join(ROOT, "lib"))
loader = importlib.machinery.SourceFileLoader("checkmod", os.path.join(ROOT, "check"))
spec = importlib.util.spec_from_loader("checkmod", loader)
ck = importlib.util.module_from_spec(spec)
loader.exec_module(ck)
from props import PROPS

GEN = os.path.join(ck.LEAN, "Flamego", "Gen")
# which suite exercises a RouteFacts constant
ROUTE_GROUP = {"styleRank": "C01", "httpMethods": "C11", "matchStyles": "C01"}


def parse_defs(path):
    """[(name, type, value_text, group, start, end)] of a generated file"""
    txt = open(path).read()
    out = []
    for m in re.finditer(r"(/--((?:.|\n)*?)-/\n)?def (\w+) : ([^\n]*?) :=((?:.|\n)*?)(?=\n\n|\nend )", txt):
        doc = m.group(2) or ""
        g = re.search(r"\[(C\d+)\]", doc)
        out.append({"name": m.group(3), "type": m.group(4).strip(), "value": m.group(5).strip(),
                    "group": g.group(1) if g else None, "span": (m.start(5), m.end(5))})
    return txt, out


def perturb(d):
    t, v = d["type"], d["value"]
    if t == "Nat":
        return str(int(v) + 1)
    if t == "Bool":
        return "false" if v == "true" else "true"
    if t == "String":
        return json.dumps(json.loads(v) + "x") if v.startswith('"') else None
    if t == "List UInt8":
        inner = v.strip()[1:-1].strip()
        return "[" + (inner + ", 120" if inner else "120") + "]"
    if t == "List (List UInt8)":
        m = re.match(r"\[\s*\[([^\]]*)\]", v)
        if m:
            inner = m.group(1).strip()
            return v[:m.start(1)] + (inner + ", 120" if inner else "120") + v[m.end(1):]
        return "[[120]]"
    if t.startswith("List (String"):
        items = re.findall(r"\([^()]*\)", v)
        return "[" + ", ".join(items[:-1]) + "]" if items else None
    if t.startswith("List String"):
        items = re.findall(r'"(?:[^"\\]|\\.)*"', v)
        return "[" + ", ".join(items[:-1]) + "]" if items else None
    if t.startswith("List (String × Nat)") or t.startswith("List (String × "):
        return None
    return None


def sh(cmd, **kw):
    p = subprocess.run(cmd, stdout=subprocess.PIPE, stderr=subprocess.STDOUT, text=True, **kw)
    return p.returncode, p.stdout


def prepare_suite(pid, work):
    """ops (corpus + quick generator) and the real outputs, once per property"""
    d = os.path.join(work, pid)
    os.makedirs(d, exist_ok=True)
    ops = os.path.join(d, "ops.txt")
    rc, out = sh([ck.HARNESS, "gen", PROPS[pid].get("suite", pid), "1", "quick", ops], env=ck.GOENV)
    assert rc == 0, out
    corpus = []
    cdir = os.path.join(ROOT, "corpus", pid)
    if os.path.isdir(cdir):
        for fn in sorted(os.listdir(cdir)):
            if fn.endswith(".ops"):
                corpus += [l for l in open(os.path.join(cdir, fn)).read().split("\n") if l.strip()]
    lines = corpus + [l for l in open(ops).read().split("\n") if l.strip()]
    open(ops, "w").write("\n".join(lines) + "\n")
    real = os.path.join(d, "real.txt")
    ck.exec_real(d, ops, real)
    return ops, lines, open(real).read().split("\n")


def model_run(pid, work, ops):
    d = os.path.join(work, pid)
    q, a, m = (os.path.join(d, x) for x in ("q.txt", "a.txt", "model.txt"))
    with open(ops) as f, open(q, "w") as qq:
        subprocess.run([ck.FMODEL, "queries"], stdin=f, stdout=qq, timeout=1800)
    sh([ck.HARNESS, "oracle", q, a], env=ck.GOENV)
    with open(ops) as f, open(m, "w") as mm:
        subprocess.run([ck.FMODEL, "run", a], stdin=f, stdout=mm, timeout=1800)
    return open(m).read().split("\n")


def diverging(pid, lines, R, M):
    cmp_ = ck.crash_aware(PROPS[pid].get("compare", ck.default_compare))
    n = 0
    for (a, b) in ck.split_sessions(lines):
        if R[a:b] == M[a:b]:
            continue
        try:
            if cmp_(lines[a:b], R[a:b], M[a:b]):
                n += 1
        except Exception:
            n += 1
    return n


def main():
    only = None
    outp = os.path.join(ROOT, "build", "constsens.json")
    args = sys.argv[1:]
    for i, a in enumerate(args):
        if a == "--only":
            only = set(args[i + 1].split(","))
        if a == "--out":
            outp = args[i + 1]
    work = os.path.join(ROOT, "build", "constsens")
    shutil.rmtree(work, ignore_errors=True)
    os.makedirs(work)
    rc, out = sh([os.path.join(ROOT, "check"), "setup"], cwd=ROOT)
    assert rc == 0, out[-2000:]
    suites, results = {}, []
    for fn in ("ConstFacts.lean", "RouteFacts.lean"):
        path = os.path.join(GEN, fn)
        orig, defs = parse_defs(path)
        for d in defs:
            if only and d["name"] not in only:
                continue
            pid = d["group"] or ROUTE_GROUP.get(d["name"])
            new = perturb(d)
            if not pid or new is None or new == d["value"]:
                results.append({"name": d["name"], "file": fn, "result": "skipped", "why": "no group or no perturbation for type " + d["type"]})
                continue
            if pid not in suites:
                suites[pid] = prepare_suite(pid, work)
            ops, lines, R = suites[pid]
            a, b = d["span"]
            open(path, "w").write(orig[:a] + " " + new + orig[b:])
            t0 = time.time()
            rc, out = sh(["lake", "build", "fmodel"], cwd=ck.LEAN)
            if rc != 0:
                res = {"name": d["name"], "file": fn, "serves": pid, "result": "build", "detail": re.findall(r"error: ([^\n]*)", out)[:2]}
            else:
                M = model_run(pid, work, ops)
                n = diverging(pid, lines, R, M) if len(M) >= len(lines) else -1
                res = {"name": d["name"], "file": fn, "serves": pid, "result": "sensitive" if n != 0 else "INSENSITIVE", "diverging_sessions": n}
            res["perturbed_to"] = new[:80]
            res["seconds"] = round(time.time() - t0, 1)
            results.append(res)
            print(json.dumps(res), flush=True)
            open(path, "w").write(orig)
    sh(["lake", "build", "fmodel"], cwd=ck.LEAN)
    summary = {"constants": len(results), "sensitive": sum(r["result"] == "sensitive" for r in results),
               "build": sum(r["result"] == "build" for r in results),
               "insensitive": [r["name"] for r in results if r["result"] == "INSENSITIVE"],
               "skipped": [r["name"] for r in results if r["result"] == "skipped"], "results": results}
    json.dump(summary, open(outp, "w"), indent=1)
    print("SUMMARY", json.dumps({k: v for k, v in summary.items() if k != "results"}))


if __name__ == "__main__":
    main()
