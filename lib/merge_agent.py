#!/usr/bin/env python3
"""Merge a worker's copy into /verif: copy untracked files (except evidence/build junk), copy modified non-shared
files, and print diffs of the shared files for manual merging."""
import os, shutil, subprocess, sys
name = sys.argv[1]
src = "/root/scratch/%s/verif" % name
dst = "/verif"
SHARED = {"lean/Main.lean", "lib/props.py", "harness/main.go", "check", "lean/Flamego/Driver/Common.lean", "lean/Flamego.lean",
          "MANIFEST.json", "KNOWN_FINDINGS.json", ".gitignore"}
SKIP = ("build/", ".lake", "replays/", "Audit/", "go.sum", "__pycache__", "evidence/", "MANIFEST")
out = subprocess.run(["git", "status", "--short", "-uall"], cwd=src, stdout=subprocess.PIPE, text=True).stdout
for l in out.splitlines():
    st, path = l[:2], l[3:]
    if any(s in path for s in SKIP):
        continue
    if path in SHARED:
        print("SHARED (merge by hand):", path)
        continue
    s, d = os.path.join(src, path), os.path.join(dst, path)
    os.makedirs(os.path.dirname(d), exist_ok=True)
    shutil.copyfile(s, d)
    print("copied", path)
