#!/usr/bin/env python3
"""
notes/srcmut_survivors.md from the results of lib/srcmut.py:  lib/srcmut_report.py <first-run.json> [<re-trial.json>…]
Every survivor of the repository's suite that the checks did NOT report at the first run, with the hand-made
classification (by file and line of the pinned commit) and, when a re-trial was run after the widenings, its verdict.
"""
import json, os, sys

ROOT = os.path.dirname(os.path.dirname(os.path.abspath(__file__)))
SCOPE = "outside every property"
EQ = "equivalent"
GAP = "GAP, closed"
CLASS = [
    ("recovery.go", 60, 130, SCOPE, "the formatting of the development-mode stack trace and the log line (C15 says WHEN detail appears, not what it looks like)"),
    ("static.go", 149, 150, SCOPE, "`[Static] Serving` log line"),
    ("static.go", 111, 145, SCOPE, "Close() of the opened file / index file (a descriptor leak; no property speaks of it)"),
    ("static.go", 102, 104, EQ, "`\".\"` for `\"/\"` and TrimRight/TrimSuffix of trailing slashes: http.Dir cleans the name, the same file is opened"),
    ("flame.go", 58, 58, EQ, "newRouter() has already installed NotFound(http.NotFound)"),
    ("flame.go", 61, 61, SCOPE, "the standard-library *log.Logger mapped by default (no property lists the built-in services)"),
    ("flame.go", 105, 105, SCOPE, "handler validation / fast-invoker wrapping at Use(): handlers are invoked by reflection all the same"),
    ("handler.go", 83, 83, SCOPE, "handler validation / fast-invoker wrapping: handlers are invoked by reflection all the same"),
    ("router.go", 351, 351, SCOPE, "handler validation / wrapping of NotFound handlers"),
    ("flame.go", 137, 138, EQ, "urlPrefix is never set (dead code)"),
    ("flame.go", 240, 240, GAP, "FLAMEGO_ENV at process start was never exercised: Model/Env, Props/C15Env, `envinit` sessions"),
    ("context.go", 351, 351, EQ, "ParseFloat bit size 63/65 is treated as 64"),
    ("inject/inject.go", 120, 139, EQ, "an empty non-nil argument slice instead of nil for a function without parameters"),
    ("inject/inject.go", 214, 216, EQ, "Implements = AssignableTo for an interface type; which implementor of several is taken is Go's map order anyway"),
    ("internal/route/definition.go", 70, 100, EQ, "the `???` branches are unreachable for parsed routes"),
    ("internal/route/leaf.go", 118, 118, GAP, "which parameters of a list are binds only matters for a match-all list whose option is spelled as an expression (`capture: /2/`), never generated before"),
    ("internal/route/leaf.go", 96, 133, EQ, "URLPath: the optional segment is the last one; unreachable `???`; conditions that differ only on lists the registration rejects; a capacity"),
    ("internal/route/leaf.go", 169, 174, EQ, "Static() answering false more often: C10 proves the shortcut unobservable, a shortcut never taken is no change"),
    ("internal/route/leaf.go", 190, 190, EQ, "a regex leaf has at least one bind, a failed FindStringSubmatch returns nil"),
    ("internal/route/leaf.go", 298, 298, EQ, "the capture value returned next to ok=false is ignored"),
    ("internal/route/leaf.go", 305, 305, GAP, "the capture limit spelled as an expression (`capture: /2/`) was never generated"),
    ("internal/route/parser.go", 66, 66, EQ, "lookahead 3 parses the LL(2) grammar identically (the option differs: the second opinion of §12.3 runs and agrees)"),
    ("internal/route/tree.go", 143, 143, EQ, "`/?` alone: the empty optional segment"),
    ("internal/route/tree.go", 217, 221, EQ, "roll-back loop: re-reading the list and break/continue after the only match"),
    ("internal/route/tree.go", 434, 434, EQ, "nil route: unreachable through the router"),
    ("internal/route/tree.go", 465, 465, EQ, "documented in the source: at most one match-all subtree, the last one"),
    ("render.go", 57, 73, EQ, "`return` as the last statement"),
    ("response_writer.go", 70, 70, EQ, "`return` inside the Once when already written: unreachable (the Once runs once, before anything is written)"),
    ("response_writer.go", 129, 129, SCOPE, "Push on a writer without http.Pusher (no property speaks of Push)"),
    ("return_handler.go", 59, 59, EQ, "a successful assertion to error yields a non-nil interface"),
    ("router.go", 109, 109, EQ, "NewParser cannot fail"),
    ("router.go", 157, 162, SCOPE, "Headers() with an odd number of arguments panics either way (another text); capacity; loop bound that is never reached"),
    ("router.go", 163, 163, GAP, "MustCompilePOSIX: header expressions in Perl-only syntax were never generated"),
    ("router.go", 186, 200, EQ, "break/continue after the only or an arbitrary match"),
    ("router.go", 223, 223, EQ, "no entry in the shortcut table: C10 proves it unobservable"),
    ("router.go", 389, 389, EQ, "capacity of a map"),
    ("router.go", 397, 397, GAP, "a bind named `withOptional` was never generated"),
    ("router.go", 484, 484, EQ, "without the explicit panic the nil *Route is dereferenced: a panic either way"),
    ("router.go", 483, 486, GAP, "ComboRoute.Name was never called"),
]


def classify(r):
    for f, a, b, kind, why in CLASS:
        if r["file"] == f and a <= r["line"] <= b:
            return kind, why
    return "UNCLASSIFIED", ""


def main():
    first = json.load(open(sys.argv[1]))
    later = {}
    for p in sys.argv[2:]:
        for r in json.load(open(p)):
            later[(r["file"], r["start"], r["new"])] = r
    missed = [r for r in first if r["result"] != "caught"]
    out = ["# Survivors of the repository's suite that the checks did not report at the first run", "",
           "`lib/srcmut.py` (DESIGN §17): %d survivors, %d reported at the first run, %d listed here." % (len(first), len(first) - len(missed), len(missed)), "",
           "| file:line | function | mutation | class | why | after the widenings |", "|---|---|---|---|---|---|"]
    counts = {}
    now_caught = 0
    for r in sorted(missed, key=lambda r: (r["file"], r["line"], r["start"])):
        kind, why = classify(r)
        counts[kind] = counts.get(kind, 0) + 1
        l = later.get((r["file"], r["start"], r["new"]))
        after = "" if not l else ("reported by " + ",".join(l["caught_by"]) if l["result"] == "caught" else l["result"].lower())
        now_caught += bool(l and l["result"] == "caught")
        esc = lambda t: t.replace("|", "\\|").replace("\n", " ")
        out.append("| %s:%d | %s | `%s` → `%s` | %s | %s | %s |" % (r["file"], r["line"], r["func"], esc(r["old"][:60]), esc(r["new"][:60]), kind, why, after))
    out += ["", "Counts: " + ", ".join("%s %d" % kv for kv in sorted(counts.items())) + "; reported after the widenings: %d." % now_caught]
    os.makedirs(os.path.join(ROOT, "notes"), exist_ok=True)
    open(os.path.join(ROOT, "notes", "srcmut_survivors.md"), "w").write("\n".join(out) + "\n")
    print(counts, "now caught", now_caught)


if __name__ == "__main__":
    main()
