package main

// ConstFacts: resolution of constant expressions (string / integer literals, http.MethodXxx,
// http.StatusXxx) and the tables behind it.

import (
	"go/ast"
	"go/token"
	"strconv"
)

var httpMethodConst = map[string]string{
	"MethodGet": "GET", "MethodHead": "HEAD", "MethodPost": "POST", "MethodPut": "PUT",
	"MethodPatch": "PATCH", "MethodDelete": "DELETE", "MethodConnect": "CONNECT",
	"MethodOptions": "OPTIONS", "MethodTrace": "TRACE",
}

// net/http status constants (go1.23)
var httpStatusConst = map[string]int{
	"StatusContinue": 100, "StatusSwitchingProtocols": 101, "StatusProcessing": 102, "StatusEarlyHints": 103,
	"StatusOK": 200, "StatusCreated": 201, "StatusAccepted": 202, "StatusNonAuthoritativeInfo": 203,
	"StatusNoContent": 204, "StatusResetContent": 205, "StatusPartialContent": 206, "StatusMultiStatus": 207,
	"StatusAlreadyReported": 208, "StatusIMUsed": 226,
	"StatusMultipleChoices": 300, "StatusMovedPermanently": 301, "StatusFound": 302, "StatusSeeOther": 303,
	"StatusNotModified": 304, "StatusUseProxy": 305, "StatusTemporaryRedirect": 307, "StatusPermanentRedirect": 308,
	"StatusBadRequest": 400, "StatusUnauthorized": 401, "StatusPaymentRequired": 402, "StatusForbidden": 403,
	"StatusNotFound": 404, "StatusMethodNotAllowed": 405, "StatusNotAcceptable": 406, "StatusProxyAuthRequired": 407,
	"StatusRequestTimeout": 408, "StatusConflict": 409, "StatusGone": 410, "StatusLengthRequired": 411,
	"StatusPreconditionFailed": 412, "StatusRequestEntityTooLarge": 413, "StatusRequestURITooLong": 414,
	"StatusUnsupportedMediaType": 415, "StatusRequestedRangeNotSatisfiable": 416, "StatusExpectationFailed": 417,
	"StatusTeapot": 418, "StatusMisdirectedRequest": 421, "StatusUnprocessableEntity": 422, "StatusLocked": 423,
	"StatusFailedDependency": 424, "StatusTooEarly": 425, "StatusUpgradeRequired": 426,
	"StatusPreconditionRequired": 428, "StatusTooManyRequests": 429, "StatusRequestHeaderFieldsTooLarge": 431,
	"StatusUnavailableForLegalReasons": 451,
	"StatusInternalServerError":        500, "StatusNotImplemented": 501, "StatusBadGateway": 502,
	"StatusServiceUnavailable": 503, "StatusGatewayTimeout": 504, "StatusHTTPVersionNotSupported": 505,
	"StatusVariantAlsoNegotiates": 506, "StatusInsufficientStorage": 507, "StatusLoopDetected": 508,
	"StatusNotExtended": 510, "StatusNetworkAuthenticationRequired": 511,
}

// str: a string constant — a literal or http.MethodXxx
func (c *cfacts) str(e ast.Expr, where string) string {
	if s, ok := strLit(e); ok {
		c.note(e, "str")
		return s
	}
	if bl, ok := e.(*ast.BasicLit); ok && bl.Kind == token.CHAR {
		if s, err := strconv.Unquote(bl.Value); err == nil {
			c.note(e, "char")
			return s
		}
	}
	if se, ok := e.(*ast.SelectorExpr); ok && exprText(se.X) == "http" {
		if m, ok := httpMethodConst[se.Sel.Name]; ok {
			c.note(e, "str")
			return m
		}
	}
	c.fail("%s: %q is not a string constant the translator can resolve", where, exprText(e))
	return ""
}

// num: an integer constant — a literal or http.StatusXxx
func (c *cfacts) num(e ast.Expr, where string) int {
	if bl, ok := e.(*ast.BasicLit); ok && bl.Kind == token.INT {
		if v, err := strconv.ParseInt(bl.Value, 0, 32); err == nil && v >= 0 {
			c.note(e, "num")
			return int(v)
		}
	}
	if se, ok := e.(*ast.SelectorExpr); ok && exprText(se.X) == "http" {
		if v, ok := httpStatusConst[se.Sel.Name]; ok {
			c.note(e, "num")
			return v
		}
	}
	c.fail("%s: %q is not an integer constant the translator can resolve", where, exprText(e))
	return 0
}

// cmp: a comparison `x op const` with the given left side; returns the constant side
func (c *cfacts) cmp(e ast.Expr, left string, op token.Token, where string) ast.Expr {
	if p, ok := e.(*ast.ParenExpr); ok {
		e = p.X
	}
	be, ok := e.(*ast.BinaryExpr)
	if !ok || be.Op != op || exprText(be.X) != left {
		c.fail("%s: expected `%s %s <const>`, found %q", where, left, op, exprText(e))
		return &ast.BadExpr{}
	}
	return be.Y
}

// flatten `a && b && c`
func conjuncts(e ast.Expr) []ast.Expr {
	if p, ok := e.(*ast.ParenExpr); ok {
		return conjuncts(p.X)
	}
	if be, ok := e.(*ast.BinaryExpr); ok && be.Op == token.LAND {
		return append(conjuncts(be.X), conjuncts(be.Y)...)
	}
	return []ast.Expr{e}
}
