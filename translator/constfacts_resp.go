package main

// ConstFacts, part 3: recovery.go + flame.go (C15), return_handler.go (C14),
// response_writer.go (C13), context.go (C18).

import (
	"go/ast"
	"go/token"
	"net/http"
	"strings"
)

// constString: the value of the package-level string constant `name` declared in rel
func (c *cfacts) constString(rel, name string) string {
	for _, d := range c.file(rel).Decls {
		gd, ok := d.(*ast.GenDecl)
		if !ok || gd.Tok != token.CONST {
			continue
		}
		for _, s := range gd.Specs {
			vs := s.(*ast.ValueSpec)
			for i, n := range vs.Names {
				if n.Name == name && i < len(vs.Values) {
					return c.str(vs.Values[i], rel+" const "+name)
				}
			}
		}
	}
	c.fail("%s: const %s not found", rel, name)
	return ""
}

func (c *cfacts) recoveryFacts() {
	const rel = "recovery.go"
	where := rel + " Recovery, the `if err := recover(); err != nil` branch"
	fd := c.funcIn(rel, "", "Recovery")
	br := c.theIf(fd, "init:err := recover()", where)
	if exprText(br.Cond) != "err != nil" {
		c.fail("%s: the condition is no longer `err != nil`", where)
	}
	wh := c.theCall(br.Body, "w.WriteHeader", 1, where)
	c.add("C15", "recoveryStatus", "the argument of `w.WriteHeader` in "+where, c.num(wh.Args[0], where+" status"))

	// if Env() == EnvTypeDev { w.Header().Set("Content-Type", "text/html") … } else { … "text/plain" … http.StatusText(500) }
	var envIf *ast.IfStmt
	ast.Inspect(br.Body, func(x ast.Node) bool {
		if is, ok := x.(*ast.IfStmt); ok && envIf == nil {
			if be, ok := is.Cond.(*ast.BinaryExpr); ok && exprText(be.X) == "Env()" {
				envIf = is
			}
		}
		return true
	})
	if envIf == nil || envIf.Else == nil {
		c.fail("%s: `if Env() == … {…} else {…}` not found", where)
		envIf = &ast.IfStmt{Cond: &ast.BadExpr{}, Body: &ast.BlockStmt{}, Else: &ast.BlockStmt{}}
	}
	envConst := exprText(c.cmp(envIf.Cond, "Env()", token.EQL, where+" environment test"))
	c.add("C15", "recoveryDetailEnvName", "the constant `Env()` is compared with (`==`) to decide for the detailed page in "+where, leanString(envConst))
	c.add("C15", "recoveryDetailEnv", "the value of that constant (flame.go const block)", c.constString("flame.go", envConst))
	dev := c.theCall(envIf.Body, "w.Header().Set", 2, where+" detail branch")
	prod := c.theCall(envIf.Else, "w.Header().Set", 2, where+" plain branch")
	c.add("C15", "recoveryHeaderKeys", "the header set in the detail branch and in the plain branch of "+where,
		[]string{c.str(dev.Args[0], where), c.str(prod.Args[0], where)})
	c.add("C15", "recoveryDetailType", "the Content-Type when `Env() == EnvTypeDev` in "+where, c.str(dev.Args[1], where))
	c.add("C15", "recoveryPlainType", "the Content-Type otherwise in "+where, c.str(prod.Args[1], where))
	st := c.theCall(envIf.Else, "http.StatusText", 1, where+" plain branch")
	code := c.num(st.Args[0], where+" plain body")
	c.add("C15", "recoveryPlainBodyStatus", "the argument of `http.StatusText` (the plain body) in "+where, code)
	c.add("C15", "recoveryPlainBody", "net/http's StatusText of that code (computed by the translator with the Go it is built with)", http.StatusText(code))
}

func (c *cfacts) returnFacts() {
	const rel = "return_handler.go"
	where := rel + " defaultReturnHandler, the `if err, ok := respVal.Interface().(error); ok && err != nil` branch"
	fd := c.funcIn(rel, "", "defaultReturnHandler")
	br := c.theIf(fd, "init:err, ok := respVal.Interface().(error)", where)
	if exprText(br.Cond) != "ok && err != nil" {
		c.fail("%s: the condition is no longer `ok && err != nil`", where)
	}
	wh := c.theCall(br.Body, "w.WriteHeader", 1, where)
	c.add("C14", "returnErrorStatus", "the argument of `w.WriteHeader` in "+where, c.num(wh.Args[0], where+" status"))
}

func (c *cfacts) writerFacts() {
	const rel = "response_writer.go"
	// the implicit status: the one constant passed to `w.WriteHeader(…)` by Write / Flush themselves or by the
	// responseWriter helpers they call (to any depth, WriteHeader itself excluded) — wherever the code puts it
	for _, m := range []struct{ method, lean string }{{"Write", "writerWriteImplicitStatus"}, {"Flush", "writerFlushImplicitStatus"}} {
		where := rel + " (*responseWriter)." + m.method
		var consts []ast.Expr
		for _, fd := range c.methodClosure(rel, "responseWriter", m.method, map[string]bool{"WriteHeader": true}) {
			for _, ce := range callsIn(fd, "w.WriteHeader") {
				if len(ce.Args) == 1 {
					consts = append(consts, ce.Args[0])
				}
			}
		}
		vals := map[int]bool{}
		for _, e := range consts {
			vals[c.num(e, where+" implicit status")] = true
		}
		if len(consts) == 0 || len(vals) != 1 {
			c.fail("%s: expected the calls `w.WriteHeader(<const>)` reachable from it to agree on one constant, found %d call(s), %d value(s)", where, len(consts), len(vals))
		}
		v := 0
		for k := range vals {
			v = k
		}
		c.add("C13", m.lean, "the constant passed to `w.WriteHeader` by "+where+" (or a helper it calls) when nothing was written yet", v)
	}
	// the method whose responses carry no body: the one constant the writer's method is compared with anywhere in the file
	where := rel + " (the comparison of the request method with a constant)"
	var cmps []ast.Expr
	ast.Inspect(c.file(rel), func(x ast.Node) bool {
		if be, ok := x.(*ast.BinaryExpr); ok && (be.Op == token.NEQ || be.Op == token.EQL) {
			l, r := exprText(be.X), exprText(be.Y)
			if l == "w.method" || l == "method" {
				cmps = append(cmps, be.Y)
			} else if r == "w.method" || r == "method" {
				cmps = append(cmps, be.X)
			}
		}
		return true
	})
	mvals := map[string]bool{}
	for _, e := range cmps {
		mvals[c.str(e, where)] = true
	}
	if len(mvals) != 1 {
		c.fail("%s: expected exactly one constant, found %d", where, len(mvals))
	}
	bodyless := ""
	for k := range mvals {
		bodyless = k
	}
	c.add("C13", "writerBodylessMethod", "the method for which the body is NOT forwarded: the constant `w.method` / `method` is compared with in "+rel, bodyless)
	// what serialises the commit: the status is forwarded to the underlying writer (`….ResponseWriter.WriteHeader(…)`)
	// only inside a function run by `X.Do(…)`, X a field of the writer — read semantically: the forwarding call sits in
	// the func literal given to Do, or in a method that is only ever run through such a Do (given to it as a method
	// value, or called inside the literal). Code before or after the Do in WriteHeader (a fast path that returns when
	// the response is already written) does not change the answer.
	where = rel + " (*responseWriter).WriteHeader"
	guard := c.commitGuard(rel, where)
	c.add("C13", "writerCommitGuard", "the type of the field X such that the status is forwarded to the underlying writer only inside a function run by `X.Do(…)` ("+where+
		"; \"none\" if some forwarding call is not under such a Do): what makes a second, possibly concurrent, commit a no-op", leanString(guard))

	// return w.Status() != 0
	where = rel + " (*responseWriter).Written"
	fd := c.funcIn(rel, "responseWriter", "Written")
	if len(fd.Body.List) == 1 {
		if rs, ok := fd.Body.List[0].(*ast.ReturnStmt); ok && len(rs.Results) == 1 {
			c.add("C13", "writerUnwrittenStatus", "the status that means \"nothing sent\": `return w.Status() != …` in "+where,
				c.num(c.cmp(rs.Results[0], "w.Status()", token.NEQ, where), where))
			return
		}
	}
	c.fail("%s: the body is no longer a single `return w.Status() != 0`", where)
}

func (c *cfacts) contextFacts() {
	const rel = "context.go"
	for _, m := range []struct{ method, lean, fun string }{
		{"ParamInt64", "paramInt64", "strconv.ParseInt"},
		{"QueryInt", "queryInt", "strconv.ParseInt"},
		{"QueryInt64", "queryInt64", "strconv.ParseInt"},
	} {
		where := rel + " (*context)." + m.method
		call := c.theCall(c.funcIn(rel, "context", m.method), m.fun, 3, where)
		c.add("C18", m.lean+"Base", "the base (second argument) of `"+m.fun+"` in "+where, c.num(call.Args[1], where+" base"))
		c.add("C18", m.lean+"BitSize", "the bit size (third argument) of `"+m.fun+"` in "+where, c.num(call.Args[2], where+" bit size"))
	}
	where := rel + " (*context).QueryFloat64"
	call := c.theCall(c.funcIn(rel, "context", "QueryFloat64"), "strconv.ParseFloat", 2, where)
	c.add("C18", "queryFloat64BitSize", "the bit size (second argument) of `strconv.ParseFloat` in "+where, c.num(call.Args[1], where))
	// the parsers the remaining typed accessors call, as names
	for _, m := range []struct{ method, lean, fun string }{
		{"ParamInt", "paramIntParser", "strconv.Atoi"},
		{"QueryBool", "queryBoolParser", "strconv.ParseBool"},
	} {
		where := rel + " (*context)." + m.method
		c.theCall(c.funcIn(rel, "context", m.method), m.fun, 1, where)
		c.add("C18", m.lean, "the strconv function called in "+where, leanString(m.fun))
	}
	where = rel + " (*context).SetCookie"
	call = c.theCall(c.funcIn(rel, "context", "SetCookie"), ".Header().Add", 2, where)
	c.add("C18", "setCookieHeaderName", "the first argument of `Header().Add` in "+where, c.str(call.Args[0], where))
}

// fieldType: the declared type (as written) of the struct field selected by an expression like `w.writeHeaderOnce`
func (c *cfacts) fieldType(rel, structName, selText, where string) string {
	name := selText
	if i := strings.LastIndex(selText, "."); i >= 0 {
		name = selText[i+1:]
	}
	for _, d := range c.file(rel).Decls {
		gd, ok := d.(*ast.GenDecl)
		if !ok || gd.Tok != token.TYPE {
			continue
		}
		for _, sp := range gd.Specs {
			ts := sp.(*ast.TypeSpec)
			st, ok := ts.Type.(*ast.StructType)
			if !ok || ts.Name.Name != structName {
				continue
			}
			for _, f := range st.Fields.List {
				for _, n := range f.Names {
					if n.Name == name {
						return exprText(f.Type)
					}
				}
			}
		}
	}
	c.fail("%s: field %s of %s not found", where, name, structName)
	return "none"
}

// commitGuard: see the comment at its use. Returns the type of the guarding field, "none" when a forwarding call is
// reachable without passing a Do, or when there is no forwarding call at all.
func (c *cfacts) commitGuard(rel, where string) string {
	file := c.file(rel)
	// every `<recv>.ResponseWriter.WriteHeader(…)` with the function declaration and the chain of nodes around it
	type site struct {
		fn    *ast.FuncDecl
		stack []ast.Node
	}
	var sites []site
	for _, d := range file.Decls {
		fd, ok := d.(*ast.FuncDecl)
		if !ok || fd.Body == nil {
			continue
		}
		var stack []ast.Node
		ast.Inspect(fd.Body, func(n ast.Node) bool {
			if n == nil {
				stack = stack[:len(stack)-1]
				return true
			}
			stack = append(stack, n)
			if ce, ok := n.(*ast.CallExpr); ok {
				if sel, ok := ce.Fun.(*ast.SelectorExpr); ok && sel.Sel.Name == "WriteHeader" && strings.HasSuffix(exprText(sel.X), ".ResponseWriter") {
					sites = append(sites, site{fd, append([]ast.Node(nil), stack...)})
				}
			}
			return true
		})
	}
	if len(sites) == 0 {
		return "none"
	}
	// the Do call whose func literal encloses the innermost literal of a stack, if any
	doAround := func(stack []ast.Node) string {
		for i := len(stack) - 1; i > 0; i-- {
			if _, isLit := stack[i].(*ast.FuncLit); !isLit {
				continue
			}
			if ce, ok := stack[i-1].(*ast.CallExpr); ok && len(ce.Args) == 1 && ce.Args[0] == stack[i] {
				if sel, ok := ce.Fun.(*ast.SelectorExpr); ok && sel.Sel.Name == "Do" {
					return exprText(sel.X)
				}
			}
			return "" // inside some other literal: not a Do
		}
		return ""
	}
	// how a method of the writer is used in the file: always under a Do (as its argument or inside its literal)?
	var guardOfMethod func(name string, depth int) string
	guardOfMethod = func(name string, depth int) string {
		if depth > 3 {
			return ""
		}
		res := ""
		uses := 0
		okAll := true
		for _, d := range file.Decls {
			fd, ok := d.(*ast.FuncDecl)
			if !ok || fd.Body == nil {
				continue
			}
			var stack []ast.Node
			ast.Inspect(fd.Body, func(n ast.Node) bool {
				if n == nil {
					stack = stack[:len(stack)-1]
					return true
				}
				stack = append(stack, n)
				sel, ok := n.(*ast.SelectorExpr)
				if !ok || sel.Sel.Name != name || len(stack) < 2 {
					return true
				}
				uses++
				parent := stack[len(stack)-2]
				g := ""
				if ce, ok := parent.(*ast.CallExpr); ok {
					if ce.Fun == ast.Expr(sel) {
						// a call of the method: under a Do literal here, or in a method that is itself always guarded
						g = doAround(stack)
						if g == "" && fd.Name.Name != "WriteHeader" {
							g = guardOfMethod(fd.Name.Name, depth+1)
						}
					} else if len(ce.Args) == 1 && ce.Args[0] == ast.Expr(sel) {
						if s2, ok := ce.Fun.(*ast.SelectorExpr); ok && s2.Sel.Name == "Do" {
							g = exprText(s2.X) // X.Do(w.method)
						}
					}
				}
				if g == "" || (res != "" && g != res) {
					okAll = false
				}
				res = g
				return true
			})
		}
		if uses == 0 || !okAll {
			return ""
		}
		return res
	}
	guardExpr := ""
	for _, st := range sites {
		g := doAround(st.stack)
		if g == "" && st.fn.Name.Name != "WriteHeader" {
			g = guardOfMethod(st.fn.Name.Name, 0)
		}
		if g == "" || (guardExpr != "" && g != guardExpr) {
			return "none"
		}
		guardExpr = g
	}
	return c.fieldType(rel, "responseWriter", guardExpr, where)
}
