package main

// ConstFacts, part 6: (*baseLeaf).URLPath, tree.go, and the Lean output.

import (
	"encoding/json"
	"fmt"
	"go/ast"
	"os"
	"path/filepath"
	"regexp"
	"strings"
)

func (c *cfacts) urlPathFacts() {
	const rel = "internal/route/leaf.go"
	where := rel + " (*baseLeaf).URLPath"
	fd := c.funcIn(rel, "baseLeaf", "URLPath")
	segs := c.rangeOver(fd, "l.route.Segments", where)
	if tw := topWrites(segs.Body); len(tw) == 1 {
		c.add("C12", "urlSegmentLead", "the literal written at the start of every segment in "+where, c.str(tw[0], where))
	} else {
		c.fail("%s: expected exactly one buf.WriteString directly in the segment loop, found %d", where, len(tw))
	}
	elems := c.rangeOver(segs, "s.Elements", where)
	open, close := c.bracket(c.theIf(elems, "e.BindIdent != nil", where).Body, "*e.BindIdent", where+" bind element")
	c.add("C12", "urlBindOpen", "the literal written before `*e.BindIdent` in "+where, open)
	c.add("C12", "urlBindClose", "the literal written after `*e.BindIdent` in "+where, close)
	em := c.theIf(elems, "e.BindParameters == nil || len(e.BindParameters.Parameters) == 0", where)
	if ws := writes(em.Body); len(ws) == 1 {
		c.add("C12", "urlEmptyElement", "what an empty element is written as in "+where, c.str(ws[0], where))
	} else {
		c.fail("%s: the empty-element branch no longer writes exactly one literal", where)
	}
	params := c.rangeOver(elems, "e.BindParameters.Parameters", where)
	open, close = c.bracket(params.Body, "p.Ident", where+" parameter loop")
	c.add("C12", "urlParamOpen", "the literal written before `p.Ident` in "+where, open)
	c.add("C12", "urlParamClose", "the literal written after `p.Ident` in "+where, close)
	root := c.theIf(fd, "buf.Len() == 0", where)
	if ws := writes(root.Body); len(ws) == 1 {
		c.add("C12", "urlRootPath", "what an empty result becomes: `if buf.Len() == 0 { buf.WriteString(…) }` in "+where, c.str(ws[0], where))
	} else {
		c.fail("%s: the `buf.Len() == 0` branch no longer writes exactly one literal", where)
	}
	// pairs = append(pairs, "{"+k+"}", v)
	kOpen, kClose := "", ""
	ap := c.theCall(c.rangeOver(fd, "vals", where), "append", 3, where)
	if be, ok := ap.Args[1].(*ast.BinaryExpr); ok && exprText(ap.Args[0]) == "pairs" && exprText(ap.Args[2]) == "v" {
		kClose = c.str(be.Y, where+" replacer key")
		if b2, ok := be.X.(*ast.BinaryExpr); ok && exprText(b2.Y) == "k" {
			kOpen = c.str(b2.X, where+" replacer key")
		} else {
			c.fail("%s: the replacer key is no longer `\"{\" + k + \"}\"`", where)
		}
	} else {
		c.fail("%s: `pairs = append(pairs, \"{\"+k+\"}\", v)` not found", where)
	}
	c.add("C12", "urlKeyOpen", "the literal before `k` in the replacer key `append(pairs, …+k+…, v)` in "+where, kOpen)
	c.add("C12", "urlKeyClose", "the literal after `k` in that key in "+where, kClose)
}

func (c *cfacts) treeFacts() {
	const rel = "internal/route/tree.go"
	where := rel + " addLeaf"
	cs := callsIn(c.funcIn(rel, "", "addLeaf"), "strings.TrimLeft")
	var cuts []string
	for _, ce := range cs {
		if len(ce.Args) == 2 {
			cuts = append(cuts, c.str(ce.Args[1], where))
		}
	}
	if len(cuts) != 2 {
		c.fail("%s: expected the two `strings.TrimLeft(….String(), \"/?\")` of the duplicate test, found %d", where, len(cuts))
	}
	c.add("C08", "treeDuplicateTrimCutsets", "the cutsets of the two `strings.TrimLeft(….String(), …)` compared by the duplicate-route test in "+where, cuts)

	where = rel + " (*baseTree).Match"
	tl := c.theCall(c.funcIn(rel, "baseTree", "Match"), "strings.TrimLeft", 2, where)
	if exprText(tl.Args[0]) != "path" {
		c.fail("%s: strings.TrimLeft no longer trims `path`", where)
	}
	c.add("C02", "treeMatchTrimCutset", "the cutset of `path = strings.TrimLeft(path, …)` in "+where, c.str(tl.Args[1], where))

	where = rel + " (*baseTree).matchNextSegment"
	ix := c.theCall(c.funcIn(rel, "baseTree", "matchNextSegment"), "strings.Index", 2, where)
	c.add("C02", "treeSegmentSeparator", "the separator of `strings.Index(path[next:], …)` in "+where, c.str(ix.Args[1], where))

	where = rel + " (*matchAllTree).matchAll"
	fd := c.funcIn(rel, "matchAllTree", "matchAll")
	ix = c.theCall(fd, "strings.Index", 2, where)
	c.add("C02", "treeMatchAllSeparator", "the separator of `strings.Index(path[next:], …)` in "+where, c.str(ix.Args[1], where))
	c.add("C02", "treeMatchAllJoin", "the literal of `segment += … + path[next:next+i]` in "+where,
		c.str(c.lhsOfPlus(c.assignedIn(fd, "segment", where), "path[next : next+i]", where), where))
}

// lhsOfPlus: `<lit> + <r>` → the literal expression
func (c *cfacts) lhsOfPlus(e ast.Expr, r, where string) ast.Expr {
	if be, ok := e.(*ast.BinaryExpr); ok && exprText(be.Y) == r {
		return be.X
	}
	c.fail("%s: expected `\"…\" + %s`, found %q", where, r, exprText(e))
	return &ast.BadExpr{}
}

func leanBytesList(ss []string) string {
	parts := make([]string, len(ss))
	for i, s := range ss {
		parts[i] = leanBytes(s)
	}
	return "[" + strings.Join(parts, ", ") + "]"
}

func emitConstFacts(repo string) (string, error) {
	c := &cfacts{repo: repo, files: map[string]*ast.File{}}
	// every group of facts on its own: an extraction that trips over restructured code (a placeholder node of a
	// missing anchor reaching an AST walk) loses its own facts only — they keep their documented values
	for _, g := range []struct {
		name string
		f    func()
	}{{"render", c.renderFacts}, {"static", c.staticFacts}, {"recovery", c.recoveryFacts}, {"return", c.returnFacts},
		{"writer", c.writerFacts}, {"context", c.contextFacts}, {"router", c.routerFacts}, {"leaf", c.leafFacts},
		{"urlPath", c.urlPathFacts}, {"tree", c.treeFacts}} {
		func() {
			defer func() {
				if r := recover(); r != nil {
					c.fail("%s facts: the extraction gave up (%v)", g.name, r)
				}
			}()
			g.f()
		}()
		// what failed without a fact being added belongs to facts of THIS group that were never added (they are
		// found below by comparing with the documented snapshot), not to the next group's first fact
		c.pending = nil
	}
	// where every constant was read (for lib/constmut.py)
	if p := os.Getenv("VERIF_FACT_SITES"); p != "" {
		if raw, err := json.MarshalIndent(c.siteOf, "", " "); err == nil {
			_ = os.WriteFile(p, raw, 0o644)
		}
	}
	// the documented text of every constant (fallback for the ones whose anchor is gone)
	documented := map[string]string{}
	var docOrder []string
	if documentedDir != "" {
		if raw, err := os.ReadFile(filepath.Join(documentedDir, "ConstFacts.lean")); err == nil {
			for _, blk := range strings.Split(string(raw), "\n\n/-- ")[1:] {
				blk = "/-- " + strings.TrimSuffix(strings.TrimSpace(strings.Split(blk, "\nend Flamego.Gen")[0]), "\n")
				if m := regexp.MustCompile(`(?m)^def (\w+) :`).FindStringSubmatch(blk); m != nil {
					documented[m[1]] = blk
					docOrder = append(docOrder, m[1])
				}
			}
		}
	}
	if len(c.errs) > 0 && len(documented) == 0 {
		return "", fmt.Errorf("%d anchor(s) missing (and no documented snapshot to fall back on):\n  %s", len(c.errs), strings.Join(c.errs, "\n  "))
	}
	// failures that no added fact accounts for belong to facts that were never added
	trailing := strings.Join(c.errs, "; ")
	var b strings.Builder
	b.WriteString("-- Constants read from the Go source by translator/constfacts*.go (one per literal site).\n")
	b.WriteString("-- Strings are byte lists (`List UInt8`); the text is repeated in the comment for the reader.\n")
	b.WriteString("namespace Flamego.Gen\n")
	seen := map[string]bool{}
	for _, f := range c.list {
		if seen[f.name] {
			return "", fmt.Errorf("internal: fact %s emitted twice", f.name)
		}
		seen[f.name] = true
		typ, val, shown := "", "", ""
		switch v := f.val.(type) {
		case string:
			typ, val, shown = "List UInt8", leanBytes(v), fmt.Sprintf(" = %q", v)
		case leanString:
			typ, val = "String", leanStr(string(v))
		case int:
			typ, val = "Nat", fmt.Sprintf("%d", v)
		case bool:
			typ, val = "Bool", fmt.Sprintf("%v", v)
		case []string:
			typ, val, shown = "List (List UInt8)", leanBytesList(v), fmt.Sprintf(" = %q", v)
		case [][2]string:
			ps := make([]string, len(v))
			for i, p := range v {
				ps[i] = "(" + leanStr(p[0]) + ", " + leanStr(p[1]) + ")"
			}
			typ, val = "List (String × String)", "["+strings.Join(ps, ", ")+"]"
		default:
			return "", fmt.Errorf("internal: fact %s has an unsupported type", f.name)
		}
		shown = strings.ReplaceAll(strings.ReplaceAll(shown, "-/", "- /"), "/-", "/ -")
		if why, isBad := c.bad[f.name]; isBad {
			why = strings.ReplaceAll(strings.ReplaceAll(why, "-/", "- /"), "/-", "/ -")
			unregeneratedFacts = append(unregeneratedFacts, unregenerated{"ConstFacts", f.name, f.group, why})
			if doc, ok := documented[f.name]; ok && !structuralFacts[f.name] {
				fmt.Fprintf(&b, "\n-- NOT REGENERATED (documented value kept): %s\n%s\n", why, doc)
				continue
			}
			if typ == "String" {
				val = leanStr("unknown: anchor not found")
			}
			fmt.Fprintf(&b, "\n-- NOT REGENERATED and no fallback: %s", why)
		}
		fmt.Fprintf(&b, "\n/-- [%s] %s%s -/\ndef %s : %s := %s\n", f.group, f.site, shown, f.name, typ, val)
	}
	// constants of the documented snapshot that were never added (their extraction gave up before `add`)
	for _, n := range docOrder {
		if seen[n] {
			continue
		}
		why := trailing
		if why == "" {
			why = strings.Join(c.errs, "; ")
		}
		why = strings.ReplaceAll(strings.ReplaceAll(why, "-/", "- /"), "/-", "/ -")
		grp := ""
		if m := regexp.MustCompile(`^/-- \[(\w+)\]`).FindStringSubmatch(documented[n]); m != nil {
			grp = m[1]
		}
		unregeneratedFacts = append(unregeneratedFacts, unregenerated{"ConstFacts", n, grp, "not extracted: " + why})
		if structuralFacts[n] {
			fmt.Fprintf(&b, "\n-- NOT REGENERATED and no fallback: %s\n/-- [%s] anchor not found -/\ndef %s : String := %s\n", why, grp, n, leanStr("unknown: anchor not found"))
			continue
		}
		fmt.Fprintf(&b, "\n-- NOT REGENERATED (documented value kept): %s\n%s\n", why, documented[n])
	}
	b.WriteString("\nend Flamego.Gen\n")
	return b.String(), nil
}
