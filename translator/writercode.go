package main

// writercode.go — Gen/WriterCode.lean: response_writer.go's `responseWriter`, translated method by method (gocode.go).

func init() { emitters["WriterCode"] = emitWriterCode }

func emitWriterCode(repo string) (string, error) {
	return translateType(repo, codeCfg{
		pkg:       ".",
		recvType:  "responseWriter",
		namespace: "Flamego.Gen.WriterCode",
		imports:   []string{"Flamego.Code.GoSem"},
		prelude: `/-- calling a ` + "`BeforeFunc`" + ` with the writer: a hook is an observer of the writer (it may set headers); that it ran, and when,
is recorded in the trace of the wrapped http.ResponseWriter (Model/Writer makes the same assumption) -/
def call_BeforeFunc (f : FuncVal) (w : responseWriter) : responseWriter :=
  { w with ResponseWriter := w.ResponseWriter.record ("hook", [Arg.int f]) }
`,
		skip:      map[string]string{},
		callFuncs: map[string]bool{"BeforeFunc": true},
		// a field of a type outside the subset (a timestamp, a counter object …) is kept as `Opaque`: the methods that do not
		// touch it stay translated
		opaqueFields: true,
		ctors:        []string{"NewResponseWriter"},
	})
}
