package main

// ConcFacts (property C05): the write footprint of request serving.
//
// What is computed.  The module's packages are loaded with go/packages (no build tag, no tests),
// SSA is built for them (dependencies stay body-less: the standard library and third-party code
// are opaque, calls into them are *noted*), and an inclusion-based flow analysis ("which objects
// can this value denote") is run over the module's SSA in TWO PHASES:
//
//	phase SETUP: every exported function/method of the module's public packages and every package
//	             initialiser.  Application-supplied arguments are one opaque object EXT; framework
//	             objects (*Flame, *Route, *ComboRoute, the Handlers returned by Logger()/Recovery()/
//	             Static()/Renderer()) come back from a pool of whatever the API returned earlier.
//	phase SERVE: (*Flame).ServeHTTP, receiver = the Flame objects built in SETUP, (w, r) = one
//	             opaque request-scoped object EXTREQ (net/http's Handler contract: each call gets
//	             its own ResponseWriter and *Request; what is loaded from them is EXTREQ again).
//
// Every function body is analysed separately per phase (parameters, locals and the allocation
// sites inside it are cloned per phase; one-block constructors such as inject.New additionally per
// caller), heap cells are shared.  An abstract object is therefore (allocation site, phase in which
// the allocating code ran).  Calls are resolved on the fly from the flow facts (interface calls by
// the dynamic types that actually arrive, func values by the closures that actually arrive);
// reflect.ValueOf / Value.Interface / Value.Call are transparent so that the injector's type map
// does not lose the flow.  Whatever is passed to code that is not analysed (library or application
// handler) is "handed out": its exported methods and, for closures, the closure itself are assumed
// to be called back in the same phase (this is how "a handler may call any Context method" and the
// closure under sync.Once.Do are covered).  Results of such calls are opaque: EXT in SETUP,
// EXTSERVE in SERVE.
//
// A write (SSA Store, MapUpdate, append/copy/delete/clear, sync/atomic store-like call) executed by
// a SERVE-phase body is REQUEST-LOCAL iff every object it may write was allocated by SERVE-phase
// code (or is EXTREQ) and is not reachable from any shared object; otherwise (allocated in SETUP, a
// global, EXT/EXTSERVE, or nothing known about it) it is SHARED.  The induction behind this: an
// object allocated while serving request r can be seen by another request only through a shared
// location, and putting it there is itself a shared write that is listed.  Stores to non-escaping
// local variables (SSA Alloc with Heap=false) are not state and are skipped.
//
// CHA is computed as a cross-check only (functions CHA reaches from ServeHTTP that the flow
// analysis prunes, and the functions only the flow analysis reaches through reflection, are
// printed on stderr together with the human-readable table).
//
// Debugging: CONCFACTS_DEBUG=1 (why each body is reached), CONCFACTS_DUMP=<name suffixes> (flow facts).

import (
	"fmt"
	"go/types"
	"strings"

	"golang.org/x/tools/go/ssa"
)

func init() { emitters["ConcFacts"] = emitConcFacts }

const (
	phSetup = 0
	phServe = 1
)

const (
	kAlloc = iota
	kClosure
	kFunc
	kGlobal
	kExt    // opaque, shared: application-supplied values, results of library calls
	kExtReq // opaque, request-scoped: the (w, r) net/http passes to ServeHTTP and what is loaded from them
)

type object struct {
	id    int
	kind  int
	ph    int
	typ   types.Type // allocated type (pointee), or signature
	fn    *ssa.Function
	stack bool // non-escaping local variable
	label string
	// cells and struct-copy bookkeeping
	paths    []string
	pcopies  []pcopy
	extfills []extfill
	extNode  *nd
}

type pcopy struct {
	srcPath string
	dst     loc
}
type extfill struct {
	dstPath string
	ext     *object
}

// loc: a location inside an object; tag = dynamic type when carried by an interface value
type loc struct {
	o    *object
	path string
	tag  string
}

type nd struct {
	set   map[loc]struct{}
	list  []loc
	watch []func(loc)
	edges map[*nd]bool // plain copy edges already installed
	isExt bool         // the single cell of an opaque object
}

type vkey struct {
	v   ssa.Value
	ph  int
	idx int
}
type ckey struct {
	o    *object
	path string
}
type ikey struct {
	fn *ssa.Function
	ph int
}
type rkey struct {
	fn  *ssa.Function
	ph  int
	idx int
}
type okey struct {
	site interface{}
	ph   int
	sub  string
}

type workItem struct {
	n *nd
	l loc
}

type writeRec struct {
	instr  ssa.Instruction
	fn     *ssa.Function
	kind   string
	addr   *nd
	target string
}

type extCallRec struct {
	callee string
	fn     *ssa.Function
	args   []*nd
}

type onceInfo struct {
	addr *nd // the *sync.Once
	name string
}

type an struct {
	prog     *ssa.Program
	modPath  string
	vals     map[vkey]*nd
	cells    map[ckey]*nd
	rets     map[rkey]*nd
	insts    map[ikey]bool
	objs     map[okey]*object
	allObjs  []*object
	tagTypes map[string]types.Type
	work     []workItem
	ext      *object // opaque, shared: supplied by the application / made by a library during set-up
	extServe *object // opaque: made by a library or by application code while serving (provenance unknown: shared for writes)
	extReq   *object
	pool     *nd
	done     map[string]bool // generic dedupe
	writes   []writeRec
	extCalls []extCallRec
	once     map[*ssa.Function][]onceInfo
	// who calls a function (nil = a root of the analysis): a function that is only ever called from functions running
	// under one sync.Once (a helper split out of the Do closure, the method behind a method value given to Do) runs under it
	callersOf map[*ssa.Function]map[*ssa.Function]bool
	edgesCG   map[[2]string]bool
	handed    map[string]bool
	curWhy    string
	ctxIds    map[string]int
	ctxNames  []string
}

func newAn(prog *ssa.Program, modPath string) *an {
	a := &an{prog: prog, modPath: modPath, vals: map[vkey]*nd{}, cells: map[ckey]*nd{}, rets: map[rkey]*nd{},
		insts: map[ikey]bool{}, objs: map[okey]*object{}, tagTypes: map[string]types.Type{}, done: map[string]bool{},
		once: map[*ssa.Function][]onceInfo{}, callersOf: map[*ssa.Function]map[*ssa.Function]bool{}, ctxIds: map[string]int{}, edgesCG: map[[2]string]bool{}, handed: map[string]bool{}}
	a.ext = a.newObj(okey{"EXT", -1, ""}, kExt, -1, nil, "EXT (application-supplied or library-made during set-up, shared)")
	a.extReq = a.newObj(okey{"EXTREQ", -1, ""}, kExtReq, phServe, nil, "EXTREQ (the request's own http.ResponseWriter/*http.Request, net/http Handler contract)")
	a.extServe = a.newObj(okey{"EXTSERVE", -1, ""}, kExt, -1, nil, "EXTSERVE (result of a library/application call made while serving; provenance unknown)")
	for _, o := range []*object{a.ext, a.extReq, a.extServe} {
		o.extNode = newNd()
		o.extNode.isExt = true
		a.add(o.extNode, loc{o: o})
	}
	a.pool = newNd()
	return a
}

func newNd() *nd { return &nd{set: map[loc]struct{}{}, edges: map[*nd]bool{}} }

func (a *an) newObj(k okey, kind, ph int, typ types.Type, label string) *object {
	if o, ok := a.objs[k]; ok {
		return o
	}
	if ph > 0 {
		ph = ph & 1
	}
	o := &object{id: len(a.allObjs), kind: kind, ph: ph, typ: typ, label: label}
	a.objs[k] = o
	a.allObjs = append(a.allObjs, o)
	return o
}

// A phase value also carries a calling context for small constructor functions (inject.New,
// NewResponseWriter …): ph = phase + 2*contextId, so that "the injector made for the application" and
// "the injector made for one request" are different abstract objects although they share the `new`.
func isServe(ph int) bool { return ph >= 0 && ph&1 == 1 }

func (a *an) ctxPhase(ph int, caller *ssa.Function) int {
	name := fnName(caller)
	id, ok := a.ctxIds[name]
	if !ok {
		id = len(a.ctxIds) + 1
		a.ctxIds[name] = id
		a.ctxNames = append(a.ctxNames, name)
	}
	return ph&1 + 2*id
}

func (a *an) ctxLabel(ph int) string {
	s := "setup"
	if isServe(ph) {
		s = "serve"
	}
	if ph >= 2 {
		s += ", called from " + a.ctxNames[ph/2-1]
	}
	return s
}

// isCtor: a one-block function that allocates and calls nothing (a constructor): analysed once per caller
func isCtor(f *ssa.Function) bool {
	if len(f.Blocks) != 1 || f.Parent() != nil || len(f.FreeVars) > 0 {
		return false
	}
	allocs := false
	for _, in := range f.Blocks[0].Instrs {
		switch x := in.(type) {
		case *ssa.Alloc:
			if x.Heap {
				allocs = true
			}
		case *ssa.MakeMap, *ssa.MakeSlice:
			allocs = true
		case *ssa.Call:
			if _, ok := x.Call.Value.(*ssa.Builtin); !ok {
				return false
			}
		case *ssa.Go, *ssa.Defer:
			return false
		}
	}
	return allocs
}

func (a *an) extFor(ph int) *object {
	if isServe(ph) {
		return a.extServe
	}
	return a.ext
}

func isExt(o *object) bool { return o.kind == kExt || o.kind == kExtReq }

// ---------------------------------------------------------------------------- solver core

func (a *an) add(n *nd, l loc) {
	if isExt(l.o) {
		l.path = ""
	}
	if n.isExt && len(n.list) > 0 {
		return // what is stored into application/library memory does not come back as a known object (it is handed out instead)
	}
	if _, ok := n.set[l]; ok {
		return
	}
	n.set[l] = struct{}{}
	n.list = append(n.list, l)
	a.work = append(a.work, workItem{n, l})
}

// watchNd calls f for every location that is or will be in n.
func (a *an) watchNd(n *nd, f func(loc)) {
	n.watch = append(n.watch, f)
	for i := 0; i < len(n.list); i++ {
		f(n.list[i])
	}
}

func (a *an) copyEdge(from, to *nd) {
	if from == to || from.edges[to] {
		return
	}
	from.edges[to] = true
	a.watchNd(from, func(l loc) { a.add(to, l) })
}

func (a *an) mapEdge(from, to *nd, f func(loc) (loc, bool)) {
	a.watchNd(from, func(l loc) {
		if m, ok := f(l); ok {
			a.add(to, m)
		}
	})
}

func (a *an) solve() {
	for len(a.work) > 0 {
		it := a.work[len(a.work)-1]
		a.work = a.work[:len(a.work)-1]
		for i := 0; i < len(it.n.watch); i++ {
			it.n.watch[i](it.l)
		}
	}
}

func compBoundary(rest string) bool {
	return rest == "" || rest[0] == '.' || rest[0] == '[' || rest[0] == '$'
}

func (a *an) cell(o *object, path string) *nd {
	if isExt(o) {
		return o.extNode
	}
	k := ckey{o, path}
	if n, ok := a.cells[k]; ok {
		return n
	}
	n := newNd()
	a.cells[k] = n
	o.paths = append(o.paths, path)
	for i := 0; i < len(o.pcopies); i++ {
		pc := o.pcopies[i]
		if strings.HasPrefix(path, pc.srcPath) && compBoundary(path[len(pc.srcPath):]) {
			a.copyEdge(n, a.cell(pc.dst.o, pc.dst.path+path[len(pc.srcPath):]))
		}
	}
	for i := 0; i < len(o.extfills); i++ {
		ef := o.extfills[i]
		if strings.HasPrefix(path, ef.dstPath) && compBoundary(path[len(ef.dstPath):]) {
			a.add(n, loc{o: ef.ext})
		}
	}
	return n
}

func (a *an) cellOf(l loc) *nd { return a.cell(l.o, l.path) }

// prefixCopy: the struct/array value stored at src is copied to dst (all current and future cells below src).
func (a *an) prefixCopy(src, dst loc) {
	if src.o == dst.o && src.path == dst.path {
		return
	}
	key := fmt.Sprintf("pc %d %s %d %s", src.o.id, src.path, dst.o.id, dst.path)
	if a.done[key] {
		return
	}
	a.done[key] = true
	if isExt(src.o) {
		if isExt(dst.o) {
			a.add(dst.o.extNode, loc{o: src.o})
			return
		}
		dst.o.extfills = append(dst.o.extfills, extfill{dst.path, src.o})
		for i := 0; i < len(dst.o.paths); i++ {
			q := dst.o.paths[i]
			if strings.HasPrefix(q, dst.path) && compBoundary(q[len(dst.path):]) {
				a.add(a.cell(dst.o, q), loc{o: src.o})
			}
		}
		return
	}
	src.o.pcopies = append(src.o.pcopies, pcopy{src.path, loc{o: dst.o, path: dst.path}})
	for i := 0; i < len(src.o.paths); i++ {
		q := src.o.paths[i]
		if strings.HasPrefix(q, src.path) && compBoundary(q[len(src.path):]) {
			a.copyEdge(a.cell(src.o, q), a.cell(dst.o, dst.path+q[len(src.path):]))
		}
	}
}

func sub(l loc, comp string) loc {
	if isExt(l.o) {
		return loc{o: l.o}
	}
	return loc{o: l.o, path: l.path + comp}
}

// ---------------------------------------------------------------------------- types

func isReflectValue(t types.Type) bool {
	n, ok := t.(*types.Named)
	return ok && n.Obj().Pkg() != nil && n.Obj().Pkg().Path() == "reflect" && n.Obj().Name() == "Value"
}

func pointerLike(t types.Type) bool {
	if isReflectValue(t) {
		return true
	}
	switch u := t.Underlying().(type) {
	case *types.Pointer, *types.Map, *types.Slice, *types.Chan, *types.Signature, *types.Interface:
		return true
	case *types.Basic:
		return u.Kind() == types.UnsafePointer
	}
	return false
}

func structLike(t types.Type) bool {
	if isReflectValue(t) {
		return false
	}
	switch t.Underlying().(type) {
	case *types.Struct, *types.Array:
		return true
	}
	return false
}

func tracked(t types.Type) bool { return pointerLike(t) || structLike(t) }

func deref(t types.Type) types.Type {
	if p, ok := t.Underlying().(*types.Pointer); ok {
		return p.Elem()
	}
	return t
}

func (a *an) tagOf(t types.Type) string {
	s := types.TypeString(t, nil)
	a.tagTypes[s] = t
	return s
}

func namedOf(t types.Type) *types.Named {
	t = deref(t)
	n, _ := t.(*types.Named)
	return n
}

func (a *an) inModule(p *types.Package) bool {
	return p != nil && (p.Path() == a.modPath || strings.HasPrefix(p.Path(), a.modPath+"/"))
}

func (a *an) moduleType(t types.Type) bool {
	n := namedOf(t)
	return n != nil && a.inModule(n.Obj().Pkg())
}

// dynType of a location used as a method receiver
func (a *an) dynType(l loc) types.Type {
	if l.tag != "" {
		return a.tagTypes[l.tag]
	}
	if l.o.kind == kAlloc && l.path == "" && l.o.typ != nil {
		return types.NewPointer(l.o.typ)
	}
	return nil
}

func shortType(t types.Type) string {
	return types.TypeString(t, func(p *types.Package) string { return p.Name() })
}

func fieldName(t types.Type, i int) string {
	if st, ok := deref(t).Underlying().(*types.Struct); ok && i < st.NumFields() {
		return st.Field(i).Name()
	}
	return fmt.Sprintf("f%d", i)
}
