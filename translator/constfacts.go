package main

// ConstFacts: the literals and small decision tables of the Go source that the hand-written
// Lean models would otherwise copy by hand — Content-Type strings, default option values,
// status codes, reserved parameter names, regex fragments, strconv bases and bit sizes.
//
// Every fact is located by its ENCLOSING FUNCTION and its SYNTACTIC ROLE (for instance "the
// second argument of the one `…Header().Set(k, v)` call inside (*render).JSON", "the fourth
// argument of `http.Redirect` inside Static", "the argument of `w.WriteHeader` in the
// `if err := recover(); err != nil` branch of Recovery"), never by line number. Selector
// constants `http.StatusXxx` / `http.MethodXxx` are resolved to their values. A site that can
// no longer be found that way (the code around the literal was restructured) does not stop the run:
// the constant is emitted with its DOCUMENTED text, marked `NOT REGENERATED` in its comment and listed
// in report.json; the check records it in the evidence, and the correspondence — which exercises every
// behavioural constant — is then the only tie for it. Structural facts (`structuralFacts`: no behaviour a
// sequential session could show) have no such fallback: they are emitted as "unknown" and break the
// obligation of the property they serve.
//
// Files: constfacts.go (this: fact list, AST helpers), constfacts_tables.go (constant
// resolution), constfacts_web.go (render, static,
// recovery, return handler, response writer, context), constfacts_route.go (router.go,
// internal/route/leaf.go, tree.go), constfacts_emit.go (Lean output).

import (
	"bytes"
	"fmt"
	"go/ast"
	"go/parser"
	"go/printer"
	"go/token"
	"path/filepath"
	"strings"
)

func init() { emitters["ConstFacts"] = emitConstFacts }

// one generated definition
type cfact struct {
	group string      // the property the fact serves (comment only)
	name  string      // Lean name inside Flamego.Gen
	site  string      // where it was read (doc comment)
	val   interface{} // string (→ Bytes) | leanString | int | bool | []string (→ List Bytes) | [][2]string
}

// a value emitted as a Lean `String` rather than as bytes (identifiers, operators)
type leanString string

// collector: facts in order of discovery, errors accumulated so that one run reports every
// missing anchor
type cfacts struct {
	repo  string
	files map[string]*ast.File
	list  []cfact
	errs  []string
	// one FileSet for every parsed file, so that a node's position names its file
	fset *token.FileSet
	// literal expressions resolved (str / num) since the last fact was added: where that fact lives in the source
	sites []factSite
	// fact name → the sites it was read from (for the constant-mutation self-test, lib/constmut.py)
	siteOf map[string][]factSite
	// anchors that failed since the last fact was added: the next fact added depends on them
	pending []string
	// fact name → why it could not be read
	bad map[string]string
}

// facts with no behavioural counterpart in the sequential correspondence: no fallback
var structuralFacts = map[string]bool{"writerCommitGuard": true}

func (c *cfacts) fail(format string, a ...interface{}) {
	msg := fmt.Sprintf(format, a...)
	c.errs = append(c.errs, msg)
	c.pending = append(c.pending, msg)
}

// where a constant was read: byte offsets of the literal expression in its file
type factSite struct {
	File  string `json:"file"`
	Start int    `json:"start"`
	End   int    `json:"end"`
	Kind  string `json:"kind"` // str | num
	Text  string `json:"text"`
}

func (c *cfacts) note(e ast.Expr, kind string) {
	if c.fset == nil || e == nil || !e.Pos().IsValid() {
		return
	}
	a, b := c.fset.Position(e.Pos()), c.fset.Position(e.End())
	rel := strings.TrimPrefix(strings.TrimPrefix(a.Filename, c.repo), "/")
	c.sites = append(c.sites, factSite{rel, a.Offset, b.Offset, kind, exprText(e)})
}

func (c *cfacts) add(group, name, site string, val interface{}) {
	if c.siteOf == nil {
		c.siteOf = map[string][]factSite{}
	}
	c.siteOf[name] = c.sites
	c.sites = nil
	if len(c.pending) > 0 {
		if c.bad == nil {
			c.bad = map[string]string{}
		}
		c.bad[name] = strings.Join(c.pending, "; ")
		c.pending = nil
	}
	c.list = append(c.list, cfact{group, name, site, val})
}

func (c *cfacts) file(rel string) *ast.File {
	if f, ok := c.files[rel]; ok {
		return f
	}
	if c.fset == nil {
		c.fset = token.NewFileSet()
	}
	f, err := parser.ParseFile(c.fset, filepath.Join(c.repo, rel), nil, parser.ParseComments)
	if err != nil {
		c.fail("%s: %v", rel, err)
		f = &ast.File{Name: ast.NewIdent("missing")}
	}
	c.files[rel] = f
	return f
}

// exprText prints a node in gofmt's canonical spelling (used to recognise a syntactic role)
func exprText(n ast.Node) string {
	if n == nil {
		return ""
	}
	var b bytes.Buffer
	if err := printer.Fprint(&b, token.NewFileSet(), n); err != nil {
		return ""
	}
	return strings.Join(strings.Fields(b.String()), " ")
}

// funcIn finds `func name(...)` (recv == "") or `func (x *recv) name(...)` / `func (x recv) name(...)`
func (c *cfacts) funcIn(rel, recv, name string) *ast.FuncDecl {
	for _, d := range c.file(rel).Decls {
		fd, ok := d.(*ast.FuncDecl)
		if !ok || fd.Name.Name != name || fd.Body == nil {
			continue
		}
		if recv == "" {
			if fd.Recv == nil {
				return fd
			}
			continue
		}
		if fd.Recv == nil || len(fd.Recv.List) != 1 {
			continue
		}
		t := fd.Recv.List[0].Type
		if st, ok := t.(*ast.StarExpr); ok {
			t = st.X
		}
		if id, ok := t.(*ast.Ident); ok && id.Name == recv {
			return fd
		}
	}
	where := name
	if recv != "" {
		where = "(" + recv + ")." + name
	}
	c.fail("%s: func %s not found", rel, where)
	return &ast.FuncDecl{Name: ast.NewIdent(name), Body: &ast.BlockStmt{}}
}

// methodClosure: the method `name` of `recv` and every method of the same receiver it calls as `w.<m>(…)` /
// `<x>.<m>(…)` on its receiver variable, transitively, except those in `stop`
func (c *cfacts) methodClosure(rel, recv, name string, stop map[string]bool) []*ast.FuncDecl {
	byName := map[string]*ast.FuncDecl{}
	for _, d := range c.file(rel).Decls {
		fd, ok := d.(*ast.FuncDecl)
		if !ok || fd.Body == nil || fd.Recv == nil || len(fd.Recv.List) != 1 {
			continue
		}
		t := fd.Recv.List[0].Type
		if st, ok := t.(*ast.StarExpr); ok {
			t = st.X
		}
		if id, ok := t.(*ast.Ident); ok && id.Name == recv {
			byName[fd.Name.Name] = fd
		}
	}
	var out []*ast.FuncDecl
	seen := map[string]bool{}
	var visit func(n string)
	visit = func(n string) {
		fd, ok := byName[n]
		if !ok || seen[n] || stop[n] {
			return
		}
		seen[n] = true
		out = append(out, fd)
		rv := ""
		if len(fd.Recv.List[0].Names) == 1 {
			rv = fd.Recv.List[0].Names[0].Name
		}
		ast.Inspect(fd.Body, func(x ast.Node) bool {
			if ce, ok := x.(*ast.CallExpr); ok {
				if sel, ok := ce.Fun.(*ast.SelectorExpr); ok {
					if id, ok := sel.X.(*ast.Ident); ok && id.Name == rv {
						visit(sel.Sel.Name)
					}
				}
			}
			return true
		})
	}
	visit(name)
	if len(out) == 0 {
		c.fail("%s: method (%s).%s not found", rel, recv, name)
	}
	return out
}

// closureIn finds `v := func(...) {...}` inside n
func (c *cfacts) closureIn(n ast.Node, v, where string) ast.Node {
	var out ast.Node
	ast.Inspect(n, func(x ast.Node) bool {
		as, ok := x.(*ast.AssignStmt)
		if ok && len(as.Lhs) == 1 && len(as.Rhs) == 1 && exprText(as.Lhs[0]) == v {
			if fl, ok := as.Rhs[0].(*ast.FuncLit); ok && out == nil {
				out = fl
			}
		}
		return true
	})
	if out == nil {
		c.fail("%s: closure %s not found", where, v)
		return &ast.BlockStmt{}
	}
	return out
}

// callsIn: every call inside n whose function expression prints as `fun`, or — when fun starts
// with "." — ends with it (`.Header().Set` matches `w.Header().Set` and `c.ResponseWriter().Header().Set`)
func callsIn(n ast.Node, fun string) []*ast.CallExpr {
	var out []*ast.CallExpr
	if n == nil {
		return out
	}
	ast.Inspect(n, func(x ast.Node) bool {
		if ce, ok := x.(*ast.CallExpr); ok {
			t := exprText(ce.Fun)
			if t == fun || (strings.HasPrefix(fun, ".") && strings.HasSuffix(t, fun)) {
				out = append(out, ce)
			}
		}
		return true
	})
	return out
}

// theCall: the single such call with at least nargs arguments
func (c *cfacts) theCall(n ast.Node, fun string, nargs int, where string) *ast.CallExpr {
	cs := callsIn(n, fun)
	if len(cs) != 1 || len(cs[0].Args) < nargs {
		c.fail("%s: expected exactly one call %s(…) with ≥%d arguments, found %d", where, fun, nargs, len(cs))
		args := make([]ast.Expr, nargs)
		for i := range args {
			args[i] = &ast.BadExpr{}
		}
		return &ast.CallExpr{Fun: ast.NewIdent("missing"), Args: args}
	}
	return cs[0]
}

// ifsIn: every `if` (also an `else if`) inside n whose condition — or, with the prefix "init:",
// whose init statement — prints as given
func ifsIn(n ast.Node, cond string) []*ast.IfStmt {
	var out []*ast.IfStmt
	if n == nil {
		return out
	}
	ast.Inspect(n, func(x ast.Node) bool {
		if is, ok := x.(*ast.IfStmt); ok {
			if strings.HasPrefix(cond, "init:") {
				if is.Init != nil && exprText(is.Init) == cond[5:] {
					out = append(out, is)
				}
			} else if exprText(is.Cond) == cond {
				out = append(out, is)
			}
		}
		return true
	})
	return out
}

func (c *cfacts) theIf(n ast.Node, cond, where string) *ast.IfStmt {
	is := ifsIn(n, cond)
	if len(is) != 1 {
		c.fail("%s: expected exactly one `if %s`, found %d", where, cond, len(is))
		return &ast.IfStmt{Cond: &ast.BadExpr{}, Body: &ast.BlockStmt{}}
	}
	return is[0]
}

// assignedIn: the right-hand side of the single `lhs = …` / `lhs := …` / `lhs += …` inside n
func (c *cfacts) assignedIn(n ast.Node, lhs, where string) ast.Expr {
	var out []ast.Expr
	ast.Inspect(n, func(x ast.Node) bool {
		if as, ok := x.(*ast.AssignStmt); ok && len(as.Lhs) == 1 && len(as.Rhs) == 1 && exprText(as.Lhs[0]) == lhs {
			out = append(out, as.Rhs[0])
		}
		return true
	})
	if len(out) != 1 {
		c.fail("%s: expected exactly one assignment to %s, found %d", where, lhs, len(out))
		return &ast.BadExpr{}
	}
	return out[0]
}
