package main

// headercode.go — Gen/HeaderCode.lean: internal/route's HeaderMatcher (NewHeaderMatcher, Match), translated (gocode.go).
// A compiled *regexp.Regexp stands for its expression; `MatchString` is the regex engine every routing model takes as a
// parameter (Base/Engine.lean: `Engine.search`), so the generated definitions are parametrised by `E : Engine` as well.

func init() { emitters["HeaderCode"] = emitHeaderCode }

func emitHeaderCode(repo string) (string, error) {
	return translateType(repo, codeCfg{
		pkg:         "./internal/route",
		recvType:    "HeaderMatcher",
		namespace:   "Flamego.Gen.HeaderCode",
		imports:     []string{"Flamego.Code.GoSem", "Flamego.Code.LibHTTP", "Flamego.Base.Engine"},
		stringBytes: true,
		types: map[string]string{
			"*regexp.Regexp":  "Lib.Regexp",
			"net/http.Header": "Lib.Header",
		},
		lib: map[string]string{
			"(net/http.Header).Get":        "Lib.Header_Get",
			"(*regexp.Regexp).MatchString": "Lib.Regexp_MatchString E",
		},
		prelude: "variable (E : Flamego.Engine)\n",
		skip:    map[string]string{},
		ctors:   []string{"NewHeaderMatcher"},
	})
}
