package main

// RouteFacts: the match-style rank order (leaf.go iota block) and the HTTP method list
// (router.go httpMethods).

import (
	"fmt"
	"go/ast"
	"go/token"
	"strings"
)

func init() { emitters["RouteFacts"] = emitRouteFacts }

func emitRouteFacts(repo string) (string, error) {
	var b strings.Builder
	b.WriteString("namespace Flamego.Gen\n\n")

	// --- match styles, in iota order -------------------------------------------------
	_, leaf, err := parseFile(repo, "internal/route/leaf.go")
	if err != nil {
		return "", err
	}
	var styles []string
	for _, d := range leaf.Decls {
		gd, ok := d.(*ast.GenDecl)
		if !ok || gd.Tok != token.CONST {
			continue
		}
		isBlock := false
		for i, s := range gd.Specs {
			vs := s.(*ast.ValueSpec)
			if i == 0 {
				if id, ok := vs.Type.(*ast.Ident); ok && id.Name == "MatchStyle" && len(vs.Values) == 1 {
					if v, ok := vs.Values[0].(*ast.Ident); ok && v.Name == "iota" {
						isBlock = true
					}
				}
			}
			if isBlock {
				if i > 0 && (vs.Type != nil || len(vs.Values) != 0) {
					return "", fmt.Errorf("MatchStyle const block is no longer a plain iota block")
				}
				for _, n := range vs.Names {
					styles = append(styles, n.Name)
				}
			}
		}
	}
	if len(styles) == 0 {
		return "", fmt.Errorf("MatchStyle iota block not found in leaf.go")
	}
	b.WriteString("/-- `const ( … MatchStyle = iota … )` of leaf.go: name ↦ numeric value -/\n")
	b.WriteString("def styleRank : List (String × Nat) := [")
	for i, s := range styles {
		if i > 0 {
			b.WriteString(", ")
		}
		fmt.Fprintf(&b, "(%s, %d)", leanStr(s), i)
	}
	b.WriteString("]\n\n")

	// --- httpMethods ---------------------------------------------------------------------
	_, router, err := parseFile(repo, "router.go")
	if err != nil {
		return "", err
	}
	methodConst := map[string]string{
		"MethodGet": "GET", "MethodPost": "POST", "MethodPut": "PUT", "MethodDelete": "DELETE",
		"MethodPatch": "PATCH", "MethodOptions": "OPTIONS", "MethodHead": "HEAD",
		"MethodConnect": "CONNECT", "MethodTrace": "TRACE",
	}
	var methods []string
	found := false
	for _, d := range router.Decls {
		gd, ok := d.(*ast.GenDecl)
		if !ok || gd.Tok != token.VAR {
			continue
		}
		for _, s := range gd.Specs {
			vs := s.(*ast.ValueSpec)
			if len(vs.Names) != 1 || vs.Names[0].Name != "httpMethods" || len(vs.Values) != 1 {
				continue
			}
			cl, ok := vs.Values[0].(*ast.CompositeLit)
			if !ok {
				return "", fmt.Errorf("httpMethods is no longer a composite literal")
			}
			found = true
			for _, e := range cl.Elts {
				switch v := e.(type) {
				case *ast.SelectorExpr:
					m, ok := methodConst[v.Sel.Name]
					if !ok {
						return "", fmt.Errorf("httpMethods: unknown constant %s", v.Sel.Name)
					}
					methods = append(methods, m)
				case *ast.BasicLit:
					methods = append(methods, strings.Trim(v.Value, "\"`"))
				default:
					return "", fmt.Errorf("httpMethods: unexpected element")
				}
			}
		}
	}
	if !found {
		return "", fmt.Errorf("httpMethods not found in router.go")
	}
	b.WriteString("/-- `var httpMethods` of router.go, in order -/\n")
	b.WriteString("def httpMethods : List String := [")
	for i, m := range methods {
		if i > 0 {
			b.WriteString(", ")
		}
		b.WriteString(leanStr(m))
	}
	b.WriteString("]\n\nend Flamego.Gen\n")
	return b.String(), nil
}
