package main

// RouteFacts: the match-style rank order (leaf.go iota block) and the HTTP method list
// (router.go httpMethods).

import (
	"fmt"
	"go/ast"
	"go/constant"
	"go/token"
	"go/types"
	"os"
	"path/filepath"
	"regexp"
	"sort"
	"strings"

	"golang.org/x/tools/go/packages"
)

func init() { emitters["RouteFacts"] = emitRouteFacts }

func emitRouteFacts(repo string) (string, error) {
	var b strings.Builder
	b.WriteString("namespace Flamego.Gen\n\n")
	// the documented text of the two facts (fallback when an anchor is gone; the correspondence is then the tie)
	documented := map[string]string{}
	if documentedDir != "" {
		if raw, err := os.ReadFile(filepath.Join(documentedDir, "RouteFacts.lean")); err == nil {
			for _, blk := range strings.Split(string(raw), "\n\n/-- ")[1:] {
				blk = "/-- " + strings.TrimSpace(strings.Split(blk, "\nend Flamego.Gen")[0])
				if m := regexp.MustCompile(`(?m)^def (\w+) :`).FindStringSubmatch(blk); m != nil {
					documented[m[1]] = blk
				}
			}
		}
	}
	fallback := func(name, group string, err error) error {
		doc, ok := documented[name]
		if !ok {
			return err
		}
		unregeneratedFacts = append(unregeneratedFacts, unregenerated{"RouteFacts", name, group, err.Error()})
		fmt.Fprintf(&b, "-- NOT REGENERATED (documented value kept): %s\n%s\n\n", err.Error(), doc)
		return nil
	}

	// --- match styles: the constants of type MatchStyle with their VALUES (go/types evaluates them, so the block may be
	// spelled with iota, with explicit numbers or with sums of earlier constants), ordered by value -----------------
	styles, err := matchStylesTyped(repo)
	if err != nil {
		styles, err = matchStylesSyntactic(repo)
	}
	if err != nil {
		if e := fallback("styleRank", "C01", err); e != nil {
			return "", e
		}
	} else {
		b.WriteString("/-- `const ( … MatchStyle = iota … )` of leaf.go: name ↦ numeric value -/\n")
		b.WriteString("def styleRank : List (String × Nat) := [")
		for i, s := range styles {
			if i > 0 {
				b.WriteString(", ")
			}
			fmt.Fprintf(&b, "(%s, %d)", leanStr(s.name), s.val)
		}
		b.WriteString("]\n\n")
	}

	// --- httpMethods ---------------------------------------------------------------------
	methods, err := httpMethodsSyntactic(repo)
	if err != nil {
		if e := fallback("httpMethods", "C11", err); e != nil {
			return "", e
		}
	} else {
		b.WriteString("/-- `var httpMethods` of router.go, in order -/\n")
		b.WriteString("def httpMethods : List String := [")
		for i, m := range methods {
			if i > 0 {
				b.WriteString(", ")
			}
			b.WriteString(leanStr(m))
		}
		b.WriteString("]\n\n")
	}
	b.WriteString("end Flamego.Gen\n")
	return b.String(), nil
}

type styleConst struct {
	name string
	val  int64
}

// matchStylesTyped: every package-level constant of the named type MatchStyle of internal/route, by value
func matchStylesTyped(repo string) ([]styleConst, error) {
	cfg := &packages.Config{
		Mode:  packages.NeedName | packages.NeedFiles | packages.NeedCompiledGoFiles | packages.NeedImports | packages.NeedTypes | packages.NeedSyntax | packages.NeedTypesInfo,
		Dir:   repo,
		Env:   append(os.Environ(), "GOFLAGS=-mod=mod", "GOPROXY=off", "GOSUMDB=off", "GOTOOLCHAIN=local", "CGO_ENABLED=0"),
		Tests: false,
	}
	pkgs, err := packages.Load(cfg, "./internal/route")
	if err != nil || len(pkgs) != 1 || len(pkgs[0].Errors) > 0 || pkgs[0].Types == nil {
		return nil, fmt.Errorf("internal/route could not be type-checked")
	}
	scope := pkgs[0].Types.Scope()
	var out []styleConst
	for _, n := range scope.Names() {
		c, ok := scope.Lookup(n).(*types.Const)
		if !ok {
			continue
		}
		nt, ok := c.Type().(*types.Named)
		if !ok || nt.Obj().Name() != "MatchStyle" {
			continue
		}
		v, exact := constant.Int64Val(constant.ToInt(c.Val()))
		if !exact || v < 0 {
			return nil, fmt.Errorf("MatchStyle constant %s has no small integer value", n)
		}
		out = append(out, styleConst{n, v})
	}
	if len(out) == 0 {
		return nil, fmt.Errorf("no constant of type MatchStyle in internal/route")
	}
	sort.SliceStable(out, func(i, j int) bool { return out[i].val < out[j].val })
	return out, nil
}

func matchStylesSyntactic(repo string) ([]styleConst, error) {
	// --- match styles, in iota order -------------------------------------------------
	_, leaf, err := parseFile(repo, "internal/route/leaf.go")
	if err != nil {
		return nil, err
	}
	var styles []styleConst
	for _, d := range leaf.Decls {
		gd, ok := d.(*ast.GenDecl)
		if !ok || gd.Tok != token.CONST {
			continue
		}
		isBlock := false
		for i, s := range gd.Specs {
			vs := s.(*ast.ValueSpec)
			if i == 0 {
				if id, ok := vs.Type.(*ast.Ident); ok && id.Name == "MatchStyle" && len(vs.Values) == 1 {
					if v, ok := vs.Values[0].(*ast.Ident); ok && v.Name == "iota" {
						isBlock = true
					}
				}
			}
			if isBlock {
				if i > 0 && (vs.Type != nil || len(vs.Values) != 0) {
					return nil, fmt.Errorf("MatchStyle const block is no longer a plain iota block")
				}
				for _, n := range vs.Names {
					styles = append(styles, styleConst{n.Name, int64(len(styles))})
				}
			}
		}
	}
	if len(styles) == 0 {
		return nil, fmt.Errorf("MatchStyle iota block not found in leaf.go")
	}
	return styles, nil
}

func httpMethodsSyntactic(repo string) ([]string, error) {
	// --- httpMethods ---------------------------------------------------------------------
	_, router, err := parseFile(repo, "router.go")
	if err != nil {
		return nil, err
	}
	methodConst := map[string]string{
		"MethodGet": "GET", "MethodPost": "POST", "MethodPut": "PUT", "MethodDelete": "DELETE",
		"MethodPatch": "PATCH", "MethodOptions": "OPTIONS", "MethodHead": "HEAD",
		"MethodConnect": "CONNECT", "MethodTrace": "TRACE",
	}
	var methods []string
	found := false
	for _, d := range router.Decls {
		gd, ok := d.(*ast.GenDecl)
		if !ok || gd.Tok != token.VAR {
			continue
		}
		for _, s := range gd.Specs {
			vs := s.(*ast.ValueSpec)
			if len(vs.Names) != 1 || vs.Names[0].Name != "httpMethods" || len(vs.Values) != 1 {
				continue
			}
			cl, ok := vs.Values[0].(*ast.CompositeLit)
			if !ok {
				return nil, fmt.Errorf("httpMethods is no longer a composite literal")
			}
			found = true
			for _, e := range cl.Elts {
				switch v := e.(type) {
				case *ast.SelectorExpr:
					m, ok := methodConst[v.Sel.Name]
					if !ok {
						return nil, fmt.Errorf("httpMethods: unknown constant %s", v.Sel.Name)
					}
					methods = append(methods, m)
				case *ast.BasicLit:
					methods = append(methods, strings.Trim(v.Value, "\"`"))
				default:
					return nil, fmt.Errorf("httpMethods: unexpected element")
				}
			}
		}
	}
	if !found {
		return nil, fmt.Errorf("httpMethods not found in router.go")
	}
	return methods, nil
}
