package main

// injectcode.go — Gen/InjectCode.lean: inject/inject.go's `injector` (Set, Value, SetParent), translated (gocode.go).
// A reflect.Type is an index into the universe of types, a reflect.Value the identity of a registered value (0 = the zero
// Value, `IsValid() == false`); what `reflect` says about types — Kind() == Interface, Implements — is the universe
// parameter `U` of Model/Inject. The parent injector is an ENVIRONMENT object: `inj.parent.Value(t)` is recorded and
// answered arbitrarily; Props/C04Code then closes the recursion over the chain of scopes.

func init() { emitters["InjectCode"] = emitInjectCode }

func emitInjectCode(repo string) (string, error) {
	return translateType(repo, codeCfg{
		pkg:       "./inject",
		recvType:  "injector",
		namespace: "Flamego.Gen.InjectCode",
		imports:   []string{"Flamego.Code.GoSem", "Flamego.Code.LibReflect"},
		types: map[string]string{
			"reflect.Type":  "Lib.Ty",
			"reflect.Value": "Lib.RVal",
			"reflect.Kind":  "Int",
		},
		lib: map[string]string{
			"(reflect.Value).IsValid":   "Lib.RVal_IsValid",
			"(reflect.Type).Kind":       "Lib.Ty_Kind U",
			"(reflect.Type).Implements": "Lib.Ty_Implements U",
			"reflect.TypeOf":            "tyOf",
			"reflect.ValueOf":           "Lib.reflect_ValueOf",
			"(reflect.Type).In":         "sigIn",
			"(reflect.Value).Call":      "callF",
			"fmt.Errorf":                "Lib.fmt_Errorf@0",
		},
		ownArgs: " U",
		prelude: "variable (U : Flamego.Inject.Universe)\n-- `reflect.TypeOf` of a value the caller passes: which type of the universe it has\nvariable (tyOf : Any → Lib.Ty)\n-- `t.In(i)`: the type of the i-th parameter of a function type; `reflect.Value.Call`: what the function returns for the arguments\nvariable (sigIn : Lib.Ty → Int → Lib.Ty) (callF : Lib.RVal → List Lib.RVal → List Lib.RVal)\n",
		skip:    map[string]string{},
	})
}
