package main

// ConstFacts, part 2: render.go, static.go (C17, C16).

import (
	"go/ast"
	"go/token"
)

// litPlus: `"lit"` → (lit, false); `"lit" + <tail>` → (lit, true); anything else is an error
func (c *cfacts) litPlus(e ast.Expr, tail, where string) (string, bool) {
	if s, ok := strLit(e); ok {
		return s, false
	}
	if be, ok := e.(*ast.BinaryExpr); ok && be.Op == token.ADD && exprText(be.Y) == tail {
		if s, ok := strLit(be.X); ok {
			return s, true
		}
	}
	c.fail("%s: expected a string literal, optionally followed by `+ %s`; found %q", where, tail, exprText(e))
	return "", false
}

// plusLit: `<head> + "lit"` → lit
func (c *cfacts) plusLit(e ast.Expr, head, where string) string {
	if be, ok := e.(*ast.BinaryExpr); ok && be.Op == token.ADD && exprText(be.X) == head {
		if s, ok := strLit(be.Y); ok {
			return s
		}
	}
	c.fail("%s: expected `%s + \"…\"`, found %q", where, head, exprText(e))
	return ""
}

func (c *cfacts) renderFacts() {
	const rel = "render.go"
	var keys []string
	for _, m := range []struct{ method, lean string }{
		{"JSON", "renderJSON"}, {"XML", "renderXML"}, {"Binary", "renderBinary"}, {"PlainText", "renderPlain"},
	} {
		where := rel + " (*render)." + m.method
		fd := c.funcIn(rel, "render", m.method)
		set := c.theCall(fd, ".Header().Set", 2, where)
		keys = append(keys, c.str(set.Args[0], where+" header name"))
		typ, cs := c.litPlus(set.Args[1], "r.opts.Charset", where+" Content-Type value")
		c.add("C17", m.lean+"Type", "the string literal in the second argument of `Header().Set(…)` in "+where, typ)
		c.add("C17", m.lean+"Charset", "whether `+ r.opts.Charset` follows that literal in "+where, cs)
		if m.method == "JSON" || m.method == "XML" {
			he := c.theCall(fd, "http.Error", 3, where)
			c.add("C17", m.lean+"ErrorStatus", "the third argument of `http.Error` (encoder failed) in "+where,
				c.num(he.Args[2], where+" http.Error status"))
		}
	}
	c.add("C17", "renderHeaderKeys",
		"the first argument of `Header().Set(…)` in (*render).JSON, XML, Binary, PlainText of render.go, in that order", keys)
	where := rel + " Renderer/parseRenderOptions"
	cl := c.closureIn(c.funcIn(rel, "", "Renderer"), "parseRenderOptions", where)
	is := c.theIf(cl, `opts.Charset == ""`, where)
	c.add("C17", "renderDefaultCharset", "`if opts.Charset == \"\" { opts.Charset = … }` in "+where,
		c.str(c.assignedIn(is.Body, "opts.Charset", where), where))
}

func (c *cfacts) staticFacts() {
	const rel = "static.go"
	fd := c.funcIn(rel, "", "Static")
	where := rel + " Static/parseStaticOptions"
	cl := c.closureIn(fd, "parseStaticOptions", where)
	c.add("C16", "staticDefaultDirectory", "`if opts.Directory == \"\" { opts.Directory = … }` in "+where,
		c.str(c.assignedIn(c.theIf(cl, `opts.Directory == ""`, where).Body, "opts.Directory", where), where))
	c.add("C16", "staticDefaultIndex", "`if opts.Index == \"\" { opts.Index = … }` in "+where,
		c.str(c.assignedIn(c.theIf(cl, `opts.Index == ""`, where).Body, "opts.Index", where), where))
	// opts.Prefix = "/" + strings.Trim(opts.Prefix, "/")
	pe := c.assignedIn(c.theIf(cl, `opts.Prefix != ""`, where).Body, "opts.Prefix", where)
	lead, cut := "", ""
	if be, ok := pe.(*ast.BinaryExpr); ok && be.Op == token.ADD {
		lead = c.str(be.X, where+" prefix lead")
		tc := c.theCall(be.Y, "strings.Trim", 2, where)
		if exprText(tc.Args[0]) != "opts.Prefix" {
			c.fail("%s: strings.Trim no longer trims opts.Prefix", where)
		}
		cut = c.str(tc.Args[1], where+" prefix cutset")
	} else {
		c.fail("%s: opts.Prefix is no longer `\"/\" + strings.Trim(opts.Prefix, \"/\")`", where)
	}
	c.add("C16", "staticPrefixLead", "the literal prepended in `opts.Prefix = … + strings.Trim(opts.Prefix, …)` in "+where, lead)
	c.add("C16", "staticPrefixCutset", "the cutset of `strings.Trim(opts.Prefix, …)` in "+where, cut)

	// the handler closure: the argument of LoggerInvoker
	where = rel + " Static handler"
	var h ast.Node = &ast.BlockStmt{}
	if li := callsIn(fd, "LoggerInvoker"); len(li) == 1 && len(li[0].Args) == 1 {
		h = li[0].Args[0]
	} else {
		c.fail("%s: `return LoggerInvoker(func…)` not found", where)
	}
	// if c.Request().Method != http.MethodGet && c.Request().Method != http.MethodHead { return }
	var methods []string
	found := 0
	ast.Inspect(h, func(x ast.Node) bool {
		is, ok := x.(*ast.IfStmt)
		if !ok {
			return true
		}
		cs := conjuncts(is.Cond)
		for _, cj := range cs {
			be, ok := cj.(*ast.BinaryExpr)
			if !ok || exprText(be.X) != "c.Request().Method" {
				return true
			}
		}
		found++
		if len(is.Body.List) != 1 || exprText(is.Body.List[0]) != "return" {
			c.fail("%s: the method test no longer guards a plain `return`", where)
		}
		for _, cj := range cs {
			methods = append(methods, c.str(c.cmp(cj, "c.Request().Method", token.NEQ, where+" method test"), where+" method test"))
		}
		return true
	})
	if found != 1 {
		c.fail("%s: expected exactly one `if c.Request().Method != … && …`, found %d", where, found)
	}
	c.add("C16", "staticMethods", "the constants of `if c.Request().Method != … && c.Request().Method != … { return }` in "+where, methods)

	// if file == "/" { file = "." } else { file = strings.TrimRight(file, "/") }
	var rootIf *ast.IfStmt
	ast.Inspect(h, func(x ast.Node) bool {
		if is, ok := x.(*ast.IfStmt); ok && rootIf == nil {
			if be, ok := is.Cond.(*ast.BinaryExpr); ok && be.Op == token.EQL && exprText(be.X) == "file" && is.Else != nil {
				rootIf = is
			}
		}
		return true
	})
	if rootIf == nil {
		c.fail("%s: `if file == \"/\" {…} else {…}` not found", where)
		rootIf = &ast.IfStmt{Cond: &ast.BadExpr{}, Body: &ast.BlockStmt{}, Else: &ast.BlockStmt{}}
	}
	c.add("C16", "staticRootFile", "the literal of `if file == … { file = \".\" }` in "+where,
		c.str(c.cmp(rootIf.Cond, "file", token.EQL, where), where))
	c.add("C16", "staticRootOpenName", "the name opened for the root: `if file == \"/\" { file = … }` in "+where,
		c.str(c.assignedIn(rootIf.Body, "file", where), where))
	tr := c.theCall(rootIf.Else, "strings.TrimRight", 2, where)
	if exprText(tr.Args[0]) != "file" {
		c.fail("%s: strings.TrimRight no longer trims `file`", where)
	}
	c.add("C16", "staticTrimRightCutset", "the cutset of `file = strings.TrimRight(file, …)` in "+where, c.str(tr.Args[1], where))

	// http.Redirect(c.ResponseWriter(), c.Request().Request, redirPath+"/", http.StatusFound)
	rd := c.theCall(h, "http.Redirect", 4, where)
	c.add("C16", "staticRedirectSuffix", "the literal appended to redirPath in the third argument of `http.Redirect` in "+where,
		c.plusLit(rd.Args[2], "redirPath", where+" redirect target"))
	c.add("C16", "staticRedirectStatus", "the fourth argument of `http.Redirect` in "+where, c.num(rd.Args[3], where+" redirect status"))

	// if opt.SetETag { …Header().Set("ETag", etag); if …Header.Get("If-None-Match") == etag { …WriteHeader(304); return } }
	et := c.theIf(h, "opt.SetETag", where)
	set := c.theCall(et.Body, ".Header().Set", 2, where+" SetETag branch")
	c.add("C16", "staticETagHeader", "the header set in the `if opt.SetETag` branch in "+where, c.str(set.Args[0], where))
	get := c.theCall(et.Body, "c.Request().Header.Get", 1, where+" SetETag branch")
	c.add("C16", "staticIfNoneMatchHeader", "the request header compared with the ETag in "+where, c.str(get.Args[0], where))
	wh := c.theCall(et.Body, ".WriteHeader", 1, where+" SetETag branch")
	c.add("C16", "staticNotModifiedStatus", "the argument of `WriteHeader` when If-None-Match equals the ETag in "+where,
		c.num(wh.Args[0], where+" not-modified status"))
	if n := len(callsIn(h, ".WriteHeader")); n != 1 {
		c.fail("%s: the handler now calls WriteHeader %d times (the model knows one: the 304)", where, n)
	}
}
