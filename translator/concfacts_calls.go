package main

// ConcFacts, part 3: calls — on-the-fly resolution, library calls, reflection, hand-out, roots.

import (
	"fmt"
	"go/types"
	"os"
	"strings"

	"golang.org/x/tools/go/ssa"
)

// resNode: where result i of a call lands
func (a *an) resNode(call *ssa.Call, ph, i int) *nd {
	if call == nil {
		return newNd()
	}
	return a.valI(call, ph, i)
}

func (a *an) genCall(fn *ssa.Function, ph int, site ssa.Instruction, c *ssa.CallCommon, call *ssa.Call) {
	res := func(i int) *nd { return a.resNode(call, ph, i) }
	argN := make([]*nd, len(c.Args))
	for i, x := range c.Args {
		argN[i] = a.val(x, ph)
	}
	argT := make([]types.Type, len(c.Args))
	for i, x := range c.Args {
		argT[i] = x.Type()
	}
	if c.IsInvoke() {
		recv := a.val(c.Value, ph)
		a.watchNd(recv, func(l loc) {
			if isExt(l.o) && !(l.tag != "" && a.moduleType(a.tagTypes[l.tag])) {
				all := append([]*nd{single(l)}, argN...)
				allT := append([]types.Type{c.Value.Type()}, argT...)
				a.unknownCall(fn, ph, "invoke "+shortType(c.Value.Type())+"."+c.Method.Name(), all, allT, c.Signature(), res, l.o)
				return
			}
			T := a.dynType(l)
			if T == nil {
				return
			}
			sel := a.prog.MethodSets.MethodSet(T).Lookup(c.Method.Pkg(), c.Method.Name())
			if sel == nil {
				if os.Getenv("CONCFACTS_DEBUG") != "" {
					fmt.Fprintf(os.Stderr, "debug: %s arrives at invoke %s.%s in %s\n", l.o.label, shortType(c.Value.Type()), c.Method.Name(), fnName(fn))
				}
				return
			}
			m := a.prog.MethodValue(sel)
			if m == nil {
				return
			}
			all := append([]*nd{single(loc{o: l.o, path: l.path})}, argN...)
			allT := append([]types.Type{T}, argT...)
			a.callFn(fn, ph, site, m, nil, all, allT, res)
		})
		return
	}
	switch f := c.Value.(type) {
	case *ssa.Builtin:
		a.builtin(fn, ph, site, f, c, argN, res)
	case *ssa.Function:
		a.callFn(fn, ph, site, f, nil, argN, argT, res)
	default:
		a.watchNd(a.val(c.Value, ph), func(l loc) {
			if isExt(l.o) {
				a.unknownCall(fn, ph, "call of application-supplied "+shortType(c.Value.Type()), argN, argT, c.Signature(), res, l.o)
				return
			}
			if (l.o.kind == kFunc || l.o.kind == kClosure) && l.o.fn != nil {
				if len(l.o.fn.Params) != len(argN) {
					return
				}
				a.callFn(fn, ph, site, l.o.fn, l.o, argN, argT, res)
			}
		})
	}
}

// callFn binds one call edge caller→callee in phase ph. clo = closure object (free variables).
func (a *an) callFn(caller *ssa.Function, ph int, site ssa.Instruction, f *ssa.Function, clo *object, args []*nd, argT []types.Type, res func(int) *nd) {
	if len(f.Blocks) == 0 {
		a.extCall(caller, ph, site, f, args, argT, res)
		return
	}
	a.edgesCG[[2]string{fnName(caller), fnName(f)}] = true
	if a.callersOf[f] == nil {
		a.callersOf[f] = map[*ssa.Function]bool{}
	}
	a.callersOf[f][caller] = true // caller == nil: a root
	if caller != nil && ph < 2 && isCtor(f) {
		ph = a.ctxPhase(ph, caller)
	}
	if !a.insts[ikey{f, ph}] && os.Getenv("CONCFACTS_DEBUG") != "" && isServe(ph) {
		fmt.Fprintf(os.Stderr, "debug: serve reaches %s from %s (%s)\n", fnName(f), fnName(caller), a.curWhy)
	}
	a.inst(f, ph)
	for i, p := range f.Params {
		if i < len(args) && tracked(p.Type()) {
			a.copyEdge(args[i], a.val(p, ph))
		}
	}
	if clo != nil && clo.kind == kClosure {
		for i, fv := range f.FreeVars {
			if structLike(fv.Type()) {
				a.add(a.val(fv, ph), loc{o: clo, path: fmt.Sprintf("$%d", i)})
			} else if pointerLike(fv.Type()) {
				a.copyEdge(a.cell(clo, fmt.Sprintf("$%d", i)), a.val(fv, ph))
			}
		}
	}
	rs := f.Signature.Results()
	for i := 0; i < rs.Len(); i++ {
		if tracked(rs.At(i).Type()) {
			a.copyEdge(a.ret(f, ph, i), res(i))
		}
	}
}

// handOut: l is given to code that is not analysed (library or application) in phase ph: that code may
// call the closure, or any exported method of a module-defined type.
func (a *an) handOut(l loc, ph int, why string) {
	if isExt(l.o) {
		return
	}
	key := fmt.Sprintf("%d|%s|%s|%d", l.o.id, l.path, l.tag, ph)
	if a.handed[key] {
		return
	}
	a.handed[key] = true
	a.curWhy = "handed out: " + l.o.label + " because " + why
	defer func() { a.curWhy = "" }()
	extArgs := func(f *ssa.Function, skip int) ([]*nd, []types.Type) {
		var ns []*nd
		var ts []types.Type
		for i, p := range f.Params {
			if i < skip {
				continue
			}
			ns = append(ns, single(loc{o: a.extFor(ph)}))
			ts = append(ts, p.Type())
		}
		return ns, ts
	}
	results := func(f *ssa.Function) func(int) *nd {
		return func(i int) *nd {
			n := newNd()
			a.watchNd(n, func(r loc) { a.handOut(r, ph, "returned to the caller of "+fnName(f)) })
			return n
		}
	}
	if (l.o.kind == kClosure || l.o.kind == kFunc) && l.o.fn != nil && l.tag == "" {
		ns, ts := extArgs(l.o.fn, 0)
		a.callFn(nil, ph, nil, l.o.fn, l.o, ns, ts, results(l.o.fn))
		return
	}
	T := a.dynType(l)
	if T == nil || !a.moduleType(T) {
		if (l.o.kind == kClosure || l.o.kind == kFunc) && l.o.fn != nil {
			ns, ts := extArgs(l.o.fn, 0)
			a.callFn(nil, ph, nil, l.o.fn, l.o, ns, ts, results(l.o.fn))
		}
		return
	}
	ms := a.prog.MethodSets.MethodSet(T)
	for i := 0; i < ms.Len(); i++ {
		sel := ms.At(i)
		if !sel.Obj().Exported() {
			continue
		}
		m := a.prog.MethodValue(sel)
		if m == nil {
			continue
		}
		ns, ts := extArgs(m, 1)
		ns = append([]*nd{single(loc{o: l.o, path: l.path})}, ns...)
		ts = append([]types.Type{T}, ts...)
		a.callFn(nil, ph, nil, m, nil, ns, ts, results(m))
	}
	// a func-typed value with methods (LoggerInvoker, ContextInvoker …) can also be called itself
	if (l.o.kind == kClosure || l.o.kind == kFunc) && l.o.fn != nil {
		ns, ts := extArgs(l.o.fn, 0)
		a.callFn(nil, ph, nil, l.o.fn, l.o, ns, ts, results(l.o.fn))
	}
}

// unknownCall: the callee is not analysed. Arguments are handed out, results are opaque.
func (a *an) unknownCall(caller *ssa.Function, ph int, name string, args []*nd, argT []types.Type, sig *types.Signature, res func(int) *nd, resObj *object) {
	for i, n := range args {
		if i < len(argT) && !tracked(argT[i]) {
			continue
		}
		a.watchNd(n, func(l loc) { a.handOut(l, ph, name) })
		// a slice/array argument hands out its elements too (variadic ...interface{})
		a.watchNd(n, func(l loc) {
			if isExt(l.o) {
				return
			}
			a.watchNd(a.cell(l.o, l.path+"[]"), func(e loc) { a.handOut(e, ph, name) })
		})
	}
	if sig != nil {
		for i := 0; i < sig.Results().Len(); i++ {
			if tracked(sig.Results().At(i).Type()) {
				if isServe(ph) && requestScopedResult[name] {
					// net/http contract: the header map a response writer hands out is that writer's own — while serving,
					// the writers in play are the requests' own (EXTREQ) and flamego's per-request wrappers around them
					a.add(res(i), loc{o: a.extReq})
					continue
				}
				a.add(res(i), loc{o: a.extFor(ph)})
			}
		}
	}
	if isServe(ph) {
		a.extCalls = append(a.extCalls, extCallRec{name, caller, args})
	}
}

// library calls whose result belongs to the request being served (see unknownCall)
var requestScopedResult = map[string]bool{"invoke http.ResponseWriter.Header": true}

func calleeName(f *ssa.Function) string {
	s := f.String()
	return s
}

var atomicWriteNames = map[string]bool{"Store": true, "Add": true, "Swap": true, "CompareAndSwap": true, "And": true, "Or": true}

func isAtomicWrite(f *ssa.Function) bool {
	var pkg *types.Package
	if f.Pkg != nil {
		pkg = f.Pkg.Pkg
	} else if f.Object() != nil {
		pkg = f.Object().Pkg()
	}
	if pkg == nil || pkg.Path() != "sync/atomic" {
		return false
	}
	n := f.Name()
	for p := range atomicWriteNames {
		if strings.HasPrefix(n, p) {
			return true
		}
	}
	return false
}

func (a *an) extCall(caller *ssa.Function, ph int, site ssa.Instruction, f *ssa.Function, args []*nd, argT []types.Type, res func(int) *nd) {
	name := calleeName(f)
	// the Append… functions of the standard library (strconv.AppendInt, time.Time.AppendFormat, fmt.Appendf,
	// base64's AppendEncode …) write behind the end of the byte slice they are given and return it: the result is the
	// caller's own buffer (possibly regrown), not an object of unknown provenance
	if strings.HasPrefix(f.Name(), "Append") && f.Signature.Results().Len() >= 1 && isByteSlice(f.Signature.Results().At(0).Type()) {
		for i := range args {
			if i < len(argT) && isByteSlice(argT[i]) {
				a.copyEdge(args[i], res(0))
				if isServe(ph) {
					a.extCalls = append(a.extCalls, extCallRec{name, caller, nil})
				}
				return
			}
		}
	}
	switch name {
	case "reflect.ValueOf":
		a.copyEdge(args[0], res(0))
		return
	case "(reflect.Value).Interface":
		a.copyEdge(args[0], res(0))
		return
	case "(reflect.Value).Call":
		// the wrapped function is called with the elements of `in`; results come back as a fresh slice
		phs := "setup"
		if isServe(ph) {
			phs = "serve"
		}
		out := a.newObj(okey{site, ph, "reflectcall"}, kAlloc, ph, nil, fmt.Sprintf("[]reflect.Value result of Value.Call in %s @%s", fnName(caller), phs))
		a.add(res(0), loc{o: out})
		elems := newNd()
		a.watchNd(args[1], func(arr loc) { a.copyEdge(a.cell(arr.o, arr.path+"[]"), elems) })
		a.watchNd(args[0], func(l loc) {
			if isExt(l.o) {
				// an application handler: everything in `in` is handed to it
				a.watchNd(elems, func(e loc) { a.handOut(e, ph, "argument of an application handler (reflect.Value.Call)") })
				a.add(a.cell(out, "[]"), loc{o: a.extFor(ph)})
				if isServe(ph) {
					a.extCalls = append(a.extCalls, extCallRec{"application handler via reflect.Value.Call", caller, []*nd{elems}})
				}
				return
			}
			if (l.o.kind == kFunc || l.o.kind == kClosure) && l.o.fn != nil {
				g := l.o.fn
				ns := make([]*nd, len(g.Params))
				ts := make([]types.Type, len(g.Params))
				for i, p := range g.Params {
					pt := p.Type()
					n := newNd()
					a.mapEdge(elems, n, func(e loc) (loc, bool) { return a.assignable(e, pt) })
					ns[i], ts[i] = n, pt
				}
				a.callFn(caller, ph, site, g, l.o, ns, ts, func(i int) *nd { return a.cell(out, "[]") })
			}
		})
		return
	case "(*sync.Once).Do":
		a.watchNd(args[1], func(l loc) {
			if (l.o.kind == kFunc || l.o.kind == kClosure) && l.o.fn != nil {
				a.once[l.o.fn] = append(a.once[l.o.fn], onceInfo{addr: args[0], name: onceName(site)})
				a.callFn(caller, ph, site, l.o.fn, l.o, nil, nil, func(int) *nd { return newNd() })
			} else if isExt(l.o) {
				a.unknownCall(caller, ph, "application func via sync.Once.Do", nil, nil, nil, res, nil)
			}
		})
		if isServe(ph) {
			a.extCalls = append(a.extCalls, extCallRec{name, caller, args[:1]})
		}
		return
	}
	if isAtomicWrite(f) && len(args) > 0 {
		a.recordWrite(site, caller, ph, "atomic", args[0], describeAtomic(site))
		if isServe(ph) {
			a.extCalls = append(a.extCalls, extCallRec{name, caller, args[:1]})
		}
		return
	}
	pkgPath := ""
	if f.Pkg != nil {
		pkgPath = f.Pkg.Pkg.Path()
	} else if f.Object() != nil && f.Object().Pkg() != nil {
		pkgPath = f.Object().Pkg().Path()
	}
	if pkgPath == "reflect" || pkgPath == "sync/atomic" {
		// reflection does not call methods behind our back (Value.Call is handled above); results opaque
		for i := 0; i < f.Signature.Results().Len(); i++ {
			if tracked(f.Signature.Results().At(i).Type()) {
				a.add(res(i), loc{o: a.extFor(ph)})
			}
		}
		if isServe(ph) {
			a.extCalls = append(a.extCalls, extCallRec{name, caller, args})
		}
		return
	}
	a.unknownCall(caller, ph, name, args, argT, f.Signature, res, nil)
}

func onceName(site ssa.Instruction) string {
	if ci, ok := site.(ssa.CallInstruction); ok {
		c := ci.Common()
		if len(c.Args) > 0 {
			return describeAddr(c.Args[0])
		}
	}
	return "?"
}

func describeAtomic(site ssa.Instruction) string {
	if ci, ok := site.(ssa.CallInstruction); ok {
		c := ci.Common()
		if len(c.Args) > 0 {
			return describeAddr(c.Args[0])
		}
	}
	return "?"
}

// assignable: can the value at e be passed for a parameter of type T (used for reflect.Value.Call and the pool)
func (a *an) assignable(e loc, T types.Type) (loc, bool) {
	if isExt(e.o) && e.tag == "" {
		return e, true
	}
	if it, ok := T.Underlying().(*types.Interface); ok {
		if e.tag == "" {
			dt := a.dynType(e)
			if dt != nil && types.Implements(dt, it) {
				e.tag = a.tagOf(dt)
				return e, true
			}
			return e, false
		}
		return e, types.Implements(a.tagTypes[e.tag], it)
	}
	if e.tag != "" {
		if types.Identical(a.tagTypes[e.tag], T) {
			e.tag = ""
			return e, true
		}
		return e, false
	}
	if _, ok := T.Underlying().(*types.Signature); ok {
		if (e.o.kind == kClosure || e.o.kind == kFunc) && e.o.fn != nil && types.Identical(e.o.fn.Signature.Underlying(), T.Underlying()) {
			return e, true
		}
		return e, false
	}
	if dt := a.dynType(e); dt != nil && types.Identical(dt, T) {
		return e, true
	}
	return e, false
}

func (a *an) builtin(fn *ssa.Function, ph int, site ssa.Instruction, b *ssa.Builtin, c *ssa.CallCommon, args []*nd, res func(int) *nd) {
	switch b.Name() {
	case "append":
		if _, ok := c.Args[0].Type().Underlying().(*types.Slice); !ok {
			return
		}
		r := res(0)
		a.copyEdge(args[0], r)
		arr := a.allocObj(valueOfSite(site), fn, ph, c.Args[0].Type(), "append-grown "+shortType(c.Args[0].Type()), "append")
		a.add(r, loc{o: arr})
		a.watchNd(args[0], func(s loc) { a.prefixCopy(loc{o: s.o, path: s.path + "[]"}, loc{o: arr, path: "[]"}) })
		if len(args) > 1 && tracked(c.Args[1].Type()) {
			a.watchNd(args[1], func(e loc) {
				a.watchNd(r, func(d loc) { a.prefixCopy(loc{o: e.o, path: e.path + "[]"}, loc{o: d.o, path: d.path + "[]"}) })
			})
		}
		a.recordWrite(site, fn, ph, "append", args[0], describeAddr(c.Args[0])+"[len:]")
	case "copy":
		if tracked(c.Args[1].Type()) {
			a.watchNd(args[1], func(s loc) {
				a.watchNd(args[0], func(d loc) { a.prefixCopy(loc{o: s.o, path: s.path + "[]"}, loc{o: d.o, path: d.path + "[]"}) })
			})
		}
		a.recordWrite(site, fn, ph, "copy", args[0], describeAddr(c.Args[0])+"[:]")
	case "delete":
		a.recordWrite(site, fn, ph, "mapdelete", args[0], describeAddr(c.Args[0])+"[k]")
	case "clear":
		a.recordWrite(site, fn, ph, "clear", args[0], describeAddr(c.Args[0]))
	case "recover":
		a.add(res(0), loc{o: a.extFor(ph)})
	}
}

func valueOfSite(site ssa.Instruction) ssa.Value {
	if v, ok := site.(ssa.Value); ok {
		return v
	}
	return nil
}

// ---------------------------------------------------------------------------- roots

// poolInto: application glue — what the API returned earlier may be passed back for a parameter of type T
func (a *an) poolInto(n *nd, T types.Type) {
	if it, ok := T.Underlying().(*types.Interface); ok && it.NumMethods() == 0 {
		named, isNamed := T.(*types.Named)
		if !isNamed || !a.inModule(named.Obj().Pkg()) {
			return // plain interface{} parameters (Map(...interface{})) are application services, not framework objects
		}
	}
	a.mapEdge(a.pool, n, func(l loc) (loc, bool) {
		if isExt(l.o) || l.o.ph == phServe {
			return l, false // the pool is what set-up code got back from the API
		}
		if it, ok := T.Underlying().(*types.Interface); ok && it.NumMethods() == 0 && l.o.kind != kClosure && l.o.kind != kFunc {
			return l, false // flamego.Handler: "any callable function"
		}
		return a.assignable(l, T)
	})
}

func (a *an) seedParam(fn *ssa.Function, p *ssa.Parameter, ph int) {
	T := p.Type()
	if !tracked(T) {
		return
	}
	n := a.val(p, ph)
	if _, isIface := T.Underlying().(*types.Interface); !isIface && a.moduleType(T) {
		if _, isPtr := T.Underlying().(*types.Pointer); isPtr {
			// a framework object (*Flame, *Route, *ComboRoute …): the application can only pass back what the API gave it
			a.poolInto(n, T)
			return
		}
	}
	a.add(n, loc{o: a.ext})
	if sl, ok := T.Underlying().(*types.Slice); ok {
		arr := a.newObj(okey{p, ph, "apparg"}, kAlloc, ph, T, "application-built argument slice "+p.Name()+" of "+fnName(fn)+" @setup")
		a.add(n, loc{o: arr})
		if pointerLike(sl.Elem()) {
			a.add(a.cell(arr, "[]"), loc{o: a.ext})
			a.poolInto(a.cell(arr, "[]"), sl.Elem())
		} else if structLike(sl.Elem()) {
			a.prefixCopy(loc{o: a.ext}, loc{o: arr, path: "[]"})
		}
		return
	}
	a.poolInto(n, T)
}

func (a *an) setupRoot(fn *ssa.Function) {
	if fn == nil || len(fn.Blocks) == 0 {
		return
	}
	a.inst(fn, phSetup)
	for _, p := range fn.Params {
		a.seedParam(fn, p, phSetup)
	}
	rs := fn.Signature.Results()
	for i := 0; i < rs.Len(); i++ {
		if pointerLike(rs.At(i).Type()) {
			a.copyEdge(a.ret(fn, phSetup, i), a.pool)
		}
	}
}

func isByteSlice(t types.Type) bool {
	sl, ok := t.Underlying().(*types.Slice)
	if !ok {
		return false
	}
	b, ok := sl.Elem().Underlying().(*types.Basic)
	return ok && b.Kind() == types.Uint8
}
