package main

// ConstFacts, part 4: router.go (C02 C08 C11 C12).

import (
	"go/ast"
	"go/token"
)

var routerVerbs = []string{"Get", "Patch", "Post", "Put", "Delete", "Options", "Head", "Connect", "Trace"}

func (c *cfacts) routerFacts() {
	const rel = "router.go"

	// addRoute: `if method == "*" { methods = httpMethods }`
	where := rel + " (*router).addRoute"
	fd := c.funcIn(rel, "router", "addRoute")
	var anyIf *ast.IfStmt
	ast.Inspect(fd, func(x ast.Node) bool {
		if is, ok := x.(*ast.IfStmt); ok && anyIf == nil {
			if be, ok := is.Cond.(*ast.BinaryExpr); ok && exprText(be.X) == "method" {
				if _, lit := strLit(be.Y); lit {
					anyIf = is
				}
			}
		}
		return true
	})
	if anyIf == nil {
		c.fail("%s: `if method == \"*\" {` not found", where)
		anyIf = &ast.IfStmt{Cond: &ast.BadExpr{}, Body: &ast.BlockStmt{}}
	}
	c.add("C08", "routerAnyMethod", "the method text that stands for all of httpMethods: `if method == … { methods = httpMethods }` in "+where,
		c.str(c.cmp(anyIf.Cond, "method", token.EQL, where), where))
	if exprText(c.assignedIn(anyIf.Body, "methods", where)) != "httpMethods" {
		c.fail("%s: the `*` branch no longer assigns httpMethods", where)
	}
	up := c.theCall(fd, "strings.ToUpper", 1, where)
	if exprText(up.Args[0]) != "method" {
		c.fail("%s: the method is no longer upper-cased first", where)
	}

	// Any: `return r.Route("*", routePath, handlers)`
	where = rel + " (*router).Any"
	call := c.theCall(c.funcIn(rel, "router", "Any"), "r.Route", 3, where)
	c.add("C11", "routerAnyArg", "the method argument of `r.Route` in "+where, c.str(call.Args[0], where))

	// Get … Trace: `r.Route(http.MethodXxx, routePath, handlers)`
	var verbs, combo [][2]string
	for _, v := range routerVerbs {
		where = rel + " (*router)." + v
		call = c.theCall(c.funcIn(rel, "router", v), "r.Route", 3, where)
		verbs = append(verbs, [2]string{v, c.str(call.Args[0], where+" method")})
		// ComboRoute: `return r.route(r.router.Xxx, http.MethodXxx, handlers...)`
		where = rel + " (*ComboRoute)." + v
		call = c.theCall(c.funcIn(rel, "ComboRoute", v), "r.route", 2, where)
		fn := exprText(call.Args[0])
		if len(fn) <= len("r.router.") || fn[:len("r.router.")] != "r.router." {
			c.fail("%s: the first argument of r.route is no longer a method of r.router", where)
		} else {
			fn = fn[len("r.router."):]
		}
		combo = append(combo, [2]string{fn, c.str(call.Args[1], where+" method")})
	}
	c.add("C11", "routerVerbMethods", "the method argument of `r.Route` in each shortcut (*router).Get … Trace of router.go", verbs)
	c.add("C11", "comboVerbMethods", "the router function and the method passed to `r.route` in each (*ComboRoute).Get … Trace of router.go", combo)
	// Get alone looks at autoHead: `if r.autoHead { r.Head(routePath, handlers...) }`
	where = rel + " (*router).Get"
	ah := c.theIf(c.funcIn(rel, "router", "Get"), "r.autoHead", where)
	if len(ah.Body.List) != 1 {
		c.fail("%s: the autoHead branch is no longer a single call", where)
	}
	heads := callsIn(ah.Body, "r.Head")
	if len(heads) != 1 {
		c.fail("%s: the autoHead branch no longer calls r.Head", where)
	}
	c.add("C11", "routerAutoHeadVerb", "the shortcut called under `if r.autoHead` in "+where, leanString("Head"))

	// Routes: `strings.Split(methods, ",")`
	where = rel + " (*router).Routes"
	call = c.theCall(c.funcIn(rel, "router", "Routes"), "strings.Split", 2, where)
	if exprText(call.Args[0]) != "methods" {
		c.fail("%s: strings.Split no longer splits `methods`", where)
	}
	c.add("C11", "routerRoutesSeparator", "the separator of `strings.Split(methods, …)` in "+where, c.str(call.Args[1], where))

	// ServeHTTP: `route.Params{"route": leaf.Route()}` and `params["route"] = leaf.Route()`
	where = rel + " (*router).ServeHTTP"
	fd = c.funcIn(rel, "router", "ServeHTTP")
	var fast []string
	ast.Inspect(fd, func(x ast.Node) bool {
		if cl, ok := x.(*ast.CompositeLit); ok && exprText(cl.Type) == "route.Params" {
			for _, e := range cl.Elts {
				if kv, ok := e.(*ast.KeyValueExpr); ok && exprText(kv.Value) == "leaf.Route()" {
					fast = append(fast, c.str(kv.Key, where+" fast path"))
				}
			}
		}
		return true
	})
	if len(fast) != 1 {
		c.fail("%s: expected one `route.Params{…: leaf.Route()}` on the fast path, found %d", where, len(fast))
		fast = []string{""}
	}
	c.add("C02", "routerRouteParamFast", "the key of `route.Params{…: leaf.Route()}` (static fast path) in "+where, fast[0])
	var slow []string
	ast.Inspect(fd, func(x ast.Node) bool {
		if as, ok := x.(*ast.AssignStmt); ok && len(as.Lhs) == 1 && len(as.Rhs) == 1 && exprText(as.Rhs[0]) == "leaf.Route()" {
			if ix, ok := as.Lhs[0].(*ast.IndexExpr); ok && exprText(ix.X) == "params" {
				slow = append(slow, c.str(ix.Index, where+" tree path"))
			}
		}
		return true
	})
	if len(slow) != 1 {
		c.fail("%s: expected one `params[…] = leaf.Route()`, found %d", where, len(slow))
		slow = []string{""}
	}
	c.add("C02", "routerRouteParamTree", "the key of `params[…] = leaf.Route()` (after Tree.Match) in "+where, slow[0])

	// URLPath: `if vals["withOptional"] == "true" { withOptional = true; delete(vals, "withOptional") }`
	where = rel + " (*router).URLPath"
	fd = c.funcIn(rel, "router", "URLPath")
	var wo *ast.IfStmt
	ast.Inspect(fd, func(x ast.Node) bool {
		if is, ok := x.(*ast.IfStmt); ok && wo == nil {
			if be, ok := is.Cond.(*ast.BinaryExpr); ok && be.Op == token.EQL {
				if ix, ok := be.X.(*ast.IndexExpr); ok && exprText(ix.X) == "vals" {
					wo = is
				}
			}
		}
		return true
	})
	key, val, del := "", "", ""
	if wo == nil {
		c.fail("%s: `if vals[…] == … {` not found", where)
	} else {
		be := wo.Cond.(*ast.BinaryExpr)
		key = c.str(be.X.(*ast.IndexExpr).Index, where+" key")
		val = c.str(be.Y, where+" value")
		d := c.theCall(wo.Body, "delete", 2, where)
		if exprText(d.Args[0]) != "vals" {
			c.fail("%s: delete no longer removes from vals", where)
		}
		del = c.str(d.Args[1], where+" deleted key")
		if exprText(c.assignedIn(wo.Body, "withOptional", where)) != "true" {
			c.fail("%s: the branch no longer sets withOptional = true", where)
		}
	}
	c.add("C12", "routerWithOptionalKey", "the key of `if vals[…] == …` in "+where, key)
	c.add("C12", "routerWithOptionalValue", "the value it is compared with in "+where, val)
	c.add("C12", "routerWithOptionalDeleted", "the key removed by `delete(vals, …)` in that branch of "+where, del)
}
