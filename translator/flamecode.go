package main

// flamecode.go — Gen/FlameCode.lean: flame.go's `Flame.ServeHTTP` and `Before` (gocode.go): the URL prefix is trimmed, the
// Before handlers run in registration order until one answers true, and only then is the router asked to serve.
// A Before handler is a function value: that it ran, on which request, and what it answered (the environment's choice) are
// recorded in `world`, a field ADDED to the structure; the embedded Router is an environment object.

func init() { emitters["FlameCode"] = emitFlameCode }

func emitFlameCode(repo string) (string, error) {
	return translateType(repo, codeCfg{
		pkg:          ".",
		recvType:     "Flame",
		namespace:    "Flamego.Gen.FlameCode",
		imports:      []string{"Flamego.Code.GoSem", "Flamego.Code.LibHTTP"},
		stringBytes:  true,
		opaqueFields: true,
		ghostFields:  [][2]string{{"world", "List (FuncVal × Bytes)"}, {"answers", "Nat → FuncVal → Bool"}},
		types: map[string]string{
			"*net/http.Request": "Lib.Request",
			"*net/url.URL":      "Lib.URL",
		},
		lib: map[string]string{"strings.TrimPrefix": "Lib.strings_TrimPrefix"},
		libFields: map[string]string{
			"net/http.Request.URL": "Lib.Request_URL",
			"net/url.URL.Path":     "Lib.URL_Path",
		},
		libFieldSet: map[string]string{"net/http.Request.URL/net/url.URL.Path": "Lib.Request_setPath"},
		prelude: `/-- calling a ` + "`BeforeHandler`" + ` (func(http.ResponseWriter, *http.Request) bool): that it ran, and on which path, is recorded in
the world; what it answers is the environment's choice (` + "`answers`" + `, by position in the world and identity of the handler) -/
def call_BeforeHandler (h : FuncVal) (f : Flame) (_w : Env) (r : Lib.Request) : Bool × Flame :=
  (f.answers f.world.length h, { f with world := f.world ++ [(h, r.path)] })
`,
		skip:      map[string]string{},
		callFuncs: map[string]bool{"BeforeHandler": true},
	})
}
